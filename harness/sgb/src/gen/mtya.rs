// auto-generated: "lalrpop 0.23.1"
// sha3: eac9797bdaa05c0d946c37674c3bc342d0abeee5ca84a41ba7d5035a3ae456d2
#[allow(unused_extern_crates)]
extern crate lalrpop_util as __lalrpop_util;
#[allow(unused_imports)]
use self::__lalrpop_util::state_machine as __state_machine;
#[allow(unused_extern_crates)]
extern crate alloc;

#[rustfmt::skip]
#[allow(explicit_outlives_requirements, non_snake_case, non_camel_case_types, unused_mut, unused_variables, unused_imports, unused_parens, clippy::needless_lifetimes, clippy::type_complexity, clippy::needless_return, clippy::too_many_arguments, clippy::match_single_binding, clippy::clone_on_copy, clippy::unit_arg)]
mod __parse__S {

    #[allow(unused_extern_crates)]
    extern crate lalrpop_util as __lalrpop_util;
    #[allow(unused_imports)]
    use self::__lalrpop_util::state_machine as __state_machine;
    #[allow(unused_extern_crates)]
    extern crate alloc;
    use self::__lalrpop_util::lexer::Token;
    pub struct SParser {
        builder: __lalrpop_util::lexer::MatcherBuilder,
        _priv: (),
    }

    impl Default for SParser { fn default() -> Self { Self::new() } }
    impl SParser {
        pub fn new() -> SParser {
            let __builder = super::__intern_token::new_builder();
            SParser {
                builder: __builder,
                _priv: (),
            }
        }

        #[allow(dead_code)]
        pub fn parse<
            'input,
        >(
            &self,
            input: &'input str,
        ) -> Result<usize, __lalrpop_util::ParseError<usize, Token<'input>, &'static str>>
        {
            let mut __tokens = self.builder.matcher(input);
            let __lookahead = match __tokens.next() {
                Some(Ok(v)) => Some(v),
                Some(Err(e)) => return Err(e),
                None => None,
            };
            match __state0(input, &mut __tokens, __lookahead, core::marker::PhantomData::<(&())>)? {
                (Some(__lookahead), _) => {
                    Err(__lalrpop_util::ParseError::ExtraToken { token: __lookahead })
                }
                (None, __Nonterminal::____S((_, __nt, _))) => {
                    Ok(__nt)
                }
                _ => unreachable!(),
            }
        }
    }

    #[allow(dead_code)]
    enum __Nonterminal<>
     {
        Boxed_3cId_3e((usize, Box<String>, usize)),
        Boxed_3cId_3e_3f((usize, Option<Box<String>>, usize)),
        Id((usize, String, usize)),
        Id_2a((usize, alloc::vec::Vec<String>, usize)),
        Id_2b((usize, alloc::vec::Vec<String>, usize)),
        Leak_3cId_3e((usize, &'static String, usize)),
        Leak_3cId_3e_2a((usize, alloc::vec::Vec<&'static String>, usize)),
        Leak_3cId_3e_2b((usize, alloc::vec::Vec<&'static String>, usize)),
        LeakMut_3cId_3e((usize, &'static mut String, usize)),
        Many_3cId_3e((usize, Vec<String>, usize)),
        Nested_3cId_3e((usize, Vec<(&'static String, Option<Box<String>>)>, usize)),
        S((usize, usize, usize)),
        Same_3cId_3e((usize, String, usize)),
        Twice_3cId_3e((usize, (String, String), usize)),
        ____S((usize, usize, usize)),
    }

    fn __state0<
        'input,
        __TOKENS: Iterator<Item=Result<(usize, Token<'input>, usize),__lalrpop_util::ParseError<usize, Token<'input>, &'static str>>>,
    >(
        input: &'input str,
        __tokens: &mut __TOKENS,
        __lookahead: Option<(usize, Token<'input>, usize)>,
        _: core::marker::PhantomData<(&'input ())>,
    ) -> Result<(Option<(usize, Token<'input>, usize)>, __Nonterminal<>), __lalrpop_util::ParseError<usize, Token<'input>, &'static str>>
    {
        let mut __result: (Option<(usize, Token<'input>, usize)>, __Nonterminal<>);
        match __lookahead {
            Some((__loc1, Token(2, __tok0), __loc2)) => {
                let __sym0 = (__loc1, (__tok0), __loc2);
                __result = __state1(input, __tokens, __sym0, core::marker::PhantomData::<(&())>)?;
            }
            Some((__loc1, Token(3, __tok0), __loc2)) => {
                let __sym0 = (__loc1, (__tok0), __loc2);
                __result = __state2(input, __tokens, __sym0, core::marker::PhantomData::<(&())>)?;
            }
            Some((__loc1, Token(4, __tok0), __loc2)) => {
                let __sym0 = (__loc1, (__tok0), __loc2);
                __result = __state3(input, __tokens, __sym0, core::marker::PhantomData::<(&())>)?;
            }
            Some((__loc1, Token(5, __tok0), __loc2)) => {
                let __sym0 = (__loc1, (__tok0), __loc2);
                __result = __state4(input, __tokens, __sym0, core::marker::PhantomData::<(&())>)?;
            }
            Some((__loc1, Token(6, __tok0), __loc2)) => {
                let __sym0 = (__loc1, (__tok0), __loc2);
                __result = __state5(input, __tokens, __sym0, core::marker::PhantomData::<(&())>)?;
            }
            Some((__loc1, Token(7, __tok0), __loc2)) => {
                let __sym0 = (__loc1, (__tok0), __loc2);
                __result = __state6(input, __tokens, __sym0, core::marker::PhantomData::<(&())>)?;
            }
            Some((__loc1, Token(8, __tok0), __loc2)) => {
                let __sym0 = (__loc1, (__tok0), __loc2);
                __result = __state7(input, __tokens, __sym0, core::marker::PhantomData::<(&())>)?;
            }
            _ => {
                #[allow(clippy::needless_raw_string_hashes)]
                let __expected = alloc::vec![
                    r###""boxed""###.to_string(),
                    r###""leak""###.to_string(),
                    r###""leakmut""###.to_string(),
                    r###""many""###.to_string(),
                    r###""nested""###.to_string(),
                    r###""same""###.to_string(),
                    r###""twice""###.to_string(),
                ];
                return Err(
                    match __lookahead {
                        Some(__token) => {
                            __lalrpop_util::ParseError::UnrecognizedToken {
                                token: __token,
                                expected: __expected,
                            }
                        }
                        None => {
                            let __location = Default::default();
                            __lalrpop_util::ParseError::UnrecognizedEof {
                                location: __location,
                                expected: __expected,
                            }
                        }
                    }
                )
            }
        }
        #[allow(clippy::never_loop)]
        loop {
            let (__lookahead, __nt) = __result;
            match __nt {
                __Nonterminal::S(__sym0) => {
                    __result = __state13(input, __tokens, __lookahead, __sym0, core::marker::PhantomData::<(&())>)?;
                }
                _ => {
                    return Ok((__lookahead, __nt));
                }
            }
        }
    }

    fn __state1<
        'input,
        __TOKENS: Iterator<Item=Result<(usize, Token<'input>, usize),__lalrpop_util::ParseError<usize, Token<'input>, &'static str>>>,
    >(
        input: &'input str,
        __tokens: &mut __TOKENS,
        __sym0: (usize, &'input str, usize),
        _: core::marker::PhantomData<(&'input ())>,
    ) -> Result<(Option<(usize, Token<'input>, usize)>, __Nonterminal<>), __lalrpop_util::ParseError<usize, Token<'input>, &'static str>>
    {
        let mut __result: (Option<(usize, Token<'input>, usize)>, __Nonterminal<>);
        let __lookahead = match __tokens.next() {
            Some(Ok(v)) => Some(v),
            Some(Err(e)) => return Err(e),
            None => None,
        };
        match __lookahead {
            Some((__loc1, Token(0, __tok0), __loc2)) => {
                let __sym1 = (__loc1, (__tok0), __loc2);
                __result = __state16(input, __tokens, __sym1, core::marker::PhantomData::<(&())>)?;
            }
            _ => {
                #[allow(clippy::needless_raw_string_hashes)]
                let __expected = alloc::vec![
                    r###"r#"[a-z]+"#"###.to_string(),
                ];
                return Err(
                    match __lookahead {
                        Some(__token) => {
                            __lalrpop_util::ParseError::UnrecognizedToken {
                                token: __token,
                                expected: __expected,
                            }
                        }
                        None => {
                            let __location = __sym0.2.clone();
                            __lalrpop_util::ParseError::UnrecognizedEof {
                                location: __location,
                                expected: __expected,
                            }
                        }
                    }
                )
            }
        }
        #[allow(clippy::never_loop)]
        loop {
            let (__lookahead, __nt) = __result;
            match __nt {
                __Nonterminal::Boxed_3cId_3e(__sym1) => {
                    __result = __state14(input, __tokens, __lookahead, __sym0, __sym1, core::marker::PhantomData::<(&())>)?;
                    return Ok(__result);
                }
                __Nonterminal::Id(__sym1) => {
                    __result = __state15(input, __tokens, __lookahead, __sym1, core::marker::PhantomData::<(&())>)?;
                }
                _ => {
                    return Ok((__lookahead, __nt));
                }
            }
        }
    }

    fn __state2<
        'input,
        __TOKENS: Iterator<Item=Result<(usize, Token<'input>, usize),__lalrpop_util::ParseError<usize, Token<'input>, &'static str>>>,
    >(
        input: &'input str,
        __tokens: &mut __TOKENS,
        __sym0: (usize, &'input str, usize),
        _: core::marker::PhantomData<(&'input ())>,
    ) -> Result<(Option<(usize, Token<'input>, usize)>, __Nonterminal<>), __lalrpop_util::ParseError<usize, Token<'input>, &'static str>>
    {
        let mut __result: (Option<(usize, Token<'input>, usize)>, __Nonterminal<>);
        let __lookahead = match __tokens.next() {
            Some(Ok(v)) => Some(v),
            Some(Err(e)) => return Err(e),
            None => None,
        };
        match __lookahead {
            Some((__loc1, Token(0, __tok0), __loc2)) => {
                let __sym1 = (__loc1, (__tok0), __loc2);
                __result = __state16(input, __tokens, __sym1, core::marker::PhantomData::<(&())>)?;
            }
            _ => {
                #[allow(clippy::needless_raw_string_hashes)]
                let __expected = alloc::vec![
                    r###"r#"[a-z]+"#"###.to_string(),
                ];
                return Err(
                    match __lookahead {
                        Some(__token) => {
                            __lalrpop_util::ParseError::UnrecognizedToken {
                                token: __token,
                                expected: __expected,
                            }
                        }
                        None => {
                            let __location = __sym0.2.clone();
                            __lalrpop_util::ParseError::UnrecognizedEof {
                                location: __location,
                                expected: __expected,
                            }
                        }
                    }
                )
            }
        }
        #[allow(clippy::never_loop)]
        loop {
            let (__lookahead, __nt) = __result;
            match __nt {
                __Nonterminal::Id(__sym1) => {
                    __result = __state17(input, __tokens, __lookahead, __sym1, core::marker::PhantomData::<(&())>)?;
                }
                __Nonterminal::Leak_3cId_3e(__sym1) => {
                    __result = __state8(input, __tokens, __lookahead, __sym0, __sym1, core::marker::PhantomData::<(&())>)?;
                    return Ok(__result);
                }
                _ => {
                    return Ok((__lookahead, __nt));
                }
            }
        }
    }

    fn __state3<
        'input,
        __TOKENS: Iterator<Item=Result<(usize, Token<'input>, usize),__lalrpop_util::ParseError<usize, Token<'input>, &'static str>>>,
    >(
        input: &'input str,
        __tokens: &mut __TOKENS,
        __sym0: (usize, &'input str, usize),
        _: core::marker::PhantomData<(&'input ())>,
    ) -> Result<(Option<(usize, Token<'input>, usize)>, __Nonterminal<>), __lalrpop_util::ParseError<usize, Token<'input>, &'static str>>
    {
        let mut __result: (Option<(usize, Token<'input>, usize)>, __Nonterminal<>);
        let __lookahead = match __tokens.next() {
            Some(Ok(v)) => Some(v),
            Some(Err(e)) => return Err(e),
            None => None,
        };
        match __lookahead {
            Some((__loc1, Token(0, __tok0), __loc2)) => {
                let __sym1 = (__loc1, (__tok0), __loc2);
                __result = __state16(input, __tokens, __sym1, core::marker::PhantomData::<(&())>)?;
            }
            _ => {
                #[allow(clippy::needless_raw_string_hashes)]
                let __expected = alloc::vec![
                    r###"r#"[a-z]+"#"###.to_string(),
                ];
                return Err(
                    match __lookahead {
                        Some(__token) => {
                            __lalrpop_util::ParseError::UnrecognizedToken {
                                token: __token,
                                expected: __expected,
                            }
                        }
                        None => {
                            let __location = __sym0.2.clone();
                            __lalrpop_util::ParseError::UnrecognizedEof {
                                location: __location,
                                expected: __expected,
                            }
                        }
                    }
                )
            }
        }
        #[allow(clippy::never_loop)]
        loop {
            let (__lookahead, __nt) = __result;
            match __nt {
                __Nonterminal::Id(__sym1) => {
                    __result = __state18(input, __tokens, __lookahead, __sym1, core::marker::PhantomData::<(&())>)?;
                }
                __Nonterminal::LeakMut_3cId_3e(__sym1) => {
                    __result = __state19(input, __tokens, __lookahead, __sym0, __sym1, core::marker::PhantomData::<(&())>)?;
                    return Ok(__result);
                }
                _ => {
                    return Ok((__lookahead, __nt));
                }
            }
        }
    }

    fn __state4<
        'input,
        __TOKENS: Iterator<Item=Result<(usize, Token<'input>, usize),__lalrpop_util::ParseError<usize, Token<'input>, &'static str>>>,
    >(
        input: &'input str,
        __tokens: &mut __TOKENS,
        __sym0: (usize, &'input str, usize),
        _: core::marker::PhantomData<(&'input ())>,
    ) -> Result<(Option<(usize, Token<'input>, usize)>, __Nonterminal<>), __lalrpop_util::ParseError<usize, Token<'input>, &'static str>>
    {
        let mut __result: (Option<(usize, Token<'input>, usize)>, __Nonterminal<>);
        let __lookahead = match __tokens.next() {
            Some(Ok(v)) => Some(v),
            Some(Err(e)) => return Err(e),
            None => None,
        };
        match __lookahead {
            Some((__loc1, Token(0, __tok0), __loc2)) => {
                let __sym1 = (__loc1, (__tok0), __loc2);
                __result = __state16(input, __tokens, __sym1, core::marker::PhantomData::<(&())>)?;
            }
            Some((_, Token(1, _), _)) => {
                let __start = __lookahead.as_ref().map(|o| o.0.clone()).unwrap_or_else(|| __sym0.2.clone());
                let __end = __start.clone();
                let __nt = super::__action28::<>(input, &__start, &__end);
                let __nt = __Nonterminal::Many_3cId_3e((
                    __start,
                    __nt,
                    __end,
                ));
                __result = (__lookahead, __nt);
            }
            _ => {
                #[allow(clippy::needless_raw_string_hashes)]
                let __expected = alloc::vec![
                    r###"r#"[a-z]+"#"###.to_string(),
                    r###"",""###.to_string(),
                ];
                return Err(
                    match __lookahead {
                        Some(__token) => {
                            __lalrpop_util::ParseError::UnrecognizedToken {
                                token: __token,
                                expected: __expected,
                            }
                        }
                        None => {
                            let __location = __sym0.2.clone();
                            __lalrpop_util::ParseError::UnrecognizedEof {
                                location: __location,
                                expected: __expected,
                            }
                        }
                    }
                )
            }
        }
        #[allow(clippy::never_loop)]
        loop {
            let (__lookahead, __nt) = __result;
            match __nt {
                __Nonterminal::Id(__sym1) => {
                    __result = __state20(input, __tokens, __lookahead, __sym1, core::marker::PhantomData::<(&())>)?;
                }
                __Nonterminal::Id_2b(__sym1) => {
                    __result = __state9(input, __tokens, __lookahead, __sym1, core::marker::PhantomData::<(&())>)?;
                }
                __Nonterminal::Many_3cId_3e(__sym1) => {
                    __result = __state21(input, __tokens, __lookahead, __sym0, __sym1, core::marker::PhantomData::<(&())>)?;
                    return Ok(__result);
                }
                _ => {
                    return Ok((__lookahead, __nt));
                }
            }
        }
    }

    fn __state5<
        'input,
        __TOKENS: Iterator<Item=Result<(usize, Token<'input>, usize),__lalrpop_util::ParseError<usize, Token<'input>, &'static str>>>,
    >(
        input: &'input str,
        __tokens: &mut __TOKENS,
        __sym0: (usize, &'input str, usize),
        _: core::marker::PhantomData<(&'input ())>,
    ) -> Result<(Option<(usize, Token<'input>, usize)>, __Nonterminal<>), __lalrpop_util::ParseError<usize, Token<'input>, &'static str>>
    {
        let mut __result: (Option<(usize, Token<'input>, usize)>, __Nonterminal<>);
        let __lookahead = match __tokens.next() {
            Some(Ok(v)) => Some(v),
            Some(Err(e)) => return Err(e),
            None => None,
        };
        match __lookahead {
            Some((__loc1, Token(0, __tok0), __loc2)) => {
                let __sym1 = (__loc1, (__tok0), __loc2);
                __result = __state16(input, __tokens, __sym1, core::marker::PhantomData::<(&())>)?;
            }
            _ => {
                #[allow(clippy::needless_raw_string_hashes)]
                let __expected = alloc::vec![
                    r###"r#"[a-z]+"#"###.to_string(),
                ];
                return Err(
                    match __lookahead {
                        Some(__token) => {
                            __lalrpop_util::ParseError::UnrecognizedToken {
                                token: __token,
                                expected: __expected,
                            }
                        }
                        None => {
                            let __location = __sym0.2.clone();
                            __lalrpop_util::ParseError::UnrecognizedEof {
                                location: __location,
                                expected: __expected,
                            }
                        }
                    }
                )
            }
        }
        #[allow(clippy::never_loop)]
        loop {
            let (__lookahead, __nt) = __result;
            match __nt {
                __Nonterminal::Id(__sym1) => {
                    __result = __state17(input, __tokens, __lookahead, __sym1, core::marker::PhantomData::<(&())>)?;
                }
                __Nonterminal::Leak_3cId_3e(__sym1) => {
                    __result = __state10(input, __tokens, __lookahead, __sym1, core::marker::PhantomData::<(&())>)?;
                }
                __Nonterminal::Nested_3cId_3e(__sym1) => {
                    __result = __state22(input, __tokens, __lookahead, __sym0, __sym1, core::marker::PhantomData::<(&())>)?;
                    return Ok(__result);
                }
                _ => {
                    return Ok((__lookahead, __nt));
                }
            }
        }
    }

    fn __state6<
        'input,
        __TOKENS: Iterator<Item=Result<(usize, Token<'input>, usize),__lalrpop_util::ParseError<usize, Token<'input>, &'static str>>>,
    >(
        input: &'input str,
        __tokens: &mut __TOKENS,
        __sym0: (usize, &'input str, usize),
        _: core::marker::PhantomData<(&'input ())>,
    ) -> Result<(Option<(usize, Token<'input>, usize)>, __Nonterminal<>), __lalrpop_util::ParseError<usize, Token<'input>, &'static str>>
    {
        let mut __result: (Option<(usize, Token<'input>, usize)>, __Nonterminal<>);
        let __lookahead = match __tokens.next() {
            Some(Ok(v)) => Some(v),
            Some(Err(e)) => return Err(e),
            None => None,
        };
        match __lookahead {
            Some((__loc1, Token(0, __tok0), __loc2)) => {
                let __sym1 = (__loc1, (__tok0), __loc2);
                __result = __state16(input, __tokens, __sym1, core::marker::PhantomData::<(&())>)?;
            }
            _ => {
                #[allow(clippy::needless_raw_string_hashes)]
                let __expected = alloc::vec![
                    r###"r#"[a-z]+"#"###.to_string(),
                ];
                return Err(
                    match __lookahead {
                        Some(__token) => {
                            __lalrpop_util::ParseError::UnrecognizedToken {
                                token: __token,
                                expected: __expected,
                            }
                        }
                        None => {
                            let __location = __sym0.2.clone();
                            __lalrpop_util::ParseError::UnrecognizedEof {
                                location: __location,
                                expected: __expected,
                            }
                        }
                    }
                )
            }
        }
        #[allow(clippy::never_loop)]
        loop {
            let (__lookahead, __nt) = __result;
            match __nt {
                __Nonterminal::Id(__sym1) => {
                    __result = __state23(input, __tokens, __lookahead, __sym1, core::marker::PhantomData::<(&())>)?;
                }
                __Nonterminal::Same_3cId_3e(__sym1) => {
                    __result = __state24(input, __tokens, __lookahead, __sym0, __sym1, core::marker::PhantomData::<(&())>)?;
                    return Ok(__result);
                }
                _ => {
                    return Ok((__lookahead, __nt));
                }
            }
        }
    }

    fn __state7<
        'input,
        __TOKENS: Iterator<Item=Result<(usize, Token<'input>, usize),__lalrpop_util::ParseError<usize, Token<'input>, &'static str>>>,
    >(
        input: &'input str,
        __tokens: &mut __TOKENS,
        __sym0: (usize, &'input str, usize),
        _: core::marker::PhantomData<(&'input ())>,
    ) -> Result<(Option<(usize, Token<'input>, usize)>, __Nonterminal<>), __lalrpop_util::ParseError<usize, Token<'input>, &'static str>>
    {
        let mut __result: (Option<(usize, Token<'input>, usize)>, __Nonterminal<>);
        let __lookahead = match __tokens.next() {
            Some(Ok(v)) => Some(v),
            Some(Err(e)) => return Err(e),
            None => None,
        };
        match __lookahead {
            Some((__loc1, Token(0, __tok0), __loc2)) => {
                let __sym1 = (__loc1, (__tok0), __loc2);
                __result = __state16(input, __tokens, __sym1, core::marker::PhantomData::<(&())>)?;
            }
            _ => {
                #[allow(clippy::needless_raw_string_hashes)]
                let __expected = alloc::vec![
                    r###"r#"[a-z]+"#"###.to_string(),
                ];
                return Err(
                    match __lookahead {
                        Some(__token) => {
                            __lalrpop_util::ParseError::UnrecognizedToken {
                                token: __token,
                                expected: __expected,
                            }
                        }
                        None => {
                            let __location = __sym0.2.clone();
                            __lalrpop_util::ParseError::UnrecognizedEof {
                                location: __location,
                                expected: __expected,
                            }
                        }
                    }
                )
            }
        }
        #[allow(clippy::never_loop)]
        loop {
            let (__lookahead, __nt) = __result;
            match __nt {
                __Nonterminal::Id(__sym1) => {
                    __result = __state11(input, __tokens, __lookahead, __sym1, core::marker::PhantomData::<(&())>)?;
                }
                __Nonterminal::Twice_3cId_3e(__sym1) => {
                    __result = __state25(input, __tokens, __lookahead, __sym0, __sym1, core::marker::PhantomData::<(&())>)?;
                    return Ok(__result);
                }
                _ => {
                    return Ok((__lookahead, __nt));
                }
            }
        }
    }

    fn __state8<
        'input,
        __TOKENS: Iterator<Item=Result<(usize, Token<'input>, usize),__lalrpop_util::ParseError<usize, Token<'input>, &'static str>>>,
    >(
        input: &'input str,
        __tokens: &mut __TOKENS,
        __lookahead: Option<(usize, Token<'input>, usize)>,
        __sym0: (usize, &'input str, usize),
        __sym1: (usize, &'static String, usize),
        _: core::marker::PhantomData<(&'input ())>,
    ) -> Result<(Option<(usize, Token<'input>, usize)>, __Nonterminal<>), __lalrpop_util::ParseError<usize, Token<'input>, &'static str>>
    {
        let mut __result: (Option<(usize, Token<'input>, usize)>, __Nonterminal<>);
        let __sym0 = &mut Some(__sym0);
        let __sym1 = &mut Some(__sym1);
        match __lookahead {
            Some((__loc1, Token(1, __tok0), __loc2)) => {
                let __sym2 = (__loc1, (__tok0), __loc2);
                let __sym0 = __sym0.take().unwrap();
                let __sym1 = __sym1.take().unwrap();
                __result = __state28(input, __tokens, __sym0, __sym1, __sym2, core::marker::PhantomData::<(&())>)?;
                return Ok(__result);
            }
            Some((__loc1, Token(0, __tok0), __loc2)) => {
                let __sym2 = (__loc1, (__tok0), __loc2);
                __result = __state16(input, __tokens, __sym2, core::marker::PhantomData::<(&())>)?;
            }
            _ => {
                #[allow(clippy::needless_raw_string_hashes)]
                let __expected = alloc::vec![
                    r###"r#"[a-z]+"#"###.to_string(),
                    r###"",""###.to_string(),
                ];
                return Err(
                    match __lookahead {
                        Some(__token) => {
                            __lalrpop_util::ParseError::UnrecognizedToken {
                                token: __token,
                                expected: __expected,
                            }
                        }
                        None => {
                            let __location = 
                            __sym1.as_ref().map(|sym| sym.2.clone()).unwrap_or_else(|| {
                                __sym0.as_ref().map(|sym| sym.2.clone()).unwrap_or_else(|| {
                                    Default::default()
                                })
                            })
                            ;
                            __lalrpop_util::ParseError::UnrecognizedEof {
                                location: __location,
                                expected: __expected,
                            }
                        }
                    }
                )
            }
        }
        #[allow(clippy::never_loop)]
        loop {
            if __sym1.is_none() {
                return Ok(__result);
            }
            let (__lookahead, __nt) = __result;
            match __nt {
                __Nonterminal::Id(__sym2) => {
                    __result = __state17(input, __tokens, __lookahead, __sym2, core::marker::PhantomData::<(&())>)?;
                }
                __Nonterminal::Leak_3cId_3e(__sym2) => {
                    __result = __state27(input, __tokens, __lookahead, __sym2, core::marker::PhantomData::<(&())>)?;
                }
                __Nonterminal::Leak_3cId_3e_2b(__sym2) => {
                    __result = __state12(input, __tokens, __lookahead, __sym0, __sym1, __sym2, core::marker::PhantomData::<(&())>)?;
                }
                _ => {
                    return Ok((__lookahead, __nt));
                }
            }
        }
    }

    fn __state9<
        'input,
        __TOKENS: Iterator<Item=Result<(usize, Token<'input>, usize),__lalrpop_util::ParseError<usize, Token<'input>, &'static str>>>,
    >(
        input: &'input str,
        __tokens: &mut __TOKENS,
        __lookahead: Option<(usize, Token<'input>, usize)>,
        __sym0: (usize, alloc::vec::Vec<String>, usize),
        _: core::marker::PhantomData<(&'input ())>,
    ) -> Result<(Option<(usize, Token<'input>, usize)>, __Nonterminal<>), __lalrpop_util::ParseError<usize, Token<'input>, &'static str>>
    {
        let mut __result: (Option<(usize, Token<'input>, usize)>, __Nonterminal<>);
        match __lookahead {
            Some((__loc1, Token(0, __tok0), __loc2)) => {
                let __sym1 = (__loc1, (__tok0), __loc2);
                __result = __state16(input, __tokens, __sym1, core::marker::PhantomData::<(&())>)?;
            }
            Some((_, Token(1, _), _)) => {
                let __start = __sym0.0.clone();
                let __end = __sym0.2.clone();
                let __nt = super::__action29::<>(input, __sym0);
                let __nt = __Nonterminal::Many_3cId_3e((
                    __start,
                    __nt,
                    __end,
                ));
                __result = (__lookahead, __nt);
                return Ok(__result);
            }
            _ => {
                #[allow(clippy::needless_raw_string_hashes)]
                let __expected = alloc::vec![
                    r###"r#"[a-z]+"#"###.to_string(),
                    r###"",""###.to_string(),
                ];
                return Err(
                    match __lookahead {
                        Some(__token) => {
                            __lalrpop_util::ParseError::UnrecognizedToken {
                                token: __token,
                                expected: __expected,
                            }
                        }
                        None => {
                            let __location = __sym0.2.clone();
                            __lalrpop_util::ParseError::UnrecognizedEof {
                                location: __location,
                                expected: __expected,
                            }
                        }
                    }
                )
            }
        }
        #[allow(clippy::never_loop)]
        loop {
            let (__lookahead, __nt) = __result;
            match __nt {
                __Nonterminal::Id(__sym1) => {
                    __result = __state30(input, __tokens, __lookahead, __sym0, __sym1, core::marker::PhantomData::<(&())>)?;
                    return Ok(__result);
                }
                _ => {
                    return Ok((__lookahead, __nt));
                }
            }
        }
    }

    fn __state10<
        'input,
        __TOKENS: Iterator<Item=Result<(usize, Token<'input>, usize),__lalrpop_util::ParseError<usize, Token<'input>, &'static str>>>,
    >(
        input: &'input str,
        __tokens: &mut __TOKENS,
        __lookahead: Option<(usize, Token<'input>, usize)>,
        __sym0: (usize, &'static String, usize),
        _: core::marker::PhantomData<(&'input ())>,
    ) -> Result<(Option<(usize, Token<'input>, usize)>, __Nonterminal<>), __lalrpop_util::ParseError<usize, Token<'input>, &'static str>>
    {
        let mut __result: (Option<(usize, Token<'input>, usize)>, __Nonterminal<>);
        match __lookahead {
            Some((__loc1, Token(0, __tok0), __loc2)) => {
                let __sym1 = (__loc1, (__tok0), __loc2);
                __result = __state16(input, __tokens, __sym1, core::marker::PhantomData::<(&())>)?;
            }
            Some((_, Token(1, _), _)) => {
                let __start = __sym0.0.clone();
                let __end = __sym0.2.clone();
                let __nt = super::__action27::<>(input, __sym0);
                let __nt = __Nonterminal::Nested_3cId_3e((
                    __start,
                    __nt,
                    __end,
                ));
                __result = (__lookahead, __nt);
                return Ok(__result);
            }
            _ => {
                #[allow(clippy::needless_raw_string_hashes)]
                let __expected = alloc::vec![
                    r###"r#"[a-z]+"#"###.to_string(),
                    r###"",""###.to_string(),
                ];
                return Err(
                    match __lookahead {
                        Some(__token) => {
                            __lalrpop_util::ParseError::UnrecognizedToken {
                                token: __token,
                                expected: __expected,
                            }
                        }
                        None => {
                            let __location = __sym0.2.clone();
                            __lalrpop_util::ParseError::UnrecognizedEof {
                                location: __location,
                                expected: __expected,
                            }
                        }
                    }
                )
            }
        }
        #[allow(clippy::never_loop)]
        loop {
            let (__lookahead, __nt) = __result;
            match __nt {
                __Nonterminal::Boxed_3cId_3e(__sym1) => {
                    __result = __state32(input, __tokens, __lookahead, __sym0, __sym1, core::marker::PhantomData::<(&())>)?;
                    return Ok(__result);
                }
                __Nonterminal::Id(__sym1) => {
                    __result = __state15(input, __tokens, __lookahead, __sym1, core::marker::PhantomData::<(&())>)?;
                }
                _ => {
                    return Ok((__lookahead, __nt));
                }
            }
        }
    }

    fn __state11<
        'input,
        __TOKENS: Iterator<Item=Result<(usize, Token<'input>, usize),__lalrpop_util::ParseError<usize, Token<'input>, &'static str>>>,
    >(
        input: &'input str,
        __tokens: &mut __TOKENS,
        __lookahead: Option<(usize, Token<'input>, usize)>,
        __sym0: (usize, String, usize),
        _: core::marker::PhantomData<(&'input ())>,
    ) -> Result<(Option<(usize, Token<'input>, usize)>, __Nonterminal<>), __lalrpop_util::ParseError<usize, Token<'input>, &'static str>>
    {
        let mut __result: (Option<(usize, Token<'input>, usize)>, __Nonterminal<>);
        match __lookahead {
            Some((__loc1, Token(0, __tok0), __loc2)) => {
                let __sym1 = (__loc1, (__tok0), __loc2);
                __result = __state16(input, __tokens, __sym1, core::marker::PhantomData::<(&())>)?;
            }
            _ => {
                #[allow(clippy::needless_raw_string_hashes)]
                let __expected = alloc::vec![
                    r###"r#"[a-z]+"#"###.to_string(),
                ];
                return Err(
                    match __lookahead {
                        Some(__token) => {
                            __lalrpop_util::ParseError::UnrecognizedToken {
                                token: __token,
                                expected: __expected,
                            }
                        }
                        None => {
                            let __location = __sym0.2.clone();
                            __lalrpop_util::ParseError::UnrecognizedEof {
                                location: __location,
                                expected: __expected,
                            }
                        }
                    }
                )
            }
        }
        #[allow(clippy::never_loop)]
        loop {
            let (__lookahead, __nt) = __result;
            match __nt {
                __Nonterminal::Id(__sym1) => {
                    __result = __state35(input, __tokens, __lookahead, __sym0, __sym1, core::marker::PhantomData::<(&())>)?;
                    return Ok(__result);
                }
                _ => {
                    return Ok((__lookahead, __nt));
                }
            }
        }
    }

    fn __state12<
        'input,
        __TOKENS: Iterator<Item=Result<(usize, Token<'input>, usize),__lalrpop_util::ParseError<usize, Token<'input>, &'static str>>>,
    >(
        input: &'input str,
        __tokens: &mut __TOKENS,
        __lookahead: Option<(usize, Token<'input>, usize)>,
        __sym0: &mut Option<(usize, &'input str, usize)>,
        __sym1: &mut Option<(usize, &'static String, usize)>,
        __sym2: (usize, alloc::vec::Vec<&'static String>, usize),
        _: core::marker::PhantomData<(&'input ())>,
    ) -> Result<(Option<(usize, Token<'input>, usize)>, __Nonterminal<>), __lalrpop_util::ParseError<usize, Token<'input>, &'static str>>
    {
        let mut __result: (Option<(usize, Token<'input>, usize)>, __Nonterminal<>);
        match __lookahead {
            Some((__loc1, Token(1, __tok0), __loc2)) => {
                let __sym3 = (__loc1, (__tok0), __loc2);
                let __sym0 = __sym0.take().unwrap();
                let __sym1 = __sym1.take().unwrap();
                __result = __state38(input, __tokens, __sym0, __sym1, __sym2, __sym3, core::marker::PhantomData::<(&())>)?;
                return Ok(__result);
            }
            Some((__loc1, Token(0, __tok0), __loc2)) => {
                let __sym3 = (__loc1, (__tok0), __loc2);
                __result = __state16(input, __tokens, __sym3, core::marker::PhantomData::<(&())>)?;
            }
            _ => {
                #[allow(clippy::needless_raw_string_hashes)]
                let __expected = alloc::vec![
                    r###"r#"[a-z]+"#"###.to_string(),
                    r###"",""###.to_string(),
                ];
                return Err(
                    match __lookahead {
                        Some(__token) => {
                            __lalrpop_util::ParseError::UnrecognizedToken {
                                token: __token,
                                expected: __expected,
                            }
                        }
                        None => {
                            let __location = __sym2.2.clone();
                            __lalrpop_util::ParseError::UnrecognizedEof {
                                location: __location,
                                expected: __expected,
                            }
                        }
                    }
                )
            }
        }
        #[allow(clippy::never_loop)]
        loop {
            let (__lookahead, __nt) = __result;
            match __nt {
                __Nonterminal::Id(__sym3) => {
                    __result = __state17(input, __tokens, __lookahead, __sym3, core::marker::PhantomData::<(&())>)?;
                }
                __Nonterminal::Leak_3cId_3e(__sym3) => {
                    __result = __state37(input, __tokens, __lookahead, __sym2, __sym3, core::marker::PhantomData::<(&())>)?;
                    return Ok(__result);
                }
                _ => {
                    return Ok((__lookahead, __nt));
                }
            }
        }
    }

    fn __state13<
        'input,
        __TOKENS: Iterator<Item=Result<(usize, Token<'input>, usize),__lalrpop_util::ParseError<usize, Token<'input>, &'static str>>>,
    >(
        input: &'input str,
        __tokens: &mut __TOKENS,
        __lookahead: Option<(usize, Token<'input>, usize)>,
        __sym0: (usize, usize, usize),
        _: core::marker::PhantomData<(&'input ())>,
    ) -> Result<(Option<(usize, Token<'input>, usize)>, __Nonterminal<>), __lalrpop_util::ParseError<usize, Token<'input>, &'static str>>
    {
        let mut __result: (Option<(usize, Token<'input>, usize)>, __Nonterminal<>);
        match __lookahead {
            None => {
                let __start = __sym0.0.clone();
                let __end = __sym0.2.clone();
                let __nt = super::__action0::<>(input, __sym0);
                let __nt = __Nonterminal::____S((
                    __start,
                    __nt,
                    __end,
                ));
                __result = (__lookahead, __nt);
                return Ok(__result);
            }
            _ => {
                #[allow(clippy::needless_raw_string_hashes)]
                let __expected = alloc::vec![
                ];
                return Err(
                    match __lookahead {
                        Some(__token) => {
                            __lalrpop_util::ParseError::UnrecognizedToken {
                                token: __token,
                                expected: __expected,
                            }
                        }
                        None => {
                            let __location = __sym0.2.clone();
                            __lalrpop_util::ParseError::UnrecognizedEof {
                                location: __location,
                                expected: __expected,
                            }
                        }
                    }
                )
            }
        }
    }

    fn __state14<
        'input,
        __TOKENS: Iterator<Item=Result<(usize, Token<'input>, usize),__lalrpop_util::ParseError<usize, Token<'input>, &'static str>>>,
    >(
        input: &'input str,
        __tokens: &mut __TOKENS,
        __lookahead: Option<(usize, Token<'input>, usize)>,
        __sym0: (usize, &'input str, usize),
        __sym1: (usize, Box<String>, usize),
        _: core::marker::PhantomData<(&'input ())>,
    ) -> Result<(Option<(usize, Token<'input>, usize)>, __Nonterminal<>), __lalrpop_util::ParseError<usize, Token<'input>, &'static str>>
    {
        let mut __result: (Option<(usize, Token<'input>, usize)>, __Nonterminal<>);
        match __lookahead {
            Some((__loc1, Token(1, __tok0), __loc2)) => {
                let __sym2 = (__loc1, (__tok0), __loc2);
                __result = __state26(input, __tokens, __sym0, __sym1, __sym2, core::marker::PhantomData::<(&())>)?;
                return Ok(__result);
            }
            _ => {
                #[allow(clippy::needless_raw_string_hashes)]
                let __expected = alloc::vec![
                    r###"",""###.to_string(),
                ];
                return Err(
                    match __lookahead {
                        Some(__token) => {
                            __lalrpop_util::ParseError::UnrecognizedToken {
                                token: __token,
                                expected: __expected,
                            }
                        }
                        None => {
                            let __location = __sym1.2.clone();
                            __lalrpop_util::ParseError::UnrecognizedEof {
                                location: __location,
                                expected: __expected,
                            }
                        }
                    }
                )
            }
        }
    }

    fn __state15<
        'input,
        __TOKENS: Iterator<Item=Result<(usize, Token<'input>, usize),__lalrpop_util::ParseError<usize, Token<'input>, &'static str>>>,
    >(
        input: &'input str,
        __tokens: &mut __TOKENS,
        __lookahead: Option<(usize, Token<'input>, usize)>,
        __sym0: (usize, String, usize),
        _: core::marker::PhantomData<(&'input ())>,
    ) -> Result<(Option<(usize, Token<'input>, usize)>, __Nonterminal<>), __lalrpop_util::ParseError<usize, Token<'input>, &'static str>>
    {
        let mut __result: (Option<(usize, Token<'input>, usize)>, __Nonterminal<>);
        match __lookahead {
            Some((_, Token(1, _), _)) => {
                let __start = __sym0.0.clone();
                let __end = __sym0.2.clone();
                let __nt = super::__action16::<>(input, __sym0);
                let __nt = __Nonterminal::Boxed_3cId_3e((
                    __start,
                    __nt,
                    __end,
                ));
                __result = (__lookahead, __nt);
                return Ok(__result);
            }
            _ => {
                #[allow(clippy::needless_raw_string_hashes)]
                let __expected = alloc::vec![
                    r###"",""###.to_string(),
                ];
                return Err(
                    match __lookahead {
                        Some(__token) => {
                            __lalrpop_util::ParseError::UnrecognizedToken {
                                token: __token,
                                expected: __expected,
                            }
                        }
                        None => {
                            let __location = __sym0.2.clone();
                            __lalrpop_util::ParseError::UnrecognizedEof {
                                location: __location,
                                expected: __expected,
                            }
                        }
                    }
                )
            }
        }
    }

    fn __state16<
        'input,
        __TOKENS: Iterator<Item=Result<(usize, Token<'input>, usize),__lalrpop_util::ParseError<usize, Token<'input>, &'static str>>>,
    >(
        input: &'input str,
        __tokens: &mut __TOKENS,
        __sym0: (usize, &'input str, usize),
        _: core::marker::PhantomData<(&'input ())>,
    ) -> Result<(Option<(usize, Token<'input>, usize)>, __Nonterminal<>), __lalrpop_util::ParseError<usize, Token<'input>, &'static str>>
    {
        let mut __result: (Option<(usize, Token<'input>, usize)>, __Nonterminal<>);
        let __lookahead = match __tokens.next() {
            Some(Ok(v)) => Some(v),
            Some(Err(e)) => return Err(e),
            None => None,
        };
        match __lookahead {
            Some((_, Token(0, _), _)) |
            Some((_, Token(1, _), _)) => {
                let __start = __sym0.0.clone();
                let __end = __sym0.2.clone();
                let __nt = super::__action1::<>(input, __sym0);
                let __nt = __Nonterminal::Id((
                    __start,
                    __nt,
                    __end,
                ));
                __result = (__lookahead, __nt);
                return Ok(__result);
            }
            _ => {
                #[allow(clippy::needless_raw_string_hashes)]
                let __expected = alloc::vec![
                    r###"r#"[a-z]+"#"###.to_string(),
                    r###"",""###.to_string(),
                ];
                return Err(
                    match __lookahead {
                        Some(__token) => {
                            __lalrpop_util::ParseError::UnrecognizedToken {
                                token: __token,
                                expected: __expected,
                            }
                        }
                        None => {
                            let __location = __sym0.2.clone();
                            __lalrpop_util::ParseError::UnrecognizedEof {
                                location: __location,
                                expected: __expected,
                            }
                        }
                    }
                )
            }
        }
    }

    fn __state17<
        'input,
        __TOKENS: Iterator<Item=Result<(usize, Token<'input>, usize),__lalrpop_util::ParseError<usize, Token<'input>, &'static str>>>,
    >(
        input: &'input str,
        __tokens: &mut __TOKENS,
        __lookahead: Option<(usize, Token<'input>, usize)>,
        __sym0: (usize, String, usize),
        _: core::marker::PhantomData<(&'input ())>,
    ) -> Result<(Option<(usize, Token<'input>, usize)>, __Nonterminal<>), __lalrpop_util::ParseError<usize, Token<'input>, &'static str>>
    {
        let mut __result: (Option<(usize, Token<'input>, usize)>, __Nonterminal<>);
        match __lookahead {
            Some((_, Token(0, _), _)) |
            Some((_, Token(1, _), _)) => {
                let __start = __sym0.0.clone();
                let __end = __sym0.2.clone();
                let __nt = super::__action13::<>(input, __sym0);
                let __nt = __Nonterminal::Leak_3cId_3e((
                    __start,
                    __nt,
                    __end,
                ));
                __result = (__lookahead, __nt);
                return Ok(__result);
            }
            _ => {
                #[allow(clippy::needless_raw_string_hashes)]
                let __expected = alloc::vec![
                    r###"r#"[a-z]+"#"###.to_string(),
                    r###"",""###.to_string(),
                ];
                return Err(
                    match __lookahead {
                        Some(__token) => {
                            __lalrpop_util::ParseError::UnrecognizedToken {
                                token: __token,
                                expected: __expected,
                            }
                        }
                        None => {
                            let __location = __sym0.2.clone();
                            __lalrpop_util::ParseError::UnrecognizedEof {
                                location: __location,
                                expected: __expected,
                            }
                        }
                    }
                )
            }
        }
    }

    fn __state18<
        'input,
        __TOKENS: Iterator<Item=Result<(usize, Token<'input>, usize),__lalrpop_util::ParseError<usize, Token<'input>, &'static str>>>,
    >(
        input: &'input str,
        __tokens: &mut __TOKENS,
        __lookahead: Option<(usize, Token<'input>, usize)>,
        __sym0: (usize, String, usize),
        _: core::marker::PhantomData<(&'input ())>,
    ) -> Result<(Option<(usize, Token<'input>, usize)>, __Nonterminal<>), __lalrpop_util::ParseError<usize, Token<'input>, &'static str>>
    {
        let mut __result: (Option<(usize, Token<'input>, usize)>, __Nonterminal<>);
        match __lookahead {
            Some((_, Token(1, _), _)) => {
                let __start = __sym0.0.clone();
                let __end = __sym0.2.clone();
                let __nt = super::__action10::<>(input, __sym0);
                let __nt = __Nonterminal::LeakMut_3cId_3e((
                    __start,
                    __nt,
                    __end,
                ));
                __result = (__lookahead, __nt);
                return Ok(__result);
            }
            _ => {
                #[allow(clippy::needless_raw_string_hashes)]
                let __expected = alloc::vec![
                    r###"",""###.to_string(),
                ];
                return Err(
                    match __lookahead {
                        Some(__token) => {
                            __lalrpop_util::ParseError::UnrecognizedToken {
                                token: __token,
                                expected: __expected,
                            }
                        }
                        None => {
                            let __location = __sym0.2.clone();
                            __lalrpop_util::ParseError::UnrecognizedEof {
                                location: __location,
                                expected: __expected,
                            }
                        }
                    }
                )
            }
        }
    }

    fn __state19<
        'input,
        __TOKENS: Iterator<Item=Result<(usize, Token<'input>, usize),__lalrpop_util::ParseError<usize, Token<'input>, &'static str>>>,
    >(
        input: &'input str,
        __tokens: &mut __TOKENS,
        __lookahead: Option<(usize, Token<'input>, usize)>,
        __sym0: (usize, &'input str, usize),
        __sym1: (usize, &'static mut String, usize),
        _: core::marker::PhantomData<(&'input ())>,
    ) -> Result<(Option<(usize, Token<'input>, usize)>, __Nonterminal<>), __lalrpop_util::ParseError<usize, Token<'input>, &'static str>>
    {
        let mut __result: (Option<(usize, Token<'input>, usize)>, __Nonterminal<>);
        match __lookahead {
            Some((__loc1, Token(1, __tok0), __loc2)) => {
                let __sym2 = (__loc1, (__tok0), __loc2);
                __result = __state29(input, __tokens, __sym0, __sym1, __sym2, core::marker::PhantomData::<(&())>)?;
                return Ok(__result);
            }
            _ => {
                #[allow(clippy::needless_raw_string_hashes)]
                let __expected = alloc::vec![
                    r###"",""###.to_string(),
                ];
                return Err(
                    match __lookahead {
                        Some(__token) => {
                            __lalrpop_util::ParseError::UnrecognizedToken {
                                token: __token,
                                expected: __expected,
                            }
                        }
                        None => {
                            let __location = __sym1.2.clone();
                            __lalrpop_util::ParseError::UnrecognizedEof {
                                location: __location,
                                expected: __expected,
                            }
                        }
                    }
                )
            }
        }
    }

    fn __state20<
        'input,
        __TOKENS: Iterator<Item=Result<(usize, Token<'input>, usize),__lalrpop_util::ParseError<usize, Token<'input>, &'static str>>>,
    >(
        input: &'input str,
        __tokens: &mut __TOKENS,
        __lookahead: Option<(usize, Token<'input>, usize)>,
        __sym0: (usize, String, usize),
        _: core::marker::PhantomData<(&'input ())>,
    ) -> Result<(Option<(usize, Token<'input>, usize)>, __Nonterminal<>), __lalrpop_util::ParseError<usize, Token<'input>, &'static str>>
    {
        let mut __result: (Option<(usize, Token<'input>, usize)>, __Nonterminal<>);
        match __lookahead {
            Some((_, Token(0, _), _)) |
            Some((_, Token(1, _), _)) => {
                let __start = __sym0.0.clone();
                let __end = __sym0.2.clone();
                let __nt = super::__action24::<>(input, __sym0);
                let __nt = __Nonterminal::Id_2b((
                    __start,
                    __nt,
                    __end,
                ));
                __result = (__lookahead, __nt);
                return Ok(__result);
            }
            _ => {
                #[allow(clippy::needless_raw_string_hashes)]
                let __expected = alloc::vec![
                    r###"r#"[a-z]+"#"###.to_string(),
                    r###"",""###.to_string(),
                ];
                return Err(
                    match __lookahead {
                        Some(__token) => {
                            __lalrpop_util::ParseError::UnrecognizedToken {
                                token: __token,
                                expected: __expected,
                            }
                        }
                        None => {
                            let __location = __sym0.2.clone();
                            __lalrpop_util::ParseError::UnrecognizedEof {
                                location: __location,
                                expected: __expected,
                            }
                        }
                    }
                )
            }
        }
    }

    fn __state21<
        'input,
        __TOKENS: Iterator<Item=Result<(usize, Token<'input>, usize),__lalrpop_util::ParseError<usize, Token<'input>, &'static str>>>,
    >(
        input: &'input str,
        __tokens: &mut __TOKENS,
        __lookahead: Option<(usize, Token<'input>, usize)>,
        __sym0: (usize, &'input str, usize),
        __sym1: (usize, Vec<String>, usize),
        _: core::marker::PhantomData<(&'input ())>,
    ) -> Result<(Option<(usize, Token<'input>, usize)>, __Nonterminal<>), __lalrpop_util::ParseError<usize, Token<'input>, &'static str>>
    {
        let mut __result: (Option<(usize, Token<'input>, usize)>, __Nonterminal<>);
        match __lookahead {
            Some((__loc1, Token(1, __tok0), __loc2)) => {
                let __sym2 = (__loc1, (__tok0), __loc2);
                __result = __state31(input, __tokens, __sym0, __sym1, __sym2, core::marker::PhantomData::<(&())>)?;
                return Ok(__result);
            }
            _ => {
                #[allow(clippy::needless_raw_string_hashes)]
                let __expected = alloc::vec![
                    r###"",""###.to_string(),
                ];
                return Err(
                    match __lookahead {
                        Some(__token) => {
                            __lalrpop_util::ParseError::UnrecognizedToken {
                                token: __token,
                                expected: __expected,
                            }
                        }
                        None => {
                            let __location = __sym1.2.clone();
                            __lalrpop_util::ParseError::UnrecognizedEof {
                                location: __location,
                                expected: __expected,
                            }
                        }
                    }
                )
            }
        }
    }

    fn __state22<
        'input,
        __TOKENS: Iterator<Item=Result<(usize, Token<'input>, usize),__lalrpop_util::ParseError<usize, Token<'input>, &'static str>>>,
    >(
        input: &'input str,
        __tokens: &mut __TOKENS,
        __lookahead: Option<(usize, Token<'input>, usize)>,
        __sym0: (usize, &'input str, usize),
        __sym1: (usize, Vec<(&'static String, Option<Box<String>>)>, usize),
        _: core::marker::PhantomData<(&'input ())>,
    ) -> Result<(Option<(usize, Token<'input>, usize)>, __Nonterminal<>), __lalrpop_util::ParseError<usize, Token<'input>, &'static str>>
    {
        let mut __result: (Option<(usize, Token<'input>, usize)>, __Nonterminal<>);
        match __lookahead {
            Some((__loc1, Token(1, __tok0), __loc2)) => {
                let __sym2 = (__loc1, (__tok0), __loc2);
                __result = __state33(input, __tokens, __sym0, __sym1, __sym2, core::marker::PhantomData::<(&())>)?;
                return Ok(__result);
            }
            _ => {
                #[allow(clippy::needless_raw_string_hashes)]
                let __expected = alloc::vec![
                    r###"",""###.to_string(),
                ];
                return Err(
                    match __lookahead {
                        Some(__token) => {
                            __lalrpop_util::ParseError::UnrecognizedToken {
                                token: __token,
                                expected: __expected,
                            }
                        }
                        None => {
                            let __location = __sym1.2.clone();
                            __lalrpop_util::ParseError::UnrecognizedEof {
                                location: __location,
                                expected: __expected,
                            }
                        }
                    }
                )
            }
        }
    }

    fn __state23<
        'input,
        __TOKENS: Iterator<Item=Result<(usize, Token<'input>, usize),__lalrpop_util::ParseError<usize, Token<'input>, &'static str>>>,
    >(
        input: &'input str,
        __tokens: &mut __TOKENS,
        __lookahead: Option<(usize, Token<'input>, usize)>,
        __sym0: (usize, String, usize),
        _: core::marker::PhantomData<(&'input ())>,
    ) -> Result<(Option<(usize, Token<'input>, usize)>, __Nonterminal<>), __lalrpop_util::ParseError<usize, Token<'input>, &'static str>>
    {
        let mut __result: (Option<(usize, Token<'input>, usize)>, __Nonterminal<>);
        match __lookahead {
            Some((_, Token(1, _), _)) => {
                let __start = __sym0.0.clone();
                let __end = __sym0.2.clone();
                let __nt = super::__action17::<>(input, __sym0);
                let __nt = __Nonterminal::Same_3cId_3e((
                    __start,
                    __nt,
                    __end,
                ));
                __result = (__lookahead, __nt);
                return Ok(__result);
            }
            _ => {
                #[allow(clippy::needless_raw_string_hashes)]
                let __expected = alloc::vec![
                    r###"",""###.to_string(),
                ];
                return Err(
                    match __lookahead {
                        Some(__token) => {
                            __lalrpop_util::ParseError::UnrecognizedToken {
                                token: __token,
                                expected: __expected,
                            }
                        }
                        None => {
                            let __location = __sym0.2.clone();
                            __lalrpop_util::ParseError::UnrecognizedEof {
                                location: __location,
                                expected: __expected,
                            }
                        }
                    }
                )
            }
        }
    }

    fn __state24<
        'input,
        __TOKENS: Iterator<Item=Result<(usize, Token<'input>, usize),__lalrpop_util::ParseError<usize, Token<'input>, &'static str>>>,
    >(
        input: &'input str,
        __tokens: &mut __TOKENS,
        __lookahead: Option<(usize, Token<'input>, usize)>,
        __sym0: (usize, &'input str, usize),
        __sym1: (usize, String, usize),
        _: core::marker::PhantomData<(&'input ())>,
    ) -> Result<(Option<(usize, Token<'input>, usize)>, __Nonterminal<>), __lalrpop_util::ParseError<usize, Token<'input>, &'static str>>
    {
        let mut __result: (Option<(usize, Token<'input>, usize)>, __Nonterminal<>);
        match __lookahead {
            Some((__loc1, Token(1, __tok0), __loc2)) => {
                let __sym2 = (__loc1, (__tok0), __loc2);
                __result = __state34(input, __tokens, __sym0, __sym1, __sym2, core::marker::PhantomData::<(&())>)?;
                return Ok(__result);
            }
            _ => {
                #[allow(clippy::needless_raw_string_hashes)]
                let __expected = alloc::vec![
                    r###"",""###.to_string(),
                ];
                return Err(
                    match __lookahead {
                        Some(__token) => {
                            __lalrpop_util::ParseError::UnrecognizedToken {
                                token: __token,
                                expected: __expected,
                            }
                        }
                        None => {
                            let __location = __sym1.2.clone();
                            __lalrpop_util::ParseError::UnrecognizedEof {
                                location: __location,
                                expected: __expected,
                            }
                        }
                    }
                )
            }
        }
    }

    fn __state25<
        'input,
        __TOKENS: Iterator<Item=Result<(usize, Token<'input>, usize),__lalrpop_util::ParseError<usize, Token<'input>, &'static str>>>,
    >(
        input: &'input str,
        __tokens: &mut __TOKENS,
        __lookahead: Option<(usize, Token<'input>, usize)>,
        __sym0: (usize, &'input str, usize),
        __sym1: (usize, (String, String), usize),
        _: core::marker::PhantomData<(&'input ())>,
    ) -> Result<(Option<(usize, Token<'input>, usize)>, __Nonterminal<>), __lalrpop_util::ParseError<usize, Token<'input>, &'static str>>
    {
        let mut __result: (Option<(usize, Token<'input>, usize)>, __Nonterminal<>);
        match __lookahead {
            Some((__loc1, Token(1, __tok0), __loc2)) => {
                let __sym2 = (__loc1, (__tok0), __loc2);
                __result = __state36(input, __tokens, __sym0, __sym1, __sym2, core::marker::PhantomData::<(&())>)?;
                return Ok(__result);
            }
            _ => {
                #[allow(clippy::needless_raw_string_hashes)]
                let __expected = alloc::vec![
                    r###"",""###.to_string(),
                ];
                return Err(
                    match __lookahead {
                        Some(__token) => {
                            __lalrpop_util::ParseError::UnrecognizedToken {
                                token: __token,
                                expected: __expected,
                            }
                        }
                        None => {
                            let __location = __sym1.2.clone();
                            __lalrpop_util::ParseError::UnrecognizedEof {
                                location: __location,
                                expected: __expected,
                            }
                        }
                    }
                )
            }
        }
    }

    fn __state26<
        'input,
        __TOKENS: Iterator<Item=Result<(usize, Token<'input>, usize),__lalrpop_util::ParseError<usize, Token<'input>, &'static str>>>,
    >(
        input: &'input str,
        __tokens: &mut __TOKENS,
        __sym0: (usize, &'input str, usize),
        __sym1: (usize, Box<String>, usize),
        __sym2: (usize, &'input str, usize),
        _: core::marker::PhantomData<(&'input ())>,
    ) -> Result<(Option<(usize, Token<'input>, usize)>, __Nonterminal<>), __lalrpop_util::ParseError<usize, Token<'input>, &'static str>>
    {
        let mut __result: (Option<(usize, Token<'input>, usize)>, __Nonterminal<>);
        let __lookahead = match __tokens.next() {
            Some(Ok(v)) => Some(v),
            Some(Err(e)) => return Err(e),
            None => None,
        };
        match __lookahead {
            None => {
                let __start = __sym0.0.clone();
                let __end = __sym2.2.clone();
                let __nt = super::__action3::<>(input, __sym0, __sym1, __sym2);
                let __nt = __Nonterminal::S((
                    __start,
                    __nt,
                    __end,
                ));
                __result = (__lookahead, __nt);
                return Ok(__result);
            }
            _ => {
                #[allow(clippy::needless_raw_string_hashes)]
                let __expected = alloc::vec![
                ];
                return Err(
                    match __lookahead {
                        Some(__token) => {
                            __lalrpop_util::ParseError::UnrecognizedToken {
                                token: __token,
                                expected: __expected,
                            }
                        }
                        None => {
                            let __location = __sym2.2.clone();
                            __lalrpop_util::ParseError::UnrecognizedEof {
                                location: __location,
                                expected: __expected,
                            }
                        }
                    }
                )
            }
        }
    }

    fn __state27<
        'input,
        __TOKENS: Iterator<Item=Result<(usize, Token<'input>, usize),__lalrpop_util::ParseError<usize, Token<'input>, &'static str>>>,
    >(
        input: &'input str,
        __tokens: &mut __TOKENS,
        __lookahead: Option<(usize, Token<'input>, usize)>,
        __sym0: (usize, &'static String, usize),
        _: core::marker::PhantomData<(&'input ())>,
    ) -> Result<(Option<(usize, Token<'input>, usize)>, __Nonterminal<>), __lalrpop_util::ParseError<usize, Token<'input>, &'static str>>
    {
        let mut __result: (Option<(usize, Token<'input>, usize)>, __Nonterminal<>);
        match __lookahead {
            Some((_, Token(0, _), _)) |
            Some((_, Token(1, _), _)) => {
                let __start = __sym0.0.clone();
                let __end = __sym0.2.clone();
                let __nt = super::__action20::<>(input, __sym0);
                let __nt = __Nonterminal::Leak_3cId_3e_2b((
                    __start,
                    __nt,
                    __end,
                ));
                __result = (__lookahead, __nt);
                return Ok(__result);
            }
            _ => {
                #[allow(clippy::needless_raw_string_hashes)]
                let __expected = alloc::vec![
                    r###"r#"[a-z]+"#"###.to_string(),
                    r###"",""###.to_string(),
                ];
                return Err(
                    match __lookahead {
                        Some(__token) => {
                            __lalrpop_util::ParseError::UnrecognizedToken {
                                token: __token,
                                expected: __expected,
                            }
                        }
                        None => {
                            let __location = __sym0.2.clone();
                            __lalrpop_util::ParseError::UnrecognizedEof {
                                location: __location,
                                expected: __expected,
                            }
                        }
                    }
                )
            }
        }
    }

    fn __state28<
        'input,
        __TOKENS: Iterator<Item=Result<(usize, Token<'input>, usize),__lalrpop_util::ParseError<usize, Token<'input>, &'static str>>>,
    >(
        input: &'input str,
        __tokens: &mut __TOKENS,
        __sym0: (usize, &'input str, usize),
        __sym1: (usize, &'static String, usize),
        __sym2: (usize, &'input str, usize),
        _: core::marker::PhantomData<(&'input ())>,
    ) -> Result<(Option<(usize, Token<'input>, usize)>, __Nonterminal<>), __lalrpop_util::ParseError<usize, Token<'input>, &'static str>>
    {
        let mut __result: (Option<(usize, Token<'input>, usize)>, __Nonterminal<>);
        let __lookahead = match __tokens.next() {
            Some(Ok(v)) => Some(v),
            Some(Err(e)) => return Err(e),
            None => None,
        };
        match __lookahead {
            None => {
                let __start = __sym0.0.clone();
                let __end = __sym2.2.clone();
                let __nt = super::__action30::<>(input, __sym0, __sym1, __sym2);
                let __nt = __Nonterminal::S((
                    __start,
                    __nt,
                    __end,
                ));
                __result = (__lookahead, __nt);
                return Ok(__result);
            }
            _ => {
                #[allow(clippy::needless_raw_string_hashes)]
                let __expected = alloc::vec![
                ];
                return Err(
                    match __lookahead {
                        Some(__token) => {
                            __lalrpop_util::ParseError::UnrecognizedToken {
                                token: __token,
                                expected: __expected,
                            }
                        }
                        None => {
                            let __location = __sym2.2.clone();
                            __lalrpop_util::ParseError::UnrecognizedEof {
                                location: __location,
                                expected: __expected,
                            }
                        }
                    }
                )
            }
        }
    }

    fn __state29<
        'input,
        __TOKENS: Iterator<Item=Result<(usize, Token<'input>, usize),__lalrpop_util::ParseError<usize, Token<'input>, &'static str>>>,
    >(
        input: &'input str,
        __tokens: &mut __TOKENS,
        __sym0: (usize, &'input str, usize),
        __sym1: (usize, &'static mut String, usize),
        __sym2: (usize, &'input str, usize),
        _: core::marker::PhantomData<(&'input ())>,
    ) -> Result<(Option<(usize, Token<'input>, usize)>, __Nonterminal<>), __lalrpop_util::ParseError<usize, Token<'input>, &'static str>>
    {
        let mut __result: (Option<(usize, Token<'input>, usize)>, __Nonterminal<>);
        let __lookahead = match __tokens.next() {
            Some(Ok(v)) => Some(v),
            Some(Err(e)) => return Err(e),
            None => None,
        };
        match __lookahead {
            None => {
                let __start = __sym0.0.clone();
                let __end = __sym2.2.clone();
                let __nt = super::__action7::<>(input, __sym0, __sym1, __sym2);
                let __nt = __Nonterminal::S((
                    __start,
                    __nt,
                    __end,
                ));
                __result = (__lookahead, __nt);
                return Ok(__result);
            }
            _ => {
                #[allow(clippy::needless_raw_string_hashes)]
                let __expected = alloc::vec![
                ];
                return Err(
                    match __lookahead {
                        Some(__token) => {
                            __lalrpop_util::ParseError::UnrecognizedToken {
                                token: __token,
                                expected: __expected,
                            }
                        }
                        None => {
                            let __location = __sym2.2.clone();
                            __lalrpop_util::ParseError::UnrecognizedEof {
                                location: __location,
                                expected: __expected,
                            }
                        }
                    }
                )
            }
        }
    }

    fn __state30<
        'input,
        __TOKENS: Iterator<Item=Result<(usize, Token<'input>, usize),__lalrpop_util::ParseError<usize, Token<'input>, &'static str>>>,
    >(
        input: &'input str,
        __tokens: &mut __TOKENS,
        __lookahead: Option<(usize, Token<'input>, usize)>,
        __sym0: (usize, alloc::vec::Vec<String>, usize),
        __sym1: (usize, String, usize),
        _: core::marker::PhantomData<(&'input ())>,
    ) -> Result<(Option<(usize, Token<'input>, usize)>, __Nonterminal<>), __lalrpop_util::ParseError<usize, Token<'input>, &'static str>>
    {
        let mut __result: (Option<(usize, Token<'input>, usize)>, __Nonterminal<>);
        match __lookahead {
            Some((_, Token(0, _), _)) |
            Some((_, Token(1, _), _)) => {
                let __start = __sym0.0.clone();
                let __end = __sym1.2.clone();
                let __nt = super::__action25::<>(input, __sym0, __sym1);
                let __nt = __Nonterminal::Id_2b((
                    __start,
                    __nt,
                    __end,
                ));
                __result = (__lookahead, __nt);
                return Ok(__result);
            }
            _ => {
                #[allow(clippy::needless_raw_string_hashes)]
                let __expected = alloc::vec![
                    r###"r#"[a-z]+"#"###.to_string(),
                    r###"",""###.to_string(),
                ];
                return Err(
                    match __lookahead {
                        Some(__token) => {
                            __lalrpop_util::ParseError::UnrecognizedToken {
                                token: __token,
                                expected: __expected,
                            }
                        }
                        None => {
                            let __location = __sym1.2.clone();
                            __lalrpop_util::ParseError::UnrecognizedEof {
                                location: __location,
                                expected: __expected,
                            }
                        }
                    }
                )
            }
        }
    }

    fn __state31<
        'input,
        __TOKENS: Iterator<Item=Result<(usize, Token<'input>, usize),__lalrpop_util::ParseError<usize, Token<'input>, &'static str>>>,
    >(
        input: &'input str,
        __tokens: &mut __TOKENS,
        __sym0: (usize, &'input str, usize),
        __sym1: (usize, Vec<String>, usize),
        __sym2: (usize, &'input str, usize),
        _: core::marker::PhantomData<(&'input ())>,
    ) -> Result<(Option<(usize, Token<'input>, usize)>, __Nonterminal<>), __lalrpop_util::ParseError<usize, Token<'input>, &'static str>>
    {
        let mut __result: (Option<(usize, Token<'input>, usize)>, __Nonterminal<>);
        let __lookahead = match __tokens.next() {
            Some(Ok(v)) => Some(v),
            Some(Err(e)) => return Err(e),
            None => None,
        };
        match __lookahead {
            None => {
                let __start = __sym0.0.clone();
                let __end = __sym2.2.clone();
                let __nt = super::__action5::<>(input, __sym0, __sym1, __sym2);
                let __nt = __Nonterminal::S((
                    __start,
                    __nt,
                    __end,
                ));
                __result = (__lookahead, __nt);
                return Ok(__result);
            }
            _ => {
                #[allow(clippy::needless_raw_string_hashes)]
                let __expected = alloc::vec![
                ];
                return Err(
                    match __lookahead {
                        Some(__token) => {
                            __lalrpop_util::ParseError::UnrecognizedToken {
                                token: __token,
                                expected: __expected,
                            }
                        }
                        None => {
                            let __location = __sym2.2.clone();
                            __lalrpop_util::ParseError::UnrecognizedEof {
                                location: __location,
                                expected: __expected,
                            }
                        }
                    }
                )
            }
        }
    }

    fn __state32<
        'input,
        __TOKENS: Iterator<Item=Result<(usize, Token<'input>, usize),__lalrpop_util::ParseError<usize, Token<'input>, &'static str>>>,
    >(
        input: &'input str,
        __tokens: &mut __TOKENS,
        __lookahead: Option<(usize, Token<'input>, usize)>,
        __sym0: (usize, &'static String, usize),
        __sym1: (usize, Box<String>, usize),
        _: core::marker::PhantomData<(&'input ())>,
    ) -> Result<(Option<(usize, Token<'input>, usize)>, __Nonterminal<>), __lalrpop_util::ParseError<usize, Token<'input>, &'static str>>
    {
        let mut __result: (Option<(usize, Token<'input>, usize)>, __Nonterminal<>);
        match __lookahead {
            Some((_, Token(1, _), _)) => {
                let __start = __sym0.0.clone();
                let __end = __sym1.2.clone();
                let __nt = super::__action26::<>(input, __sym0, __sym1);
                let __nt = __Nonterminal::Nested_3cId_3e((
                    __start,
                    __nt,
                    __end,
                ));
                __result = (__lookahead, __nt);
                return Ok(__result);
            }
            _ => {
                #[allow(clippy::needless_raw_string_hashes)]
                let __expected = alloc::vec![
                    r###"",""###.to_string(),
                ];
                return Err(
                    match __lookahead {
                        Some(__token) => {
                            __lalrpop_util::ParseError::UnrecognizedToken {
                                token: __token,
                                expected: __expected,
                            }
                        }
                        None => {
                            let __location = __sym1.2.clone();
                            __lalrpop_util::ParseError::UnrecognizedEof {
                                location: __location,
                                expected: __expected,
                            }
                        }
                    }
                )
            }
        }
    }

    fn __state33<
        'input,
        __TOKENS: Iterator<Item=Result<(usize, Token<'input>, usize),__lalrpop_util::ParseError<usize, Token<'input>, &'static str>>>,
    >(
        input: &'input str,
        __tokens: &mut __TOKENS,
        __sym0: (usize, &'input str, usize),
        __sym1: (usize, Vec<(&'static String, Option<Box<String>>)>, usize),
        __sym2: (usize, &'input str, usize),
        _: core::marker::PhantomData<(&'input ())>,
    ) -> Result<(Option<(usize, Token<'input>, usize)>, __Nonterminal<>), __lalrpop_util::ParseError<usize, Token<'input>, &'static str>>
    {
        let mut __result: (Option<(usize, Token<'input>, usize)>, __Nonterminal<>);
        let __lookahead = match __tokens.next() {
            Some(Ok(v)) => Some(v),
            Some(Err(e)) => return Err(e),
            None => None,
        };
        match __lookahead {
            None => {
                let __start = __sym0.0.clone();
                let __end = __sym2.2.clone();
                let __nt = super::__action8::<>(input, __sym0, __sym1, __sym2);
                let __nt = __Nonterminal::S((
                    __start,
                    __nt,
                    __end,
                ));
                __result = (__lookahead, __nt);
                return Ok(__result);
            }
            _ => {
                #[allow(clippy::needless_raw_string_hashes)]
                let __expected = alloc::vec![
                ];
                return Err(
                    match __lookahead {
                        Some(__token) => {
                            __lalrpop_util::ParseError::UnrecognizedToken {
                                token: __token,
                                expected: __expected,
                            }
                        }
                        None => {
                            let __location = __sym2.2.clone();
                            __lalrpop_util::ParseError::UnrecognizedEof {
                                location: __location,
                                expected: __expected,
                            }
                        }
                    }
                )
            }
        }
    }

    fn __state34<
        'input,
        __TOKENS: Iterator<Item=Result<(usize, Token<'input>, usize),__lalrpop_util::ParseError<usize, Token<'input>, &'static str>>>,
    >(
        input: &'input str,
        __tokens: &mut __TOKENS,
        __sym0: (usize, &'input str, usize),
        __sym1: (usize, String, usize),
        __sym2: (usize, &'input str, usize),
        _: core::marker::PhantomData<(&'input ())>,
    ) -> Result<(Option<(usize, Token<'input>, usize)>, __Nonterminal<>), __lalrpop_util::ParseError<usize, Token<'input>, &'static str>>
    {
        let mut __result: (Option<(usize, Token<'input>, usize)>, __Nonterminal<>);
        let __lookahead = match __tokens.next() {
            Some(Ok(v)) => Some(v),
            Some(Err(e)) => return Err(e),
            None => None,
        };
        match __lookahead {
            None => {
                let __start = __sym0.0.clone();
                let __end = __sym2.2.clone();
                let __nt = super::__action2::<>(input, __sym0, __sym1, __sym2);
                let __nt = __Nonterminal::S((
                    __start,
                    __nt,
                    __end,
                ));
                __result = (__lookahead, __nt);
                return Ok(__result);
            }
            _ => {
                #[allow(clippy::needless_raw_string_hashes)]
                let __expected = alloc::vec![
                ];
                return Err(
                    match __lookahead {
                        Some(__token) => {
                            __lalrpop_util::ParseError::UnrecognizedToken {
                                token: __token,
                                expected: __expected,
                            }
                        }
                        None => {
                            let __location = __sym2.2.clone();
                            __lalrpop_util::ParseError::UnrecognizedEof {
                                location: __location,
                                expected: __expected,
                            }
                        }
                    }
                )
            }
        }
    }

    fn __state35<
        'input,
        __TOKENS: Iterator<Item=Result<(usize, Token<'input>, usize),__lalrpop_util::ParseError<usize, Token<'input>, &'static str>>>,
    >(
        input: &'input str,
        __tokens: &mut __TOKENS,
        __lookahead: Option<(usize, Token<'input>, usize)>,
        __sym0: (usize, String, usize),
        __sym1: (usize, String, usize),
        _: core::marker::PhantomData<(&'input ())>,
    ) -> Result<(Option<(usize, Token<'input>, usize)>, __Nonterminal<>), __lalrpop_util::ParseError<usize, Token<'input>, &'static str>>
    {
        let mut __result: (Option<(usize, Token<'input>, usize)>, __Nonterminal<>);
        match __lookahead {
            Some((_, Token(1, _), _)) => {
                let __start = __sym0.0.clone();
                let __end = __sym1.2.clone();
                let __nt = super::__action15::<>(input, __sym0, __sym1);
                let __nt = __Nonterminal::Twice_3cId_3e((
                    __start,
                    __nt,
                    __end,
                ));
                __result = (__lookahead, __nt);
                return Ok(__result);
            }
            _ => {
                #[allow(clippy::needless_raw_string_hashes)]
                let __expected = alloc::vec![
                    r###"",""###.to_string(),
                ];
                return Err(
                    match __lookahead {
                        Some(__token) => {
                            __lalrpop_util::ParseError::UnrecognizedToken {
                                token: __token,
                                expected: __expected,
                            }
                        }
                        None => {
                            let __location = __sym1.2.clone();
                            __lalrpop_util::ParseError::UnrecognizedEof {
                                location: __location,
                                expected: __expected,
                            }
                        }
                    }
                )
            }
        }
    }

    fn __state36<
        'input,
        __TOKENS: Iterator<Item=Result<(usize, Token<'input>, usize),__lalrpop_util::ParseError<usize, Token<'input>, &'static str>>>,
    >(
        input: &'input str,
        __tokens: &mut __TOKENS,
        __sym0: (usize, &'input str, usize),
        __sym1: (usize, (String, String), usize),
        __sym2: (usize, &'input str, usize),
        _: core::marker::PhantomData<(&'input ())>,
    ) -> Result<(Option<(usize, Token<'input>, usize)>, __Nonterminal<>), __lalrpop_util::ParseError<usize, Token<'input>, &'static str>>
    {
        let mut __result: (Option<(usize, Token<'input>, usize)>, __Nonterminal<>);
        let __lookahead = match __tokens.next() {
            Some(Ok(v)) => Some(v),
            Some(Err(e)) => return Err(e),
            None => None,
        };
        match __lookahead {
            None => {
                let __start = __sym0.0.clone();
                let __end = __sym2.2.clone();
                let __nt = super::__action4::<>(input, __sym0, __sym1, __sym2);
                let __nt = __Nonterminal::S((
                    __start,
                    __nt,
                    __end,
                ));
                __result = (__lookahead, __nt);
                return Ok(__result);
            }
            _ => {
                #[allow(clippy::needless_raw_string_hashes)]
                let __expected = alloc::vec![
                ];
                return Err(
                    match __lookahead {
                        Some(__token) => {
                            __lalrpop_util::ParseError::UnrecognizedToken {
                                token: __token,
                                expected: __expected,
                            }
                        }
                        None => {
                            let __location = __sym2.2.clone();
                            __lalrpop_util::ParseError::UnrecognizedEof {
                                location: __location,
                                expected: __expected,
                            }
                        }
                    }
                )
            }
        }
    }

    fn __state37<
        'input,
        __TOKENS: Iterator<Item=Result<(usize, Token<'input>, usize),__lalrpop_util::ParseError<usize, Token<'input>, &'static str>>>,
    >(
        input: &'input str,
        __tokens: &mut __TOKENS,
        __lookahead: Option<(usize, Token<'input>, usize)>,
        __sym0: (usize, alloc::vec::Vec<&'static String>, usize),
        __sym1: (usize, &'static String, usize),
        _: core::marker::PhantomData<(&'input ())>,
    ) -> Result<(Option<(usize, Token<'input>, usize)>, __Nonterminal<>), __lalrpop_util::ParseError<usize, Token<'input>, &'static str>>
    {
        let mut __result: (Option<(usize, Token<'input>, usize)>, __Nonterminal<>);
        match __lookahead {
            Some((_, Token(0, _), _)) |
            Some((_, Token(1, _), _)) => {
                let __start = __sym0.0.clone();
                let __end = __sym1.2.clone();
                let __nt = super::__action21::<>(input, __sym0, __sym1);
                let __nt = __Nonterminal::Leak_3cId_3e_2b((
                    __start,
                    __nt,
                    __end,
                ));
                __result = (__lookahead, __nt);
                return Ok(__result);
            }
            _ => {
                #[allow(clippy::needless_raw_string_hashes)]
                let __expected = alloc::vec![
                    r###"r#"[a-z]+"#"###.to_string(),
                    r###"",""###.to_string(),
                ];
                return Err(
                    match __lookahead {
                        Some(__token) => {
                            __lalrpop_util::ParseError::UnrecognizedToken {
                                token: __token,
                                expected: __expected,
                            }
                        }
                        None => {
                            let __location = __sym1.2.clone();
                            __lalrpop_util::ParseError::UnrecognizedEof {
                                location: __location,
                                expected: __expected,
                            }
                        }
                    }
                )
            }
        }
    }

    fn __state38<
        'input,
        __TOKENS: Iterator<Item=Result<(usize, Token<'input>, usize),__lalrpop_util::ParseError<usize, Token<'input>, &'static str>>>,
    >(
        input: &'input str,
        __tokens: &mut __TOKENS,
        __sym0: (usize, &'input str, usize),
        __sym1: (usize, &'static String, usize),
        __sym2: (usize, alloc::vec::Vec<&'static String>, usize),
        __sym3: (usize, &'input str, usize),
        _: core::marker::PhantomData<(&'input ())>,
    ) -> Result<(Option<(usize, Token<'input>, usize)>, __Nonterminal<>), __lalrpop_util::ParseError<usize, Token<'input>, &'static str>>
    {
        let mut __result: (Option<(usize, Token<'input>, usize)>, __Nonterminal<>);
        let __lookahead = match __tokens.next() {
            Some(Ok(v)) => Some(v),
            Some(Err(e)) => return Err(e),
            None => None,
        };
        match __lookahead {
            None => {
                let __start = __sym0.0.clone();
                let __end = __sym3.2.clone();
                let __nt = super::__action31::<>(input, __sym0, __sym1, __sym2, __sym3);
                let __nt = __Nonterminal::S((
                    __start,
                    __nt,
                    __end,
                ));
                __result = (__lookahead, __nt);
                return Ok(__result);
            }
            _ => {
                #[allow(clippy::needless_raw_string_hashes)]
                let __expected = alloc::vec![
                ];
                return Err(
                    match __lookahead {
                        Some(__token) => {
                            __lalrpop_util::ParseError::UnrecognizedToken {
                                token: __token,
                                expected: __expected,
                            }
                        }
                        None => {
                            let __location = __sym3.2.clone();
                            __lalrpop_util::ParseError::UnrecognizedEof {
                                location: __location,
                                expected: __expected,
                            }
                        }
                    }
                )
            }
        }
    }
}
#[allow(unused_imports)]
pub use self::__parse__S::SParser;
#[rustfmt::skip]
mod __intern_token {
    #![allow(unused_imports)]
    #[allow(unused_extern_crates)]
    extern crate lalrpop_util as __lalrpop_util;
    #[allow(unused_imports)]
    use self::__lalrpop_util::state_machine as __state_machine;
    #[allow(unused_extern_crates)]
    extern crate alloc;
    pub fn new_builder() -> __lalrpop_util::lexer::MatcherBuilder {
        let __strs: &[(&str, bool)] = &[
            ("[a-z]+", false),
            (",", false),
            ("(?:boxed)", false),
            ("(?:leak)", false),
            ("(?:leakmut)", false),
            ("(?:many)", false),
            ("(?:nested)", false),
            ("(?:same)", false),
            ("(?:twice)", false),
            (r"\s+", true),
        ];
        __lalrpop_util::lexer::MatcherBuilder::new(__strs.iter().copied()).unwrap()
    }
}
pub(crate) use self::__lalrpop_util::lexer::Token;

#[allow(unused_variables)]
#[allow(clippy::too_many_arguments, clippy::needless_lifetimes, clippy::just_underscores_and_digits, clippy::extra_unused_type_parameters)]
fn __action0<
    'input,
>(
    input: &'input str,
    (_, __0, _): (usize, usize, usize),
) -> usize
{
    __0
}

#[allow(unused_variables)]
#[allow(clippy::too_many_arguments, clippy::needless_lifetimes, clippy::just_underscores_and_digits, clippy::extra_unused_type_parameters)]
fn __action1<
    'input,
>(
    input: &'input str,
    (_, __0, _): (usize, &'input str, usize),
) -> String
{
    __0.to_string()
}

#[allow(unused_variables)]
#[allow(clippy::too_many_arguments, clippy::needless_lifetimes, clippy::just_underscores_and_digits, clippy::extra_unused_type_parameters)]
fn __action2<
    'input,
>(
    input: &'input str,
    (_, _, _): (usize, &'input str, usize),
    (_, a, _): (usize, String, usize),
    (_, _, _): (usize, &'input str, usize),
) -> usize
{
    a.len()
}

#[allow(unused_variables)]
#[allow(clippy::too_many_arguments, clippy::needless_lifetimes, clippy::just_underscores_and_digits, clippy::extra_unused_type_parameters)]
fn __action3<
    'input,
>(
    input: &'input str,
    (_, _, _): (usize, &'input str, usize),
    (_, a, _): (usize, Box<String>, usize),
    (_, _, _): (usize, &'input str, usize),
) -> usize
{
    a.len()
}

#[allow(unused_variables)]
#[allow(clippy::too_many_arguments, clippy::needless_lifetimes, clippy::just_underscores_and_digits, clippy::extra_unused_type_parameters)]
fn __action4<
    'input,
>(
    input: &'input str,
    (_, _, _): (usize, &'input str, usize),
    (_, a, _): (usize, (String, String), usize),
    (_, _, _): (usize, &'input str, usize),
) -> usize
{
    a.0.len() + a.1.len()
}

#[allow(unused_variables)]
#[allow(clippy::too_many_arguments, clippy::needless_lifetimes, clippy::just_underscores_and_digits, clippy::extra_unused_type_parameters)]
fn __action5<
    'input,
>(
    input: &'input str,
    (_, _, _): (usize, &'input str, usize),
    (_, a, _): (usize, Vec<String>, usize),
    (_, _, _): (usize, &'input str, usize),
) -> usize
{
    a.len()
}

#[allow(unused_variables)]
#[allow(clippy::too_many_arguments, clippy::needless_lifetimes, clippy::just_underscores_and_digits, clippy::extra_unused_type_parameters)]
fn __action6<
    'input,
>(
    input: &'input str,
    (_, _, _): (usize, &'input str, usize),
    (_, a, _): (usize, &'static String, usize),
    (_, b, _): (usize, alloc::vec::Vec<&'static String>, usize),
    (_, _, _): (usize, &'input str, usize),
) -> usize
{
    a.len() + b.len()
}

#[allow(unused_variables)]
#[allow(clippy::too_many_arguments, clippy::needless_lifetimes, clippy::just_underscores_and_digits, clippy::extra_unused_type_parameters)]
fn __action7<
    'input,
>(
    input: &'input str,
    (_, _, _): (usize, &'input str, usize),
    (_, a, _): (usize, &'static mut String, usize),
    (_, _, _): (usize, &'input str, usize),
) -> usize
{
    { a.push('x'); a.len() }
}

#[allow(unused_variables)]
#[allow(clippy::too_many_arguments, clippy::needless_lifetimes, clippy::just_underscores_and_digits, clippy::extra_unused_type_parameters)]
fn __action8<
    'input,
>(
    input: &'input str,
    (_, _, _): (usize, &'input str, usize),
    (_, a, _): (usize, Vec<(&'static String, Option<Box<String>>)>, usize),
    (_, _, _): (usize, &'input str, usize),
) -> usize
{
    a.len()
}

#[allow(unused_variables)]
#[allow(clippy::too_many_arguments, clippy::needless_lifetimes, clippy::just_underscores_and_digits, clippy::extra_unused_type_parameters)]
fn __action9<
    'input,
>(
    input: &'input str,
    (_, a, _): (usize, &'static String, usize),
    (_, b, _): (usize, Option<Box<String>>, usize),
) -> Vec<(&'static String, Option<Box<String>>)>
{
    vec![(a, b)]
}

#[allow(unused_variables)]
#[allow(clippy::too_many_arguments, clippy::needless_lifetimes, clippy::just_underscores_and_digits, clippy::extra_unused_type_parameters)]
fn __action10<
    'input,
>(
    input: &'input str,
    (_, t, _): (usize, String, usize),
) -> &'static mut String
{
    Box::leak(Box::new(t))
}

#[allow(unused_variables)]
#[allow(clippy::too_many_arguments, clippy::needless_lifetimes, clippy::just_underscores_and_digits, clippy::extra_unused_type_parameters)]
fn __action11<
    'input,
>(
    input: &'input str,
    __lookbehind: &usize,
    __lookahead: &usize,
) -> alloc::vec::Vec<&'static String>
{
    alloc::vec![]
}

#[allow(unused_variables)]
#[allow(clippy::too_many_arguments, clippy::needless_lifetimes, clippy::just_underscores_and_digits, clippy::extra_unused_type_parameters)]
fn __action12<
    'input,
>(
    input: &'input str,
    (_, v, _): (usize, alloc::vec::Vec<&'static String>, usize),
) -> alloc::vec::Vec<&'static String>
{
    v
}

#[allow(unused_variables)]
#[allow(clippy::too_many_arguments, clippy::needless_lifetimes, clippy::just_underscores_and_digits, clippy::extra_unused_type_parameters)]
fn __action13<
    'input,
>(
    input: &'input str,
    (_, t, _): (usize, String, usize),
) -> &'static String
{
    { let r = Box::leak(Box::new(t)); &*r }
}

#[allow(unused_variables)]
#[allow(clippy::too_many_arguments, clippy::needless_lifetimes, clippy::just_underscores_and_digits, clippy::extra_unused_type_parameters)]
fn __action14<
    'input,
>(
    input: &'input str,
    (_, v, _): (usize, alloc::vec::Vec<String>, usize),
) -> Vec<String>
{
    v
}

#[allow(unused_variables)]
#[allow(clippy::too_many_arguments, clippy::needless_lifetimes, clippy::just_underscores_and_digits, clippy::extra_unused_type_parameters)]
fn __action15<
    'input,
>(
    input: &'input str,
    (_, a, _): (usize, String, usize),
    (_, b, _): (usize, String, usize),
) -> (String, String)
{
    (a, b)
}

#[allow(unused_variables)]
#[allow(clippy::too_many_arguments, clippy::needless_lifetimes, clippy::just_underscores_and_digits, clippy::extra_unused_type_parameters)]
fn __action16<
    'input,
>(
    input: &'input str,
    (_, t, _): (usize, String, usize),
) -> Box<String>
{
    Box::new(t)
}

#[allow(unused_variables)]
#[allow(clippy::too_many_arguments, clippy::needless_lifetimes, clippy::just_underscores_and_digits, clippy::extra_unused_type_parameters)]
fn __action17<
    'input,
>(
    input: &'input str,
    (_, __0, _): (usize, String, usize),
) -> String
{
    __0
}

#[allow(unused_variables)]
#[allow(clippy::too_many_arguments, clippy::needless_lifetimes, clippy::just_underscores_and_digits, clippy::extra_unused_type_parameters)]
fn __action18<
    'input,
>(
    input: &'input str,
    __lookbehind: &usize,
    __lookahead: &usize,
) -> alloc::vec::Vec<String>
{
    alloc::vec![]
}

#[allow(unused_variables)]
#[allow(clippy::too_many_arguments, clippy::needless_lifetimes, clippy::just_underscores_and_digits, clippy::extra_unused_type_parameters)]
fn __action19<
    'input,
>(
    input: &'input str,
    (_, v, _): (usize, alloc::vec::Vec<String>, usize),
) -> alloc::vec::Vec<String>
{
    v
}

#[allow(unused_variables)]
#[allow(clippy::too_many_arguments, clippy::needless_lifetimes, clippy::just_underscores_and_digits, clippy::extra_unused_type_parameters)]
fn __action20<
    'input,
>(
    input: &'input str,
    (_, __0, _): (usize, &'static String, usize),
) -> alloc::vec::Vec<&'static String>
{
    alloc::vec![__0]
}

#[allow(unused_variables)]
#[allow(clippy::too_many_arguments, clippy::needless_lifetimes, clippy::just_underscores_and_digits, clippy::extra_unused_type_parameters)]
fn __action21<
    'input,
>(
    input: &'input str,
    (_, v, _): (usize, alloc::vec::Vec<&'static String>, usize),
    (_, e, _): (usize, &'static String, usize),
) -> alloc::vec::Vec<&'static String>
{
    { let mut v = v; v.push(e); v }
}

#[allow(unused_variables)]
#[allow(clippy::too_many_arguments, clippy::needless_lifetimes, clippy::just_underscores_and_digits, clippy::extra_unused_type_parameters)]
fn __action22<
    'input,
>(
    input: &'input str,
    (_, __0, _): (usize, Box<String>, usize),
) -> Option<Box<String>>
{
    Some(__0)
}

#[allow(unused_variables)]
#[allow(clippy::too_many_arguments, clippy::needless_lifetimes, clippy::just_underscores_and_digits, clippy::extra_unused_type_parameters)]
fn __action23<
    'input,
>(
    input: &'input str,
    __lookbehind: &usize,
    __lookahead: &usize,
) -> Option<Box<String>>
{
    None
}

#[allow(unused_variables)]
#[allow(clippy::too_many_arguments, clippy::needless_lifetimes, clippy::just_underscores_and_digits, clippy::extra_unused_type_parameters)]
fn __action24<
    'input,
>(
    input: &'input str,
    (_, __0, _): (usize, String, usize),
) -> alloc::vec::Vec<String>
{
    alloc::vec![__0]
}

#[allow(unused_variables)]
#[allow(clippy::too_many_arguments, clippy::needless_lifetimes, clippy::just_underscores_and_digits, clippy::extra_unused_type_parameters)]
fn __action25<
    'input,
>(
    input: &'input str,
    (_, v, _): (usize, alloc::vec::Vec<String>, usize),
    (_, e, _): (usize, String, usize),
) -> alloc::vec::Vec<String>
{
    { let mut v = v; v.push(e); v }
}

#[allow(unused_variables)]
#[allow(clippy::too_many_arguments, clippy::needless_lifetimes,
    clippy::just_underscores_and_digits, clippy::clone_on_copy, clippy::unit_arg)]
fn __action26<
    'input,
>(
    input: &'input str,
    __0: (usize, &'static String, usize),
    __1: (usize, Box<String>, usize),
) -> Vec<(&'static String, Option<Box<String>>)>
{
    let __start0 = __1.0.clone();
    let __end0 = __1.2.clone();
    let __temp0 = __action22(
        input,
        __1,
    );
    let __temp0 = (__start0, __temp0, __end0);
    __action9(
        input,
        __0,
        __temp0,
    )
}

#[allow(unused_variables)]
#[allow(clippy::too_many_arguments, clippy::needless_lifetimes,
    clippy::just_underscores_and_digits, clippy::clone_on_copy, clippy::unit_arg)]
fn __action27<
    'input,
>(
    input: &'input str,
    __0: (usize, &'static String, usize),
) -> Vec<(&'static String, Option<Box<String>>)>
{
    let __start0 = __0.2.clone();
    let __end0 = __0.2.clone();
    let __temp0 = __action23(
        input,
        &__start0,
        &__end0,
    );
    let __temp0 = (__start0, __temp0, __end0);
    __action9(
        input,
        __0,
        __temp0,
    )
}

#[allow(unused_variables)]
#[allow(clippy::too_many_arguments, clippy::needless_lifetimes,
    clippy::just_underscores_and_digits, clippy::clone_on_copy, clippy::unit_arg)]
fn __action28<
    'input,
>(
    input: &'input str,
    __lookbehind: &usize,
    __lookahead: &usize,
) -> Vec<String>
{
    let __start0 = __lookbehind.clone();
    let __end0 = __lookahead.clone();
    let __temp0 = __action18(
        input,
        &__start0,
        &__end0,
    );
    let __temp0 = (__start0, __temp0, __end0);
    __action14(
        input,
        __temp0,
    )
}

#[allow(unused_variables)]
#[allow(clippy::too_many_arguments, clippy::needless_lifetimes,
    clippy::just_underscores_and_digits, clippy::clone_on_copy, clippy::unit_arg)]
fn __action29<
    'input,
>(
    input: &'input str,
    __0: (usize, alloc::vec::Vec<String>, usize),
) -> Vec<String>
{
    let __start0 = __0.0.clone();
    let __end0 = __0.2.clone();
    let __temp0 = __action19(
        input,
        __0,
    );
    let __temp0 = (__start0, __temp0, __end0);
    __action14(
        input,
        __temp0,
    )
}

#[allow(unused_variables)]
#[allow(clippy::too_many_arguments, clippy::needless_lifetimes,
    clippy::just_underscores_and_digits, clippy::clone_on_copy, clippy::unit_arg)]
fn __action30<
    'input,
>(
    input: &'input str,
    __0: (usize, &'input str, usize),
    __1: (usize, &'static String, usize),
    __2: (usize, &'input str, usize),
) -> usize
{
    let __start0 = __1.2.clone();
    let __end0 = __2.0.clone();
    let __temp0 = __action11(
        input,
        &__start0,
        &__end0,
    );
    let __temp0 = (__start0, __temp0, __end0);
    __action6(
        input,
        __0,
        __1,
        __temp0,
        __2,
    )
}

#[allow(unused_variables)]
#[allow(clippy::too_many_arguments, clippy::needless_lifetimes,
    clippy::just_underscores_and_digits, clippy::clone_on_copy, clippy::unit_arg)]
fn __action31<
    'input,
>(
    input: &'input str,
    __0: (usize, &'input str, usize),
    __1: (usize, &'static String, usize),
    __2: (usize, alloc::vec::Vec<&'static String>, usize),
    __3: (usize, &'input str, usize),
) -> usize
{
    let __start0 = __2.0.clone();
    let __end0 = __2.2.clone();
    let __temp0 = __action12(
        input,
        __2,
    );
    let __temp0 = (__start0, __temp0, __end0);
    __action6(
        input,
        __0,
        __1,
        __temp0,
        __3,
    )
}

#[allow(clippy::type_complexity, dead_code)]
pub trait __ToTriple<'input, >
{
    fn to_triple(self) -> Result<(usize,Token<'input>,usize), __lalrpop_util::ParseError<usize, Token<'input>, &'static str>>;
}

impl<'input, > __ToTriple<'input, > for (usize, Token<'input>, usize)
{
    fn to_triple(self) -> Result<(usize,Token<'input>,usize), __lalrpop_util::ParseError<usize, Token<'input>, &'static str>> {
        Ok(self)
    }
}
impl<'input, > __ToTriple<'input, > for Result<(usize, Token<'input>, usize), &'static str>
{
    fn to_triple(self) -> Result<(usize,Token<'input>,usize), __lalrpop_util::ParseError<usize, Token<'input>, &'static str>> {
        self.map_err(|error| __lalrpop_util::ParseError::User { error })
    }
}
