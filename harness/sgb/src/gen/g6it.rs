// auto-generated: "lalrpop 0.23.1"
// sha3: 1edb600bac2562838896a214064e69420d870255d91151cc43ea1be61b7da2d7
use crate::support::*;
#[allow(unused_extern_crates)]
extern crate lalrpop_util as __lalrpop_util;
#[allow(unused_imports)]
use self::__lalrpop_util::state_machine as __state_machine;
#[allow(unused_extern_crates)]
extern crate alloc;

#[rustfmt::skip]
#[allow(explicit_outlives_requirements, non_snake_case, non_camel_case_types, unused_mut, unused_variables, unused_imports, unused_parens, clippy::needless_lifetimes, clippy::type_complexity, clippy::needless_return, clippy::too_many_arguments, clippy::match_single_binding, clippy::clone_on_copy, clippy::unit_arg)]
mod __parse__S {

    use crate::support::*;
    #[allow(unused_extern_crates)]
    extern crate lalrpop_util as __lalrpop_util;
    #[allow(unused_imports)]
    use self::__lalrpop_util::state_machine as __state_machine;
    #[allow(unused_extern_crates)]
    extern crate alloc;
    use self::__lalrpop_util::lexer::Token;
    #[allow(dead_code)]
    pub(crate) enum __Symbol<'input, 's, T>
     where T: Clone, T: std::fmt::Debug
     {
        Variant0(&'input str),
        Variant1((&'input str, &'input str)),
        Variant2(alloc::vec::Vec<(&'input str, &'input str)>),
        Variant3(usize),
        Variant4(alloc::vec::Vec<usize>),
        Variant5(Ast<'s, (usize, T)>),
    }
    const __ACTION: &[i8] = &[
        // State 0
        0, 13, -19, 3,
        // State 1
        0, 13, -19, 3,
        // State 2
        0, 13, -19, 5,
        // State 3
        -19, 13, -19, -19,
        // State 4
        0, 13, -19, 6,
        // State 5
        0, 13, -19, 6,
        // State 6
        -20, 14, -20, -20,
        // State 7
        0, -11, -11, -11,
        // State 8
        16, 0, 0, 0,
        // State 9
        0, 0, 17, 0,
        // State 10
        0, 0, 4, 0,
        // State 11
        0, 0, 0, 0,
        // State 12
        18, 0, 0, 0,
        // State 13
        20, 0, 0, 0,
        // State 14
        0, -12, -12, -12,
        // State 15
        0, -8, -8, -8,
        // State 16
        0, 0, 21, 0,
        // State 17
        -4, -4, -4, -4,
        // State 18
        0, 0, 0, 23,
        // State 19
        -5, -5, -5, -5,
        // State 20
        -13, 0, 0, 0,
        // State 21
        -17, 0, -17, -17,
        // State 22
        -18, 0, -18, -18,
        // State 23
        -14, 0, 0, 23,
    ];
    fn __action(state: i8, integer: usize) -> i8 {
        __ACTION[(state as usize) * 4 + integer]
    }
    const __EOF_ACTION: &[i8] = &[
        // State 0
        -21,
        // State 1
        -22,
        // State 2
        0,
        // State 3
        0,
        // State 4
        0,
        // State 5
        0,
        // State 6
        0,
        // State 7
        -11,
        // State 8
        0,
        // State 9
        0,
        // State 10
        0,
        // State 11
        -23,
        // State 12
        0,
        // State 13
        0,
        // State 14
        -12,
        // State 15
        -8,
        // State 16
        0,
        // State 17
        0,
        // State 18
        0,
        // State 19
        0,
        // State 20
        0,
        // State 21
        0,
        // State 22
        0,
        // State 23
        0,
    ];
    fn __goto(state: i8, nt: usize) -> i8 {
        match nt {
            2 => 6,
            5 => match state {
                1 => 14,
                _ => 7,
            },
            7 => 1,
            8 => 8,
            10 => match state {
                0..=1 => 9,
                4 => 23,
                _ => 18,
            },
            11 => match state {
                3 => 21,
                _ => 10,
            },
            12 => 11,
            _ => 0,
        }
    }
    #[allow(clippy::needless_raw_string_hashes)]
    const __TERMINAL: &[&str] = &[
        r###"",""###,
        r###""a""###,
        r###""c""###,
        r###""d""###,
    ];
    fn __expected_tokens(__state: i8) -> alloc::vec::Vec<alloc::string::String> {
        __TERMINAL.iter().enumerate().filter_map(|(index, terminal)| {
            let next_state = __action(__state, index);
            if next_state == 0 {
                None
            } else {
                Some(alloc::string::ToString::to_string(terminal))
            }
        }).collect()
    }
    fn __expected_tokens_from_states<
        'input,
        's,
        '__3,
        T,
    >(
        __states: &[i8],
        _: core::marker::PhantomData<(&'input (), &'s (), T)>,
    ) -> alloc::vec::Vec<alloc::string::String>
    where
        T: Clone,
        T: std::fmt::Debug,
        T: '__3,
    {
        __TERMINAL.iter().enumerate().filter_map(|(index, terminal)| {
            if __accepts(None, __states, Some(index), core::marker::PhantomData::<(&(), &(), T)>) {
                Some(alloc::string::ToString::to_string(terminal))
            } else {
                None
            }
        }).collect()
    }
    struct __StateMachine<'input, 's, '__3, T>
    where T: Clone, T: std::fmt::Debug, T: '__3
    {
        name: &'s str,
        seed: &'__3 T,
        input: &'input str,
        __phantom: core::marker::PhantomData<(&'input (), &'s (), T)>,
    }
    impl<'input, 's, '__3, T> __state_machine::ParserDefinition for __StateMachine<'input, 's, '__3, T>
    where T: Clone, T: std::fmt::Debug, T: '__3
    {
        type Location = usize;
        type Error = &'static str;
        type Token = Token<'input>;
        type TokenIndex = usize;
        type Symbol = __Symbol<'input, 's, T>;
        type Success = Ast<'s, (usize, T)>;
        type StateIndex = i8;
        type Action = i8;
        type ReduceIndex = i8;
        type NonterminalIndex = usize;

        #[inline]
        fn start_location(&self) -> Self::Location {
              Default::default()
        }

        #[inline]
        fn start_state(&self) -> Self::StateIndex {
              0
        }

        #[inline]
        fn token_to_index(&self, token: &Self::Token) -> Option<usize> {
            __token_to_integer(token, core::marker::PhantomData::<(&(), &(), T)>)
        }

        #[inline]
        fn action(&self, state: i8, integer: usize) -> i8 {
            __action(state, integer)
        }

        #[inline]
        fn error_action(&self, state: i8) -> i8 {
            __action(state, 4 - 1)
        }

        #[inline]
        fn eof_action(&self, state: i8) -> i8 {
            __EOF_ACTION[state as usize]
        }

        #[inline]
        fn goto(&self, state: i8, nt: usize) -> i8 {
            __goto(state, nt)
        }

        fn token_to_symbol(&self, token_index: usize, token: Self::Token) -> Self::Symbol {
            __token_to_symbol(token_index, token, core::marker::PhantomData::<(&(), &(), T)>)
        }

        fn expected_tokens(&self, state: i8) -> alloc::vec::Vec<alloc::string::String> {
            __expected_tokens(state)
        }

        fn expected_tokens_from_states(&self, states: &[i8]) -> alloc::vec::Vec<alloc::string::String> {
            __expected_tokens_from_states(states, core::marker::PhantomData::<(&(), &(), T)>)
        }

        #[inline]
        fn uses_error_recovery(&self) -> bool {
            false
        }

        #[inline]
        fn error_recovery_symbol(
            &self,
            recovery: __state_machine::ErrorRecovery<Self>,
        ) -> Self::Symbol {
            panic!("error recovery not enabled for this grammar")
        }

        fn reduce(
            &mut self,
            action: i8,
            start_location: Option<&Self::Location>,
            states: &mut alloc::vec::Vec<i8>,
            symbols: &mut alloc::vec::Vec<__state_machine::SymbolTriple<Self>>,
        ) -> Option<__state_machine::ParseResult<Self>> {
            __reduce(
                self.name,
                self.seed,
                self.input,
                action,
                start_location,
                states,
                symbols,
                core::marker::PhantomData::<(&(), &(), T)>,
            )
        }

        fn simulate_reduce(&self, action: i8) -> __state_machine::SimulatedReduce<Self> {
            __simulate_reduce(action, core::marker::PhantomData::<(&(), &(), T)>)
        }
    }
    fn __token_to_integer<
        'input,
        's,
        T,
    >(
        __token: &Token<'input>,
        _: core::marker::PhantomData<(&'input (), &'s (), T)>,
    ) -> Option<usize>
    where
        T: Clone,
        T: std::fmt::Debug,
    {
        #[warn(unused_variables)]
        match __token {
            Token(0, _) if true => Some(0),
            Token(1, _) if true => Some(1),
            Token(2, _) if true => Some(2),
            Token(3, _) if true => Some(3),
            _ => None,
        }
    }
    fn __token_to_symbol<
        'input,
        's,
        T,
    >(
        __token_index: usize,
        __token: Token<'input>,
        _: core::marker::PhantomData<(&'input (), &'s (), T)>,
    ) -> __Symbol<'input, 's, T>
    where
        T: Clone,
        T: std::fmt::Debug,
    {
        #[allow(clippy::manual_range_patterns)]match __token_index {
            0 | 1 | 2 | 3 => match __token {
                Token(0, __tok0) | Token(1, __tok0) | Token(2, __tok0) | Token(3, __tok0) if true => __Symbol::Variant0(__tok0),
                _ => unreachable!(),
            },
            _ => unreachable!(),
        }
    }
    fn __simulate_reduce<
        'input,
        's,
        '__3,
        T,
    >(
        __reduce_index: i8,
        _: core::marker::PhantomData<(&'input (), &'s (), T)>,
    ) -> __state_machine::SimulatedReduce<__StateMachine<'input, 's, '__3, T>>
    where
        T: Clone,
        T: std::fmt::Debug,
        T: '__3,
    {
        match __reduce_index {
            0 => {
                __state_machine::SimulatedReduce::Reduce {
                    states_to_pop: 2,
                    nonterminal_produced: 0,
                }
            }
            1 => {
                __state_machine::SimulatedReduce::Reduce {
                    states_to_pop: 0,
                    nonterminal_produced: 1,
                }
            }
            2 => {
                __state_machine::SimulatedReduce::Reduce {
                    states_to_pop: 1,
                    nonterminal_produced: 1,
                }
            }
            3 => {
                __state_machine::SimulatedReduce::Reduce {
                    states_to_pop: 2,
                    nonterminal_produced: 2,
                }
            }
            4 => {
                __state_machine::SimulatedReduce::Reduce {
                    states_to_pop: 3,
                    nonterminal_produced: 2,
                }
            }
            5 => {
                __state_machine::SimulatedReduce::Reduce {
                    states_to_pop: 0,
                    nonterminal_produced: 3,
                }
            }
            6 => {
                __state_machine::SimulatedReduce::Reduce {
                    states_to_pop: 0,
                    nonterminal_produced: 4,
                }
            }
            7 => {
                __state_machine::SimulatedReduce::Reduce {
                    states_to_pop: 2,
                    nonterminal_produced: 5,
                }
            }
            8 => {
                __state_machine::SimulatedReduce::Reduce {
                    states_to_pop: 0,
                    nonterminal_produced: 6,
                }
            }
            9 => {
                __state_machine::SimulatedReduce::Reduce {
                    states_to_pop: 1,
                    nonterminal_produced: 6,
                }
            }
            10 => {
                __state_machine::SimulatedReduce::Reduce {
                    states_to_pop: 1,
                    nonterminal_produced: 7,
                }
            }
            11 => {
                __state_machine::SimulatedReduce::Reduce {
                    states_to_pop: 2,
                    nonterminal_produced: 7,
                }
            }
            12 => {
                __state_machine::SimulatedReduce::Reduce {
                    states_to_pop: 3,
                    nonterminal_produced: 8,
                }
            }
            13 => {
                __state_machine::SimulatedReduce::Reduce {
                    states_to_pop: 3,
                    nonterminal_produced: 8,
                }
            }
            14 => {
                __state_machine::SimulatedReduce::Reduce {
                    states_to_pop: 3,
                    nonterminal_produced: 9,
                }
            }
            15 => {
                __state_machine::SimulatedReduce::Reduce {
                    states_to_pop: 3,
                    nonterminal_produced: 9,
                }
            }
            16 => {
                __state_machine::SimulatedReduce::Reduce {
                    states_to_pop: 3,
                    nonterminal_produced: 10,
                }
            }
            17 => {
                __state_machine::SimulatedReduce::Reduce {
                    states_to_pop: 3,
                    nonterminal_produced: 10,
                }
            }
            18 => {
                __state_machine::SimulatedReduce::Reduce {
                    states_to_pop: 0,
                    nonterminal_produced: 11,
                }
            }
            19 => {
                __state_machine::SimulatedReduce::Reduce {
                    states_to_pop: 1,
                    nonterminal_produced: 11,
                }
            }
            20 => {
                __state_machine::SimulatedReduce::Reduce {
                    states_to_pop: 0,
                    nonterminal_produced: 12,
                }
            }
            21 => {
                __state_machine::SimulatedReduce::Reduce {
                    states_to_pop: 1,
                    nonterminal_produced: 12,
                }
            }
            22 => __state_machine::SimulatedReduce::Accept,
            _ => panic!("invalid reduction index {__reduce_index}")
        }
    }
    pub struct SParser {
        builder: __lalrpop_util::lexer::MatcherBuilder,
        _priv: (),
    }

    impl Default for SParser { fn default() -> Self { Self::new() } }
    impl SParser {
        pub fn new() -> SParser {
            let __builder = super::__intern_token::new_builder();
            SParser {
                builder: __builder,
                _priv: (),
            }
        }

        #[allow(dead_code)]
        pub fn parse<
            'input,
            's,
            T,
        >(
            &self,
            name: &'s str,
            seed: &T,
            input: &'input str,
        ) -> Result<Ast<'s, (usize, T)>, __lalrpop_util::ParseError<usize, Token<'input>, &'static str>>
        where
            T: Clone,
            T: std::fmt::Debug,
        {
            let mut __tokens = self.builder.matcher(input);
            __state_machine::Parser::drive(
                __StateMachine {
                    name,
                    seed,
                    input,
                    __phantom: core::marker::PhantomData::<(&(), &(), T)>,
                },
                __tokens,
            )
        }
    }
    fn __accepts<
        'input,
        's,
        '__3,
        T,
    >(
        __error_state: Option<i8>,
        __states: &[i8],
        __opt_integer: Option<usize>,
        _: core::marker::PhantomData<(&'input (), &'s (), T)>,
    ) -> bool
    where
        T: Clone,
        T: std::fmt::Debug,
        T: '__3,
    {
        let mut __states = __states.to_vec();
        __states.extend(__error_state);
        loop {
            let mut __states_len = __states.len();
            let __top = __states[__states_len - 1];
            let __action = match __opt_integer {
                None => __EOF_ACTION[__top as usize],
                Some(__integer) => __action(__top, __integer),
            };
            if __action == 0 { return false; }
            if __action > 0 { return true; }
            let (__to_pop, __nt) = match __simulate_reduce(-(__action + 1), core::marker::PhantomData::<(&(), &(), T)>) {
                __state_machine::SimulatedReduce::Reduce {
                    states_to_pop, nonterminal_produced
                } => (states_to_pop, nonterminal_produced),
                __state_machine::SimulatedReduce::Accept => return true,
            };
            __states_len -= __to_pop;
            __states.truncate(__states_len);
            let __top = __states[__states_len - 1];
            let __next_state = __goto(__top, __nt);
            __states.push(__next_state);
        }
    }
    fn __reduce<
        'input,
        's,
        T,
    >(
        name: &'s str,
        seed: &T,
        input: &'input str,
        __action: i8,
        __lookahead_start: Option<&usize>,
        __states: &mut alloc::vec::Vec<i8>,
        __symbols: &mut alloc::vec::Vec<(usize,__Symbol<'input, 's, T>,usize)>,
        _: core::marker::PhantomData<(&'input (), &'s (), T)>,
    ) -> Option<Result<Ast<'s, (usize, T)>,__lalrpop_util::ParseError<usize, Token<'input>, &'static str>>>
    where
        T: Clone,
        T: std::fmt::Debug,
    {
        let (__pop_states, __nonterminal) = match __action {
            0 => {
                __reduce0(name, seed, input, __lookahead_start, __symbols, core::marker::PhantomData::<(&(), &(), T)>)
            }
            1 => {
                __reduce1(name, seed, input, __lookahead_start, __symbols, core::marker::PhantomData::<(&(), &(), T)>)
            }
            2 => {
                __reduce2(name, seed, input, __lookahead_start, __symbols, core::marker::PhantomData::<(&(), &(), T)>)
            }
            3 => {
                __reduce3(name, seed, input, __lookahead_start, __symbols, core::marker::PhantomData::<(&(), &(), T)>)
            }
            4 => {
                __reduce4(name, seed, input, __lookahead_start, __symbols, core::marker::PhantomData::<(&(), &(), T)>)
            }
            5 => {
                __reduce5(name, seed, input, __lookahead_start, __symbols, core::marker::PhantomData::<(&(), &(), T)>)
            }
            6 => {
                __reduce6(name, seed, input, __lookahead_start, __symbols, core::marker::PhantomData::<(&(), &(), T)>)
            }
            7 => {
                __reduce7(name, seed, input, __lookahead_start, __symbols, core::marker::PhantomData::<(&(), &(), T)>)
            }
            8 => {
                __reduce8(name, seed, input, __lookahead_start, __symbols, core::marker::PhantomData::<(&(), &(), T)>)
            }
            9 => {
                __reduce9(name, seed, input, __lookahead_start, __symbols, core::marker::PhantomData::<(&(), &(), T)>)
            }
            10 => {
                __reduce10(name, seed, input, __lookahead_start, __symbols, core::marker::PhantomData::<(&(), &(), T)>)
            }
            11 => {
                __reduce11(name, seed, input, __lookahead_start, __symbols, core::marker::PhantomData::<(&(), &(), T)>)
            }
            12 => {
                __reduce12(name, seed, input, __lookahead_start, __symbols, core::marker::PhantomData::<(&(), &(), T)>)
            }
            13 => {
                __reduce13(name, seed, input, __lookahead_start, __symbols, core::marker::PhantomData::<(&(), &(), T)>)
            }
            14 => {
                __reduce14(name, seed, input, __lookahead_start, __symbols, core::marker::PhantomData::<(&(), &(), T)>)
            }
            15 => {
                __reduce15(name, seed, input, __lookahead_start, __symbols, core::marker::PhantomData::<(&(), &(), T)>)
            }
            16 => {
                __reduce16(name, seed, input, __lookahead_start, __symbols, core::marker::PhantomData::<(&(), &(), T)>)
            }
            17 => {
                __reduce17(name, seed, input, __lookahead_start, __symbols, core::marker::PhantomData::<(&(), &(), T)>)
            }
            18 => {
                __reduce18(name, seed, input, __lookahead_start, __symbols, core::marker::PhantomData::<(&(), &(), T)>)
            }
            19 => {
                __reduce19(name, seed, input, __lookahead_start, __symbols, core::marker::PhantomData::<(&(), &(), T)>)
            }
            20 => {
                __reduce20(name, seed, input, __lookahead_start, __symbols, core::marker::PhantomData::<(&(), &(), T)>)
            }
            21 => {
                __reduce21(name, seed, input, __lookahead_start, __symbols, core::marker::PhantomData::<(&(), &(), T)>)
            }
            22 => {
                // __S = S => ActionFn(0);
                let __sym0 = __pop_Variant5(__symbols);
                let __start = __sym0.0.clone();
                let __end = __sym0.2.clone();
                let __nt = super::__action0::<T>(name, seed, input, __sym0);
                return Some(Ok(__nt));
            }
            _ => panic!("invalid action code {__action}")
        };
        let __states_len = __states.len();
        __states.truncate(__states_len - __pop_states);
        let __state = *__states.last().unwrap();
        let __next_state = __goto(__state, __nonterminal);
        __states.push(__next_state);
        None
    }
    #[inline(never)]
    fn __symbol_type_mismatch() -> ! {
        panic!("symbol type mismatch")
    }
    fn __pop_Variant1<
      'input,
      's,
      T,
    >(
        __symbols: &mut alloc::vec::Vec<(usize,__Symbol<'input, 's, T>,usize)>
    ) -> (usize, (&'input str, &'input str), usize)
     where T: Clone, T: std::fmt::Debug
     {
        match __symbols.pop() {
            Some((__l, __Symbol::Variant1(__v), __r)) => (__l, __v, __r),
            _ => __symbol_type_mismatch()
        }
    }
    fn __pop_Variant5<
      'input,
      's,
      T,
    >(
        __symbols: &mut alloc::vec::Vec<(usize,__Symbol<'input, 's, T>,usize)>
    ) -> (usize, Ast<'s, (usize, T)>, usize)
     where T: Clone, T: std::fmt::Debug
     {
        match __symbols.pop() {
            Some((__l, __Symbol::Variant5(__v), __r)) => (__l, __v, __r),
            _ => __symbol_type_mismatch()
        }
    }
    fn __pop_Variant2<
      'input,
      's,
      T,
    >(
        __symbols: &mut alloc::vec::Vec<(usize,__Symbol<'input, 's, T>,usize)>
    ) -> (usize, alloc::vec::Vec<(&'input str, &'input str)>, usize)
     where T: Clone, T: std::fmt::Debug
     {
        match __symbols.pop() {
            Some((__l, __Symbol::Variant2(__v), __r)) => (__l, __v, __r),
            _ => __symbol_type_mismatch()
        }
    }
    fn __pop_Variant4<
      'input,
      's,
      T,
    >(
        __symbols: &mut alloc::vec::Vec<(usize,__Symbol<'input, 's, T>,usize)>
    ) -> (usize, alloc::vec::Vec<usize>, usize)
     where T: Clone, T: std::fmt::Debug
     {
        match __symbols.pop() {
            Some((__l, __Symbol::Variant4(__v), __r)) => (__l, __v, __r),
            _ => __symbol_type_mismatch()
        }
    }
    fn __pop_Variant3<
      'input,
      's,
      T,
    >(
        __symbols: &mut alloc::vec::Vec<(usize,__Symbol<'input, 's, T>,usize)>
    ) -> (usize, usize, usize)
     where T: Clone, T: std::fmt::Debug
     {
        match __symbols.pop() {
            Some((__l, __Symbol::Variant3(__v), __r)) => (__l, __v, __r),
            _ => __symbol_type_mismatch()
        }
    }
    fn __pop_Variant0<
      'input,
      's,
      T,
    >(
        __symbols: &mut alloc::vec::Vec<(usize,__Symbol<'input, 's, T>,usize)>
    ) -> (usize, &'input str, usize)
     where T: Clone, T: std::fmt::Debug
     {
        match __symbols.pop() {
            Some((__l, __Symbol::Variant0(__v), __r)) => (__l, __v, __r),
            _ => __symbol_type_mismatch()
        }
    }
    fn __reduce0<
        'input,
        's,
        T,
    >(
        name: &'s str,
        seed: &T,
        input: &'input str,
        __lookahead_start: Option<&usize>,
        __symbols: &mut alloc::vec::Vec<(usize,__Symbol<'input, 's, T>,usize)>,
        _: core::marker::PhantomData<(&'input (), &'s (), T)>,
    ) -> (usize, usize)
    where
        T: Clone,
        T: std::fmt::Debug,
    {
        // ("a" ",") = "a", "," => ActionFn(12);
        assert!(__symbols.len() >= 2);
        let __sym1 = __pop_Variant0(__symbols);
        let __sym0 = __pop_Variant0(__symbols);
        let __start = __sym0.0.clone();
        let __end = __sym1.2.clone();
        let __nt = super::__action12::<T>(name, seed, input, __sym0, __sym1);
        __symbols.push((__start, __Symbol::Variant1(__nt), __end));
        (2, 0)
    }
    fn __reduce1<
        'input,
        's,
        T,
    >(
        name: &'s str,
        seed: &T,
        input: &'input str,
        __lookahead_start: Option<&usize>,
        __symbols: &mut alloc::vec::Vec<(usize,__Symbol<'input, 's, T>,usize)>,
        _: core::marker::PhantomData<(&'input (), &'s (), T)>,
    ) -> (usize, usize)
    where
        T: Clone,
        T: std::fmt::Debug,
    {
        // ("a" ",")* =  => ActionFn(10);
        let __start = __lookahead_start.cloned().or_else(|| __symbols.last().map(|s| s.2.clone())).unwrap_or_default();
        let __end = __start.clone();
        let __nt = super::__action10::<T>(name, seed, input, &__start, &__end);
        __symbols.push((__start, __Symbol::Variant2(__nt), __end));
        (0, 1)
    }
    fn __reduce2<
        'input,
        's,
        T,
    >(
        name: &'s str,
        seed: &T,
        input: &'input str,
        __lookahead_start: Option<&usize>,
        __symbols: &mut alloc::vec::Vec<(usize,__Symbol<'input, 's, T>,usize)>,
        _: core::marker::PhantomData<(&'input (), &'s (), T)>,
    ) -> (usize, usize)
    where
        T: Clone,
        T: std::fmt::Debug,
    {
        // ("a" ",")* = ("a" ",")+ => ActionFn(11);
        let __sym0 = __pop_Variant2(__symbols);
        let __start = __sym0.0.clone();
        let __end = __sym0.2.clone();
        let __nt = super::__action11::<T>(name, seed, input, __sym0);
        __symbols.push((__start, __Symbol::Variant2(__nt), __end));
        (1, 1)
    }
    fn __reduce3<
        'input,
        's,
        T,
    >(
        name: &'s str,
        seed: &T,
        input: &'input str,
        __lookahead_start: Option<&usize>,
        __symbols: &mut alloc::vec::Vec<(usize,__Symbol<'input, 's, T>,usize)>,
        _: core::marker::PhantomData<(&'input (), &'s (), T)>,
    ) -> (usize, usize)
    where
        T: Clone,
        T: std::fmt::Debug,
    {
        // ("a" ",")+ = "a", "," => ActionFn(21);
        assert!(__symbols.len() >= 2);
        let __sym1 = __pop_Variant0(__symbols);
        let __sym0 = __pop_Variant0(__symbols);
        let __start = __sym0.0.clone();
        let __end = __sym1.2.clone();
        let __nt = super::__action21::<T>(name, seed, input, __sym0, __sym1);
        __symbols.push((__start, __Symbol::Variant2(__nt), __end));
        (2, 2)
    }
    fn __reduce4<
        'input,
        's,
        T,
    >(
        name: &'s str,
        seed: &T,
        input: &'input str,
        __lookahead_start: Option<&usize>,
        __symbols: &mut alloc::vec::Vec<(usize,__Symbol<'input, 's, T>,usize)>,
        _: core::marker::PhantomData<(&'input (), &'s (), T)>,
    ) -> (usize, usize)
    where
        T: Clone,
        T: std::fmt::Debug,
    {
        // ("a" ",")+ = ("a" ",")+, "a", "," => ActionFn(22);
        assert!(__symbols.len() >= 3);
        let __sym2 = __pop_Variant0(__symbols);
        let __sym1 = __pop_Variant0(__symbols);
        let __sym0 = __pop_Variant2(__symbols);
        let __start = __sym0.0.clone();
        let __end = __sym2.2.clone();
        let __nt = super::__action22::<T>(name, seed, input, __sym0, __sym1, __sym2);
        __symbols.push((__start, __Symbol::Variant2(__nt), __end));
        (3, 2)
    }
    fn __reduce5<
        'input,
        's,
        T,
    >(
        name: &'s str,
        seed: &T,
        input: &'input str,
        __lookahead_start: Option<&usize>,
        __symbols: &mut alloc::vec::Vec<(usize,__Symbol<'input, 's, T>,usize)>,
        _: core::marker::PhantomData<(&'input (), &'s (), T)>,
    ) -> (usize, usize)
    where
        T: Clone,
        T: std::fmt::Debug,
    {
        // @L =  => ActionFn(16);
        let __start = __lookahead_start.cloned().or_else(|| __symbols.last().map(|s| s.2.clone())).unwrap_or_default();
        let __end = __start.clone();
        let __nt = super::__action16::<T>(name, seed, input, &__start, &__end);
        __symbols.push((__start, __Symbol::Variant3(__nt), __end));
        (0, 3)
    }
    fn __reduce6<
        'input,
        's,
        T,
    >(
        name: &'s str,
        seed: &T,
        input: &'input str,
        __lookahead_start: Option<&usize>,
        __symbols: &mut alloc::vec::Vec<(usize,__Symbol<'input, 's, T>,usize)>,
        _: core::marker::PhantomData<(&'input (), &'s (), T)>,
    ) -> (usize, usize)
    where
        T: Clone,
        T: std::fmt::Debug,
    {
        // @R =  => ActionFn(13);
        let __start = __lookahead_start.cloned().or_else(|| __symbols.last().map(|s| s.2.clone())).unwrap_or_default();
        let __end = __start.clone();
        let __nt = super::__action13::<T>(name, seed, input, &__start, &__end);
        __symbols.push((__start, __Symbol::Variant3(__nt), __end));
        (0, 4)
    }
    fn __reduce7<
        'input,
        's,
        T,
    >(
        name: &'s str,
        seed: &T,
        input: &'input str,
        __lookahead_start: Option<&usize>,
        __symbols: &mut alloc::vec::Vec<(usize,__Symbol<'input, 's, T>,usize)>,
        _: core::marker::PhantomData<(&'input (), &'s (), T)>,
    ) -> (usize, usize)
    where
        T: Clone,
        T: std::fmt::Debug,
    {
        // Item = N0, "," => ActionFn(2);
        assert!(__symbols.len() >= 2);
        let __sym1 = __pop_Variant0(__symbols);
        let __sym0 = __pop_Variant3(__symbols);
        let __start = __sym0.0.clone();
        let __end = __sym1.2.clone();
        let __nt = super::__action2::<T>(name, seed, input, __sym0, __sym1);
        __symbols.push((__start, __Symbol::Variant3(__nt), __end));
        (2, 5)
    }
    fn __reduce8<
        'input,
        's,
        T,
    >(
        name: &'s str,
        seed: &T,
        input: &'input str,
        __lookahead_start: Option<&usize>,
        __symbols: &mut alloc::vec::Vec<(usize,__Symbol<'input, 's, T>,usize)>,
        _: core::marker::PhantomData<(&'input (), &'s (), T)>,
    ) -> (usize, usize)
    where
        T: Clone,
        T: std::fmt::Debug,
    {
        // Item* =  => ActionFn(14);
        let __start = __lookahead_start.cloned().or_else(|| __symbols.last().map(|s| s.2.clone())).unwrap_or_default();
        let __end = __start.clone();
        let __nt = super::__action14::<T>(name, seed, input, &__start, &__end);
        __symbols.push((__start, __Symbol::Variant4(__nt), __end));
        (0, 6)
    }
    fn __reduce9<
        'input,
        's,
        T,
    >(
        name: &'s str,
        seed: &T,
        input: &'input str,
        __lookahead_start: Option<&usize>,
        __symbols: &mut alloc::vec::Vec<(usize,__Symbol<'input, 's, T>,usize)>,
        _: core::marker::PhantomData<(&'input (), &'s (), T)>,
    ) -> (usize, usize)
    where
        T: Clone,
        T: std::fmt::Debug,
    {
        // Item* = Item+ => ActionFn(15);
        let __sym0 = __pop_Variant4(__symbols);
        let __start = __sym0.0.clone();
        let __end = __sym0.2.clone();
        let __nt = super::__action15::<T>(name, seed, input, __sym0);
        __symbols.push((__start, __Symbol::Variant4(__nt), __end));
        (1, 6)
    }
    fn __reduce10<
        'input,
        's,
        T,
    >(
        name: &'s str,
        seed: &T,
        input: &'input str,
        __lookahead_start: Option<&usize>,
        __symbols: &mut alloc::vec::Vec<(usize,__Symbol<'input, 's, T>,usize)>,
        _: core::marker::PhantomData<(&'input (), &'s (), T)>,
    ) -> (usize, usize)
    where
        T: Clone,
        T: std::fmt::Debug,
    {
        // Item+ = Item => ActionFn(17);
        let __sym0 = __pop_Variant3(__symbols);
        let __start = __sym0.0.clone();
        let __end = __sym0.2.clone();
        let __nt = super::__action17::<T>(name, seed, input, __sym0);
        __symbols.push((__start, __Symbol::Variant4(__nt), __end));
        (1, 7)
    }
    fn __reduce11<
        'input,
        's,
        T,
    >(
        name: &'s str,
        seed: &T,
        input: &'input str,
        __lookahead_start: Option<&usize>,
        __symbols: &mut alloc::vec::Vec<(usize,__Symbol<'input, 's, T>,usize)>,
        _: core::marker::PhantomData<(&'input (), &'s (), T)>,
    ) -> (usize, usize)
    where
        T: Clone,
        T: std::fmt::Debug,
    {
        // Item+ = Item+, Item => ActionFn(18);
        assert!(__symbols.len() >= 2);
        let __sym1 = __pop_Variant3(__symbols);
        let __sym0 = __pop_Variant4(__symbols);
        let __start = __sym0.0.clone();
        let __end = __sym1.2.clone();
        let __nt = super::__action18::<T>(name, seed, input, __sym0, __sym1);
        __symbols.push((__start, __Symbol::Variant4(__nt), __end));
        (2, 7)
    }
    fn __reduce12<
        'input,
        's,
        T,
    >(
        name: &'s str,
        seed: &T,
        input: &'input str,
        __lookahead_start: Option<&usize>,
        __symbols: &mut alloc::vec::Vec<(usize,__Symbol<'input, 's, T>,usize)>,
        _: core::marker::PhantomData<(&'input (), &'s (), T)>,
    ) -> (usize, usize)
    where
        T: Clone,
        T: std::fmt::Debug,
    {
        // N0 = N2, "c", "c" => ActionFn(3);
        assert!(__symbols.len() >= 3);
        let __sym2 = __pop_Variant0(__symbols);
        let __sym1 = __pop_Variant0(__symbols);
        let __sym0 = __pop_Variant3(__symbols);
        let __start = __sym0.0.clone();
        let __end = __sym2.2.clone();
        let __nt = super::__action3::<T>(name, seed, input, __sym0, __sym1, __sym2);
        __symbols.push((__start, __Symbol::Variant3(__nt), __end));
        (3, 8)
    }
    fn __reduce13<
        'input,
        's,
        T,
    >(
        name: &'s str,
        seed: &T,
        input: &'input str,
        __lookahead_start: Option<&usize>,
        __symbols: &mut alloc::vec::Vec<(usize,__Symbol<'input, 's, T>,usize)>,
        _: core::marker::PhantomData<(&'input (), &'s (), T)>,
    ) -> (usize, usize)
    where
        T: Clone,
        T: std::fmt::Debug,
    {
        // N0 = "d", "d", N2 => ActionFn(4);
        assert!(__symbols.len() >= 3);
        let __sym2 = __pop_Variant3(__symbols);
        let __sym1 = __pop_Variant0(__symbols);
        let __sym0 = __pop_Variant0(__symbols);
        let __start = __sym0.0.clone();
        let __end = __sym2.2.clone();
        let __nt = super::__action4::<T>(name, seed, input, __sym0, __sym1, __sym2);
        __symbols.push((__start, __Symbol::Variant3(__nt), __end));
        (3, 8)
    }
    fn __reduce14<
        'input,
        's,
        T,
    >(
        name: &'s str,
        seed: &T,
        input: &'input str,
        __lookahead_start: Option<&usize>,
        __symbols: &mut alloc::vec::Vec<(usize,__Symbol<'input, 's, T>,usize)>,
        _: core::marker::PhantomData<(&'input (), &'s (), T)>,
    ) -> (usize, usize)
    where
        T: Clone,
        T: std::fmt::Debug,
    {
        // N1 = N2, "c", N2 => ActionFn(5);
        assert!(__symbols.len() >= 3);
        let __sym2 = __pop_Variant3(__symbols);
        let __sym1 = __pop_Variant0(__symbols);
        let __sym0 = __pop_Variant3(__symbols);
        let __start = __sym0.0.clone();
        let __end = __sym2.2.clone();
        let __nt = super::__action5::<T>(name, seed, input, __sym0, __sym1, __sym2);
        __symbols.push((__start, __Symbol::Variant3(__nt), __end));
        (3, 9)
    }
    fn __reduce15<
        'input,
        's,
        T,
    >(
        name: &'s str,
        seed: &T,
        input: &'input str,
        __lookahead_start: Option<&usize>,
        __symbols: &mut alloc::vec::Vec<(usize,__Symbol<'input, 's, T>,usize)>,
        _: core::marker::PhantomData<(&'input (), &'s (), T)>,
    ) -> (usize, usize)
    where
        T: Clone,
        T: std::fmt::Debug,
    {
        // N1 = "d", N1, "d" => ActionFn(6);
        assert!(__symbols.len() >= 3);
        let __sym2 = __pop_Variant0(__symbols);
        let __sym1 = __pop_Variant3(__symbols);
        let __sym0 = __pop_Variant0(__symbols);
        let __start = __sym0.0.clone();
        let __end = __sym2.2.clone();
        let __nt = super::__action6::<T>(name, seed, input, __sym0, __sym1, __sym2);
        __symbols.push((__start, __Symbol::Variant3(__nt), __end));
        (3, 9)
    }
    fn __reduce16<
        'input,
        's,
        T,
    >(
        name: &'s str,
        seed: &T,
        input: &'input str,
        __lookahead_start: Option<&usize>,
        __symbols: &mut alloc::vec::Vec<(usize,__Symbol<'input, 's, T>,usize)>,
        _: core::marker::PhantomData<(&'input (), &'s (), T)>,
    ) -> (usize, usize)
    where
        T: Clone,
        T: std::fmt::Debug,
    {
        // N2 = N3, "c", N3 => ActionFn(7);
        assert!(__symbols.len() >= 3);
        let __sym2 = __pop_Variant2(__symbols);
        let __sym1 = __pop_Variant0(__symbols);
        let __sym0 = __pop_Variant2(__symbols);
        let __start = __sym0.0.clone();
        let __end = __sym2.2.clone();
        let __nt = super::__action7::<T>(name, seed, input, __sym0, __sym1, __sym2);
        __symbols.push((__start, __Symbol::Variant3(__nt), __end));
        (3, 10)
    }
    fn __reduce17<
        'input,
        's,
        T,
    >(
        name: &'s str,
        seed: &T,
        input: &'input str,
        __lookahead_start: Option<&usize>,
        __symbols: &mut alloc::vec::Vec<(usize,__Symbol<'input, 's, T>,usize)>,
        _: core::marker::PhantomData<(&'input (), &'s (), T)>,
    ) -> (usize, usize)
    where
        T: Clone,
        T: std::fmt::Debug,
    {
        // N2 = "d", N2, "d" => ActionFn(8);
        assert!(__symbols.len() >= 3);
        let __sym2 = __pop_Variant0(__symbols);
        let __sym1 = __pop_Variant3(__symbols);
        let __sym0 = __pop_Variant0(__symbols);
        let __start = __sym0.0.clone();
        let __end = __sym2.2.clone();
        let __nt = super::__action8::<T>(name, seed, input, __sym0, __sym1, __sym2);
        __symbols.push((__start, __Symbol::Variant3(__nt), __end));
        (3, 10)
    }
    fn __reduce18<
        'input,
        's,
        T,
    >(
        name: &'s str,
        seed: &T,
        input: &'input str,
        __lookahead_start: Option<&usize>,
        __symbols: &mut alloc::vec::Vec<(usize,__Symbol<'input, 's, T>,usize)>,
        _: core::marker::PhantomData<(&'input (), &'s (), T)>,
    ) -> (usize, usize)
    where
        T: Clone,
        T: std::fmt::Debug,
    {
        // N3 =  => ActionFn(23);
        let __start = __lookahead_start.cloned().or_else(|| __symbols.last().map(|s| s.2.clone())).unwrap_or_default();
        let __end = __start.clone();
        let __nt = super::__action23::<T>(name, seed, input, &__start, &__end);
        __symbols.push((__start, __Symbol::Variant2(__nt), __end));
        (0, 11)
    }
    fn __reduce19<
        'input,
        's,
        T,
    >(
        name: &'s str,
        seed: &T,
        input: &'input str,
        __lookahead_start: Option<&usize>,
        __symbols: &mut alloc::vec::Vec<(usize,__Symbol<'input, 's, T>,usize)>,
        _: core::marker::PhantomData<(&'input (), &'s (), T)>,
    ) -> (usize, usize)
    where
        T: Clone,
        T: std::fmt::Debug,
    {
        // N3 = ("a" ",")+ => ActionFn(24);
        let __sym0 = __pop_Variant2(__symbols);
        let __start = __sym0.0.clone();
        let __end = __sym0.2.clone();
        let __nt = super::__action24::<T>(name, seed, input, __sym0);
        __symbols.push((__start, __Symbol::Variant2(__nt), __end));
        (1, 11)
    }
    fn __reduce20<
        'input,
        's,
        T,
    >(
        name: &'s str,
        seed: &T,
        input: &'input str,
        __lookahead_start: Option<&usize>,
        __symbols: &mut alloc::vec::Vec<(usize,__Symbol<'input, 's, T>,usize)>,
        _: core::marker::PhantomData<(&'input (), &'s (), T)>,
    ) -> (usize, usize)
    where
        T: Clone,
        T: std::fmt::Debug,
    {
        // S =  => ActionFn(27);
        let __start = __lookahead_start.cloned().or_else(|| __symbols.last().map(|s| s.2.clone())).unwrap_or_default();
        let __end = __start.clone();
        let __nt = super::__action27::<T>(name, seed, input, &__start, &__end);
        __symbols.push((__start, __Symbol::Variant5(__nt), __end));
        (0, 12)
    }
    fn __reduce21<
        'input,
        's,
        T,
    >(
        name: &'s str,
        seed: &T,
        input: &'input str,
        __lookahead_start: Option<&usize>,
        __symbols: &mut alloc::vec::Vec<(usize,__Symbol<'input, 's, T>,usize)>,
        _: core::marker::PhantomData<(&'input (), &'s (), T)>,
    ) -> (usize, usize)
    where
        T: Clone,
        T: std::fmt::Debug,
    {
        // S = Item+ => ActionFn(28);
        let __sym0 = __pop_Variant4(__symbols);
        let __start = __sym0.0.clone();
        let __end = __sym0.2.clone();
        let __nt = super::__action28::<T>(name, seed, input, __sym0);
        __symbols.push((__start, __Symbol::Variant5(__nt), __end));
        (1, 12)
    }
}
#[allow(unused_imports)]
pub use self::__parse__S::SParser;
#[rustfmt::skip]
mod __intern_token {
    #![allow(unused_imports)]
    use crate::support::*;
    #[allow(unused_extern_crates)]
    extern crate lalrpop_util as __lalrpop_util;
    #[allow(unused_imports)]
    use self::__lalrpop_util::state_machine as __state_machine;
    #[allow(unused_extern_crates)]
    extern crate alloc;
    pub fn new_builder() -> __lalrpop_util::lexer::MatcherBuilder {
        let __strs: &[(&str, bool)] = &[
            (",", false),
            ("a", false),
            ("c", false),
            ("d", false),
            (r"\s+", true),
        ];
        __lalrpop_util::lexer::MatcherBuilder::new(__strs.iter().copied()).unwrap()
    }
}
pub(crate) use self::__lalrpop_util::lexer::Token;

#[allow(unused_variables)]
#[allow(clippy::too_many_arguments, clippy::needless_lifetimes, clippy::just_underscores_and_digits, clippy::extra_unused_type_parameters)]
fn __action0<
    'input,
    's,
    T,
>(
    name: &'s str,
    seed: &T,
    input: &'input str,
    (_, __0, _): (usize, Ast<'s, (usize, T)>, usize),
) -> Ast<'s, (usize, T)>
where
    T: Clone,
    T: std::fmt::Debug,
{
    __0
}

#[allow(unused_variables)]
#[allow(clippy::too_many_arguments, clippy::needless_lifetimes, clippy::just_underscores_and_digits, clippy::extra_unused_type_parameters)]
fn __action1<
    'input,
    's,
    T,
>(
    name: &'s str,
    seed: &T,
    input: &'input str,
    (_, l, _): (usize, usize, usize),
    (_, xs, _): (usize, alloc::vec::Vec<usize>, usize),
    (_, r, _): (usize, usize, usize),
) -> Ast<'s, (usize, T)>
where
    T: Clone,
    T: std::fmt::Debug,
{
    { let _ = (&l, &r); Ast { name, items: xs.into_iter().map(|x| (x, seed.clone())).collect() } }
}

#[allow(unused_variables)]
#[allow(clippy::too_many_arguments, clippy::needless_lifetimes, clippy::just_underscores_and_digits, clippy::extra_unused_type_parameters)]
fn __action2<
    'input,
    's,
    T,
>(
    name: &'s str,
    seed: &T,
    input: &'input str,
    (_, x, _): (usize, usize, usize),
    (_, _, _): (usize, &'input str, usize),
) -> usize
where
    T: Clone,
    T: std::fmt::Debug,
{
    sz(&x)
}

#[allow(unused_variables)]
#[allow(clippy::too_many_arguments, clippy::needless_lifetimes, clippy::just_underscores_and_digits, clippy::extra_unused_type_parameters)]
fn __action3<
    'input,
    's,
    T,
>(
    name: &'s str,
    seed: &T,
    input: &'input str,
    (_, __0, _): (usize, usize, usize),
    (_, _, _): (usize, &'input str, usize),
    (_, _, _): (usize, &'input str, usize),
) -> usize
where
    T: Clone,
    T: std::fmt::Debug,
{
    __0
}

#[allow(unused_variables)]
#[allow(clippy::too_many_arguments, clippy::needless_lifetimes, clippy::just_underscores_and_digits, clippy::extra_unused_type_parameters)]
fn __action4<
    'input,
    's,
    T,
>(
    name: &'s str,
    seed: &T,
    input: &'input str,
    (_, _, _): (usize, &'input str, usize),
    (_, _, _): (usize, &'input str, usize),
    (_, __0, _): (usize, usize, usize),
) -> usize
where
    T: Clone,
    T: std::fmt::Debug,
{
    __0
}

#[allow(unused_variables)]
#[allow(clippy::too_many_arguments, clippy::needless_lifetimes, clippy::just_underscores_and_digits, clippy::extra_unused_type_parameters)]
fn __action5<
    'input,
    's,
    T,
>(
    name: &'s str,
    seed: &T,
    input: &'input str,
    (_, x, _): (usize, usize, usize),
    (_, _, _): (usize, &'input str, usize),
    (_, y, _): (usize, usize, usize),
) -> usize
where
    T: Clone,
    T: std::fmt::Debug,
{
    sz(&x) + sz(&y)
}

#[allow(unused_variables)]
#[allow(clippy::too_many_arguments, clippy::needless_lifetimes, clippy::just_underscores_and_digits, clippy::extra_unused_type_parameters)]
fn __action6<
    'input,
    's,
    T,
>(
    name: &'s str,
    seed: &T,
    input: &'input str,
    (_, _, _): (usize, &'input str, usize),
    (_, n, _): (usize, usize, usize),
    (_, _, _): (usize, &'input str, usize),
) -> usize
where
    T: Clone,
    T: std::fmt::Debug,
{
    n + 1
}

#[allow(unused_variables)]
#[allow(clippy::too_many_arguments, clippy::needless_lifetimes, clippy::just_underscores_and_digits, clippy::extra_unused_type_parameters)]
fn __action7<
    'input,
    's,
    T,
>(
    name: &'s str,
    seed: &T,
    input: &'input str,
    (_, x, _): (usize, alloc::vec::Vec<(&'input str, &'input str)>, usize),
    (_, _, _): (usize, &'input str, usize),
    (_, y, _): (usize, alloc::vec::Vec<(&'input str, &'input str)>, usize),
) -> usize
where
    T: Clone,
    T: std::fmt::Debug,
{
    sz(&x) + sz(&y)
}

#[allow(unused_variables)]
#[allow(clippy::too_many_arguments, clippy::needless_lifetimes, clippy::just_underscores_and_digits, clippy::extra_unused_type_parameters)]
fn __action8<
    'input,
    's,
    T,
>(
    name: &'s str,
    seed: &T,
    input: &'input str,
    (_, _, _): (usize, &'input str, usize),
    (_, n, _): (usize, usize, usize),
    (_, _, _): (usize, &'input str, usize),
) -> usize
where
    T: Clone,
    T: std::fmt::Debug,
{
    n + 1
}

#[allow(unused_variables)]
#[allow(clippy::too_many_arguments, clippy::needless_lifetimes, clippy::just_underscores_and_digits, clippy::extra_unused_type_parameters)]
fn __action9<
    'input,
    's,
    T,
>(
    name: &'s str,
    seed: &T,
    input: &'input str,
    (_, __0, _): (usize, alloc::vec::Vec<(&'input str, &'input str)>, usize),
) -> alloc::vec::Vec<(&'input str, &'input str)>
where
    T: Clone,
    T: std::fmt::Debug,
{
    __0
}

#[allow(unused_variables)]
#[allow(clippy::too_many_arguments, clippy::needless_lifetimes, clippy::just_underscores_and_digits, clippy::extra_unused_type_parameters)]
fn __action10<
    'input,
    's,
    T,
>(
    name: &'s str,
    seed: &T,
    input: &'input str,
    __lookbehind: &usize,
    __lookahead: &usize,
) -> alloc::vec::Vec<(&'input str, &'input str)>
where
    T: Clone,
    T: std::fmt::Debug,
{
    alloc::vec![]
}

#[allow(unused_variables)]
#[allow(clippy::too_many_arguments, clippy::needless_lifetimes, clippy::just_underscores_and_digits, clippy::extra_unused_type_parameters)]
fn __action11<
    'input,
    's,
    T,
>(
    name: &'s str,
    seed: &T,
    input: &'input str,
    (_, v, _): (usize, alloc::vec::Vec<(&'input str, &'input str)>, usize),
) -> alloc::vec::Vec<(&'input str, &'input str)>
where
    T: Clone,
    T: std::fmt::Debug,
{
    v
}

#[allow(unused_variables)]
#[allow(clippy::too_many_arguments, clippy::needless_lifetimes, clippy::just_underscores_and_digits, clippy::extra_unused_type_parameters)]
fn __action12<
    'input,
    's,
    T,
>(
    name: &'s str,
    seed: &T,
    input: &'input str,
    (_, __0, _): (usize, &'input str, usize),
    (_, __1, _): (usize, &'input str, usize),
) -> (&'input str, &'input str)
where
    T: Clone,
    T: std::fmt::Debug,
{
    (__0, __1)
}

#[allow(unused_variables)]
#[allow(clippy::needless_lifetimes, clippy::clone_on_copy)]
fn __action13<
    'input,
    's,
    T,
>(
    name: &'s str,
    seed: &T,
    input: &'input str,
    __lookbehind: &usize,
    __lookahead: &usize,
) -> usize
where
    T: Clone,
    T: std::fmt::Debug,
{
    __lookbehind.clone()
}

#[allow(unused_variables)]
#[allow(clippy::too_many_arguments, clippy::needless_lifetimes, clippy::just_underscores_and_digits, clippy::extra_unused_type_parameters)]
fn __action14<
    'input,
    's,
    T,
>(
    name: &'s str,
    seed: &T,
    input: &'input str,
    __lookbehind: &usize,
    __lookahead: &usize,
) -> alloc::vec::Vec<usize>
where
    T: Clone,
    T: std::fmt::Debug,
{
    alloc::vec![]
}

#[allow(unused_variables)]
#[allow(clippy::too_many_arguments, clippy::needless_lifetimes, clippy::just_underscores_and_digits, clippy::extra_unused_type_parameters)]
fn __action15<
    'input,
    's,
    T,
>(
    name: &'s str,
    seed: &T,
    input: &'input str,
    (_, v, _): (usize, alloc::vec::Vec<usize>, usize),
) -> alloc::vec::Vec<usize>
where
    T: Clone,
    T: std::fmt::Debug,
{
    v
}

#[allow(unused_variables)]
#[allow(clippy::needless_lifetimes, clippy::clone_on_copy)]
fn __action16<
    'input,
    's,
    T,
>(
    name: &'s str,
    seed: &T,
    input: &'input str,
    __lookbehind: &usize,
    __lookahead: &usize,
) -> usize
where
    T: Clone,
    T: std::fmt::Debug,
{
    __lookahead.clone()
}

#[allow(unused_variables)]
#[allow(clippy::too_many_arguments, clippy::needless_lifetimes, clippy::just_underscores_and_digits, clippy::extra_unused_type_parameters)]
fn __action17<
    'input,
    's,
    T,
>(
    name: &'s str,
    seed: &T,
    input: &'input str,
    (_, __0, _): (usize, usize, usize),
) -> alloc::vec::Vec<usize>
where
    T: Clone,
    T: std::fmt::Debug,
{
    alloc::vec![__0]
}

#[allow(unused_variables)]
#[allow(clippy::too_many_arguments, clippy::needless_lifetimes, clippy::just_underscores_and_digits, clippy::extra_unused_type_parameters)]
fn __action18<
    'input,
    's,
    T,
>(
    name: &'s str,
    seed: &T,
    input: &'input str,
    (_, v, _): (usize, alloc::vec::Vec<usize>, usize),
    (_, e, _): (usize, usize, usize),
) -> alloc::vec::Vec<usize>
where
    T: Clone,
    T: std::fmt::Debug,
{
    { let mut v = v; v.push(e); v }
}

#[allow(unused_variables)]
#[allow(clippy::too_many_arguments, clippy::needless_lifetimes, clippy::just_underscores_and_digits, clippy::extra_unused_type_parameters)]
fn __action19<
    'input,
    's,
    T,
>(
    name: &'s str,
    seed: &T,
    input: &'input str,
    (_, __0, _): (usize, (&'input str, &'input str), usize),
) -> alloc::vec::Vec<(&'input str, &'input str)>
where
    T: Clone,
    T: std::fmt::Debug,
{
    alloc::vec![__0]
}

#[allow(unused_variables)]
#[allow(clippy::too_many_arguments, clippy::needless_lifetimes, clippy::just_underscores_and_digits, clippy::extra_unused_type_parameters)]
fn __action20<
    'input,
    's,
    T,
>(
    name: &'s str,
    seed: &T,
    input: &'input str,
    (_, v, _): (usize, alloc::vec::Vec<(&'input str, &'input str)>, usize),
    (_, e, _): (usize, (&'input str, &'input str), usize),
) -> alloc::vec::Vec<(&'input str, &'input str)>
where
    T: Clone,
    T: std::fmt::Debug,
{
    { let mut v = v; v.push(e); v }
}

#[allow(unused_variables)]
#[allow(clippy::too_many_arguments, clippy::needless_lifetimes,
    clippy::just_underscores_and_digits, clippy::clone_on_copy, clippy::unit_arg)]
fn __action21<
    'input,
    's,
    T,
>(
    name: &'s str,
    seed: &T,
    input: &'input str,
    __0: (usize, &'input str, usize),
    __1: (usize, &'input str, usize),
) -> alloc::vec::Vec<(&'input str, &'input str)>
where
    T: Clone,
    T: std::fmt::Debug,
{
    let __start0 = __0.0.clone();
    let __end0 = __1.2.clone();
    let __temp0 = __action12::<
    T,
    >(
        name,
        seed,
        input,
        __0,
        __1,
    );
    let __temp0 = (__start0, __temp0, __end0);
    __action19::<
    T,
    >(
        name,
        seed,
        input,
        __temp0,
    )
}

#[allow(unused_variables)]
#[allow(clippy::too_many_arguments, clippy::needless_lifetimes,
    clippy::just_underscores_and_digits, clippy::clone_on_copy, clippy::unit_arg)]
fn __action22<
    'input,
    's,
    T,
>(
    name: &'s str,
    seed: &T,
    input: &'input str,
    __0: (usize, alloc::vec::Vec<(&'input str, &'input str)>, usize),
    __1: (usize, &'input str, usize),
    __2: (usize, &'input str, usize),
) -> alloc::vec::Vec<(&'input str, &'input str)>
where
    T: Clone,
    T: std::fmt::Debug,
{
    let __start0 = __1.0.clone();
    let __end0 = __2.2.clone();
    let __temp0 = __action12::<
    T,
    >(
        name,
        seed,
        input,
        __1,
        __2,
    );
    let __temp0 = (__start0, __temp0, __end0);
    __action20::<
    T,
    >(
        name,
        seed,
        input,
        __0,
        __temp0,
    )
}

#[allow(unused_variables)]
#[allow(clippy::too_many_arguments, clippy::needless_lifetimes,
    clippy::just_underscores_and_digits, clippy::clone_on_copy, clippy::unit_arg)]
fn __action23<
    'input,
    's,
    T,
>(
    name: &'s str,
    seed: &T,
    input: &'input str,
    __lookbehind: &usize,
    __lookahead: &usize,
) -> alloc::vec::Vec<(&'input str, &'input str)>
where
    T: Clone,
    T: std::fmt::Debug,
{
    let __start0 = __lookbehind.clone();
    let __end0 = __lookahead.clone();
    let __temp0 = __action10::<
    T,
    >(
        name,
        seed,
        input,
        &__start0,
        &__end0,
    );
    let __temp0 = (__start0, __temp0, __end0);
    __action9::<
    T,
    >(
        name,
        seed,
        input,
        __temp0,
    )
}

#[allow(unused_variables)]
#[allow(clippy::too_many_arguments, clippy::needless_lifetimes,
    clippy::just_underscores_and_digits, clippy::clone_on_copy, clippy::unit_arg)]
fn __action24<
    'input,
    's,
    T,
>(
    name: &'s str,
    seed: &T,
    input: &'input str,
    __0: (usize, alloc::vec::Vec<(&'input str, &'input str)>, usize),
) -> alloc::vec::Vec<(&'input str, &'input str)>
where
    T: Clone,
    T: std::fmt::Debug,
{
    let __start0 = __0.0.clone();
    let __end0 = __0.2.clone();
    let __temp0 = __action11::<
    T,
    >(
        name,
        seed,
        input,
        __0,
    );
    let __temp0 = (__start0, __temp0, __end0);
    __action9::<
    T,
    >(
        name,
        seed,
        input,
        __temp0,
    )
}

#[allow(unused_variables)]
#[allow(clippy::too_many_arguments, clippy::needless_lifetimes,
    clippy::just_underscores_and_digits, clippy::clone_on_copy, clippy::unit_arg)]
fn __action25<
    'input,
    's,
    T,
>(
    name: &'s str,
    seed: &T,
    input: &'input str,
    __0: (usize, alloc::vec::Vec<usize>, usize),
    __1: (usize, usize, usize),
) -> Ast<'s, (usize, T)>
where
    T: Clone,
    T: std::fmt::Debug,
{
    let __start0 = __0.0.clone();
    let __end0 = __0.0.clone();
    let __temp0 = __action16::<
    T,
    >(
        name,
        seed,
        input,
        &__start0,
        &__end0,
    );
    let __temp0 = (__start0, __temp0, __end0);
    __action1::<
    T,
    >(
        name,
        seed,
        input,
        __temp0,
        __0,
        __1,
    )
}

#[allow(unused_variables)]
#[allow(clippy::too_many_arguments, clippy::needless_lifetimes,
    clippy::just_underscores_and_digits, clippy::clone_on_copy, clippy::unit_arg)]
fn __action26<
    'input,
    's,
    T,
>(
    name: &'s str,
    seed: &T,
    input: &'input str,
    __0: (usize, alloc::vec::Vec<usize>, usize),
) -> Ast<'s, (usize, T)>
where
    T: Clone,
    T: std::fmt::Debug,
{
    let __start0 = __0.2.clone();
    let __end0 = __0.2.clone();
    let __temp0 = __action13::<
    T,
    >(
        name,
        seed,
        input,
        &__start0,
        &__end0,
    );
    let __temp0 = (__start0, __temp0, __end0);
    __action25::<
    T,
    >(
        name,
        seed,
        input,
        __0,
        __temp0,
    )
}

#[allow(unused_variables)]
#[allow(clippy::too_many_arguments, clippy::needless_lifetimes,
    clippy::just_underscores_and_digits, clippy::clone_on_copy, clippy::unit_arg)]
fn __action27<
    'input,
    's,
    T,
>(
    name: &'s str,
    seed: &T,
    input: &'input str,
    __lookbehind: &usize,
    __lookahead: &usize,
) -> Ast<'s, (usize, T)>
where
    T: Clone,
    T: std::fmt::Debug,
{
    let __start0 = __lookbehind.clone();
    let __end0 = __lookahead.clone();
    let __temp0 = __action14::<
    T,
    >(
        name,
        seed,
        input,
        &__start0,
        &__end0,
    );
    let __temp0 = (__start0, __temp0, __end0);
    __action26::<
    T,
    >(
        name,
        seed,
        input,
        __temp0,
    )
}

#[allow(unused_variables)]
#[allow(clippy::too_many_arguments, clippy::needless_lifetimes,
    clippy::just_underscores_and_digits, clippy::clone_on_copy, clippy::unit_arg)]
fn __action28<
    'input,
    's,
    T,
>(
    name: &'s str,
    seed: &T,
    input: &'input str,
    __0: (usize, alloc::vec::Vec<usize>, usize),
) -> Ast<'s, (usize, T)>
where
    T: Clone,
    T: std::fmt::Debug,
{
    let __start0 = __0.0.clone();
    let __end0 = __0.2.clone();
    let __temp0 = __action15::<
    T,
    >(
        name,
        seed,
        input,
        __0,
    );
    let __temp0 = (__start0, __temp0, __end0);
    __action26::<
    T,
    >(
        name,
        seed,
        input,
        __temp0,
    )
}

#[allow(clippy::type_complexity, dead_code)]
pub trait __ToTriple<'input, 's, T, >
where T: Clone,T: std::fmt::Debug
{
    fn to_triple(self) -> Result<(usize,Token<'input>,usize), __lalrpop_util::ParseError<usize, Token<'input>, &'static str>>;
}

impl<'input, 's, T, > __ToTriple<'input, 's, T, > for (usize, Token<'input>, usize)
where T: Clone,T: std::fmt::Debug
{
    fn to_triple(self) -> Result<(usize,Token<'input>,usize), __lalrpop_util::ParseError<usize, Token<'input>, &'static str>> {
        Ok(self)
    }
}
impl<'input, 's, T, > __ToTriple<'input, 's, T, > for Result<(usize, Token<'input>, usize), &'static str>
where T: Clone,T: std::fmt::Debug
{
    fn to_triple(self) -> Result<(usize,Token<'input>,usize), __lalrpop_util::ParseError<usize, Token<'input>, &'static str>> {
        self.map_err(|error| __lalrpop_util::ParseError::User { error })
    }
}
