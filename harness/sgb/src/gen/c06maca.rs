// auto-generated: "lalrpop 0.23.1"
// sha3: 06b063741d82145186a19636f60683837edd3c096ca04f70c5597c965f09c351
#[allow(unused_extern_crates)]
extern crate lalrpop_util as __lalrpop_util;
#[allow(unused_imports)]
use self::__lalrpop_util::state_machine as __state_machine;
#[allow(unused_extern_crates)]
extern crate alloc;

#[rustfmt::skip]
#[allow(explicit_outlives_requirements, non_snake_case, non_camel_case_types, unused_mut, unused_variables, unused_imports, unused_parens, clippy::needless_lifetimes, clippy::type_complexity, clippy::needless_return, clippy::too_many_arguments, clippy::match_single_binding, clippy::clone_on_copy, clippy::unit_arg)]
mod __parse__O {

    #[allow(unused_extern_crates)]
    extern crate lalrpop_util as __lalrpop_util;
    #[allow(unused_imports)]
    use self::__lalrpop_util::state_machine as __state_machine;
    #[allow(unused_extern_crates)]
    extern crate alloc;
    use self::__lalrpop_util::lexer::Token;
    pub struct OParser {
        builder: __lalrpop_util::lexer::MatcherBuilder,
        _priv: (),
    }

    impl Default for OParser { fn default() -> Self { Self::new() } }
    impl OParser {
        pub fn new() -> OParser {
            let __builder = super::__intern_token::new_builder();
            OParser {
                builder: __builder,
                _priv: (),
            }
        }

        #[allow(dead_code)]
        pub fn parse<
            'input,
        >(
            &self,
            input: &'input str,
        ) -> Result<((usize, usize), (usize, String, usize)), __lalrpop_util::ParseError<usize, Token<'input>, &'static str>>
        {
            let mut __tokens = self.builder.matcher(input);
            let __lookahead = match __tokens.next() {
                Some(Ok(v)) => Some(v),
                Some(Err(e)) => return Err(e),
                None => None,
            };
            match __state0(input, &mut __tokens, __lookahead, core::marker::PhantomData::<(&())>)? {
                (Some(__lookahead), _) => {
                    Err(__lalrpop_util::ParseError::ExtraToken { token: __lookahead })
                }
                (None, __Nonterminal::____O((_, __nt, _))) => {
                    Ok(__nt)
                }
                _ => unreachable!(),
            }
        }
    }

    #[allow(dead_code)]
    enum __Nonterminal<'input>
     {
        _22_21_22_3f((usize, Option<&'input str>, usize)),
        _40L((usize, usize, usize)),
        Gap_3c_22_28_22_2c_20_22_29_22_3e((usize, (usize, usize, usize), usize)),
        Id((usize, String, usize)),
        O((usize, ((usize, usize), (usize, String, usize)), usize)),
        Opt_3c_22_21_22_3e((usize, (usize, usize), usize)),
        P((usize, (usize, usize, usize), usize)),
        S((usize, Vec<(usize, String, usize)>, usize)),
        Sp_3cId_3e((usize, (usize, String, usize), usize)),
        ____O((usize, ((usize, usize), (usize, String, usize)), usize)),
        ____P((usize, (usize, usize, usize), usize)),
        ____S((usize, Vec<(usize, String, usize)>, usize)),
    }

    fn __state0<
        'input,
        __TOKENS: Iterator<Item=Result<(usize, Token<'input>, usize),__lalrpop_util::ParseError<usize, Token<'input>, &'static str>>>,
    >(
        input: &'input str,
        __tokens: &mut __TOKENS,
        __lookahead: Option<(usize, Token<'input>, usize)>,
        _: core::marker::PhantomData<(&'input ())>,
    ) -> Result<(Option<(usize, Token<'input>, usize)>, __Nonterminal<'input>), __lalrpop_util::ParseError<usize, Token<'input>, &'static str>>
    {
        let mut __result: (Option<(usize, Token<'input>, usize)>, __Nonterminal<'input>);
        match __lookahead {
            Some((__loc1, Token(1, __tok0), __loc2)) => {
                let __sym0 = (__loc1, (__tok0), __loc2);
                __result = __state3(input, __tokens, __sym0, core::marker::PhantomData::<(&())>)?;
            }
            Some((_, Token(0, _), _)) => {
                let __start: usize = __lookahead.as_ref().map(|o| o.0.clone()).unwrap_or_default();
                let __end = __start.clone();
                let __nt = super::__action18::<>(input, &__start, &__end);
                let __nt = __Nonterminal::Opt_3c_22_21_22_3e((
                    __start,
                    __nt,
                    __end,
                ));
                __result = (__lookahead, __nt);
            }
            _ => {
                #[allow(clippy::needless_raw_string_hashes)]
                let __expected = alloc::vec![
                    r###"r#"[a-z]+"#"###.to_string(),
                    r###""!""###.to_string(),
                ];
                return Err(
                    match __lookahead {
                        Some(__token) => {
                            __lalrpop_util::ParseError::UnrecognizedToken {
                                token: __token,
                                expected: __expected,
                            }
                        }
                        None => {
                            let __location = Default::default();
                            __lalrpop_util::ParseError::UnrecognizedEof {
                                location: __location,
                                expected: __expected,
                            }
                        }
                    }
                )
            }
        }
        #[allow(clippy::never_loop)]
        loop {
            let (__lookahead, __nt) = __result;
            match __nt {
                __Nonterminal::O(__sym0) => {
                    __result = __state2(input, __tokens, __lookahead, __sym0, core::marker::PhantomData::<(&())>)?;
                }
                __Nonterminal::Opt_3c_22_21_22_3e(__sym0) => {
                    __result = __state1(input, __tokens, __lookahead, __sym0, core::marker::PhantomData::<(&())>)?;
                }
                _ => {
                    return Ok((__lookahead, __nt));
                }
            }
        }
    }

    fn __state1<
        'input,
        __TOKENS: Iterator<Item=Result<(usize, Token<'input>, usize),__lalrpop_util::ParseError<usize, Token<'input>, &'static str>>>,
    >(
        input: &'input str,
        __tokens: &mut __TOKENS,
        __lookahead: Option<(usize, Token<'input>, usize)>,
        __sym0: (usize, (usize, usize), usize),
        _: core::marker::PhantomData<(&'input ())>,
    ) -> Result<(Option<(usize, Token<'input>, usize)>, __Nonterminal<'input>), __lalrpop_util::ParseError<usize, Token<'input>, &'static str>>
    {
        let mut __result: (Option<(usize, Token<'input>, usize)>, __Nonterminal<'input>);
        match __lookahead {
            Some((__loc1, Token(0, __tok0), __loc2)) => {
                let __sym1 = (__loc1, (__tok0), __loc2);
                __result = __state6(input, __tokens, __sym1, core::marker::PhantomData::<(&())>)?;
            }
            _ => {
                #[allow(clippy::needless_raw_string_hashes)]
                let __expected = alloc::vec![
                    r###"r#"[a-z]+"#"###.to_string(),
                ];
                return Err(
                    match __lookahead {
                        Some(__token) => {
                            __lalrpop_util::ParseError::UnrecognizedToken {
                                token: __token,
                                expected: __expected,
                            }
                        }
                        None => {
                            let __location = __sym0.2.clone();
                            __lalrpop_util::ParseError::UnrecognizedEof {
                                location: __location,
                                expected: __expected,
                            }
                        }
                    }
                )
            }
        }
        #[allow(clippy::never_loop)]
        loop {
            let (__lookahead, __nt) = __result;
            match __nt {
                __Nonterminal::Id(__sym1) => {
                    __result = __state4(input, __tokens, __lookahead, __sym1, core::marker::PhantomData::<(&())>)?;
                }
                __Nonterminal::Sp_3cId_3e(__sym1) => {
                    __result = __state5(input, __tokens, __lookahead, __sym0, __sym1, core::marker::PhantomData::<(&())>)?;
                    return Ok(__result);
                }
                _ => {
                    return Ok((__lookahead, __nt));
                }
            }
        }
    }

    fn __state2<
        'input,
        __TOKENS: Iterator<Item=Result<(usize, Token<'input>, usize),__lalrpop_util::ParseError<usize, Token<'input>, &'static str>>>,
    >(
        input: &'input str,
        __tokens: &mut __TOKENS,
        __lookahead: Option<(usize, Token<'input>, usize)>,
        __sym0: (usize, ((usize, usize), (usize, String, usize)), usize),
        _: core::marker::PhantomData<(&'input ())>,
    ) -> Result<(Option<(usize, Token<'input>, usize)>, __Nonterminal<'input>), __lalrpop_util::ParseError<usize, Token<'input>, &'static str>>
    {
        let mut __result: (Option<(usize, Token<'input>, usize)>, __Nonterminal<'input>);
        match __lookahead {
            None => {
                let __start = __sym0.0.clone();
                let __end = __sym0.2.clone();
                let __nt = super::__action2::<>(input, __sym0);
                let __nt = __Nonterminal::____O((
                    __start,
                    __nt,
                    __end,
                ));
                __result = (__lookahead, __nt);
                return Ok(__result);
            }
            _ => {
                #[allow(clippy::needless_raw_string_hashes)]
                let __expected = alloc::vec![
                ];
                return Err(
                    match __lookahead {
                        Some(__token) => {
                            __lalrpop_util::ParseError::UnrecognizedToken {
                                token: __token,
                                expected: __expected,
                            }
                        }
                        None => {
                            let __location = __sym0.2.clone();
                            __lalrpop_util::ParseError::UnrecognizedEof {
                                location: __location,
                                expected: __expected,
                            }
                        }
                    }
                )
            }
        }
    }

    fn __state3<
        'input,
        __TOKENS: Iterator<Item=Result<(usize, Token<'input>, usize),__lalrpop_util::ParseError<usize, Token<'input>, &'static str>>>,
    >(
        input: &'input str,
        __tokens: &mut __TOKENS,
        __sym0: (usize, &'input str, usize),
        _: core::marker::PhantomData<(&'input ())>,
    ) -> Result<(Option<(usize, Token<'input>, usize)>, __Nonterminal<'input>), __lalrpop_util::ParseError<usize, Token<'input>, &'static str>>
    {
        let mut __result: (Option<(usize, Token<'input>, usize)>, __Nonterminal<'input>);
        let __lookahead = match __tokens.next() {
            Some(Ok(v)) => Some(v),
            Some(Err(e)) => return Err(e),
            None => None,
        };
        match __lookahead {
            Some((_, Token(0, _), _)) => {
                let __start = __sym0.0.clone();
                let __end = __sym0.2.clone();
                let __nt = super::__action17::<>(input, __sym0);
                let __nt = __Nonterminal::Opt_3c_22_21_22_3e((
                    __start,
                    __nt,
                    __end,
                ));
                __result = (__lookahead, __nt);
                return Ok(__result);
            }
            _ => {
                #[allow(clippy::needless_raw_string_hashes)]
                let __expected = alloc::vec![
                    r###"r#"[a-z]+"#"###.to_string(),
                ];
                return Err(
                    match __lookahead {
                        Some(__token) => {
                            __lalrpop_util::ParseError::UnrecognizedToken {
                                token: __token,
                                expected: __expected,
                            }
                        }
                        None => {
                            let __location = __sym0.2.clone();
                            __lalrpop_util::ParseError::UnrecognizedEof {
                                location: __location,
                                expected: __expected,
                            }
                        }
                    }
                )
            }
        }
    }

    fn __state4<
        'input,
        __TOKENS: Iterator<Item=Result<(usize, Token<'input>, usize),__lalrpop_util::ParseError<usize, Token<'input>, &'static str>>>,
    >(
        input: &'input str,
        __tokens: &mut __TOKENS,
        __lookahead: Option<(usize, Token<'input>, usize)>,
        __sym0: (usize, String, usize),
        _: core::marker::PhantomData<(&'input ())>,
    ) -> Result<(Option<(usize, Token<'input>, usize)>, __Nonterminal<'input>), __lalrpop_util::ParseError<usize, Token<'input>, &'static str>>
    {
        let mut __result: (Option<(usize, Token<'input>, usize)>, __Nonterminal<'input>);
        match __lookahead {
            None => {
                let __start = __sym0.0.clone();
                let __end = __sym0.2.clone();
                let __nt = super::__action19::<>(input, __sym0);
                let __nt = __Nonterminal::Sp_3cId_3e((
                    __start,
                    __nt,
                    __end,
                ));
                __result = (__lookahead, __nt);
                return Ok(__result);
            }
            _ => {
                #[allow(clippy::needless_raw_string_hashes)]
                let __expected = alloc::vec![
                ];
                return Err(
                    match __lookahead {
                        Some(__token) => {
                            __lalrpop_util::ParseError::UnrecognizedToken {
                                token: __token,
                                expected: __expected,
                            }
                        }
                        None => {
                            let __location = __sym0.2.clone();
                            __lalrpop_util::ParseError::UnrecognizedEof {
                                location: __location,
                                expected: __expected,
                            }
                        }
                    }
                )
            }
        }
    }

    fn __state5<
        'input,
        __TOKENS: Iterator<Item=Result<(usize, Token<'input>, usize),__lalrpop_util::ParseError<usize, Token<'input>, &'static str>>>,
    >(
        input: &'input str,
        __tokens: &mut __TOKENS,
        __lookahead: Option<(usize, Token<'input>, usize)>,
        __sym0: (usize, (usize, usize), usize),
        __sym1: (usize, (usize, String, usize), usize),
        _: core::marker::PhantomData<(&'input ())>,
    ) -> Result<(Option<(usize, Token<'input>, usize)>, __Nonterminal<'input>), __lalrpop_util::ParseError<usize, Token<'input>, &'static str>>
    {
        let mut __result: (Option<(usize, Token<'input>, usize)>, __Nonterminal<'input>);
        match __lookahead {
            None => {
                let __start = __sym0.0.clone();
                let __end = __sym1.2.clone();
                let __nt = super::__action7::<>(input, __sym0, __sym1);
                let __nt = __Nonterminal::O((
                    __start,
                    __nt,
                    __end,
                ));
                __result = (__lookahead, __nt);
                return Ok(__result);
            }
            _ => {
                #[allow(clippy::needless_raw_string_hashes)]
                let __expected = alloc::vec![
                ];
                return Err(
                    match __lookahead {
                        Some(__token) => {
                            __lalrpop_util::ParseError::UnrecognizedToken {
                                token: __token,
                                expected: __expected,
                            }
                        }
                        None => {
                            let __location = __sym1.2.clone();
                            __lalrpop_util::ParseError::UnrecognizedEof {
                                location: __location,
                                expected: __expected,
                            }
                        }
                    }
                )
            }
        }
    }

    fn __state6<
        'input,
        __TOKENS: Iterator<Item=Result<(usize, Token<'input>, usize),__lalrpop_util::ParseError<usize, Token<'input>, &'static str>>>,
    >(
        input: &'input str,
        __tokens: &mut __TOKENS,
        __sym0: (usize, &'input str, usize),
        _: core::marker::PhantomData<(&'input ())>,
    ) -> Result<(Option<(usize, Token<'input>, usize)>, __Nonterminal<'input>), __lalrpop_util::ParseError<usize, Token<'input>, &'static str>>
    {
        let mut __result: (Option<(usize, Token<'input>, usize)>, __Nonterminal<'input>);
        let __lookahead = match __tokens.next() {
            Some(Ok(v)) => Some(v),
            Some(Err(e)) => return Err(e),
            None => None,
        };
        match __lookahead {
            None => {
                let __start = __sym0.0.clone();
                let __end = __sym0.2.clone();
                let __nt = super::__action5::<>(input, __sym0);
                let __nt = __Nonterminal::Id((
                    __start,
                    __nt,
                    __end,
                ));
                __result = (__lookahead, __nt);
                return Ok(__result);
            }
            _ => {
                #[allow(clippy::needless_raw_string_hashes)]
                let __expected = alloc::vec![
                ];
                return Err(
                    match __lookahead {
                        Some(__token) => {
                            __lalrpop_util::ParseError::UnrecognizedToken {
                                token: __token,
                                expected: __expected,
                            }
                        }
                        None => {
                            let __location = __sym0.2.clone();
                            __lalrpop_util::ParseError::UnrecognizedEof {
                                location: __location,
                                expected: __expected,
                            }
                        }
                    }
                )
            }
        }
    }
}
#[allow(unused_imports)]
pub use self::__parse__O::OParser;

#[rustfmt::skip]
#[allow(explicit_outlives_requirements, non_snake_case, non_camel_case_types, unused_mut, unused_variables, unused_imports, unused_parens, clippy::needless_lifetimes, clippy::type_complexity, clippy::needless_return, clippy::too_many_arguments, clippy::match_single_binding, clippy::clone_on_copy, clippy::unit_arg)]
mod __parse__P {

    #[allow(unused_extern_crates)]
    extern crate lalrpop_util as __lalrpop_util;
    #[allow(unused_imports)]
    use self::__lalrpop_util::state_machine as __state_machine;
    #[allow(unused_extern_crates)]
    extern crate alloc;
    use self::__lalrpop_util::lexer::Token;
    pub struct PParser {
        builder: __lalrpop_util::lexer::MatcherBuilder,
        _priv: (),
    }

    impl Default for PParser { fn default() -> Self { Self::new() } }
    impl PParser {
        pub fn new() -> PParser {
            let __builder = super::__intern_token::new_builder();
            PParser {
                builder: __builder,
                _priv: (),
            }
        }

        #[allow(dead_code)]
        pub fn parse<
            'input,
        >(
            &self,
            input: &'input str,
        ) -> Result<(usize, usize, usize), __lalrpop_util::ParseError<usize, Token<'input>, &'static str>>
        {
            let mut __tokens = self.builder.matcher(input);
            let __lookahead = match __tokens.next() {
                Some(Ok(v)) => Some(v),
                Some(Err(e)) => return Err(e),
                None => None,
            };
            match __state0(input, &mut __tokens, __lookahead, core::marker::PhantomData::<(&())>)? {
                (Some(__lookahead), _) => {
                    Err(__lalrpop_util::ParseError::ExtraToken { token: __lookahead })
                }
                (None, __Nonterminal::____P((_, __nt, _))) => {
                    Ok(__nt)
                }
                _ => unreachable!(),
            }
        }
    }

    #[allow(dead_code)]
    enum __Nonterminal<'input>
     {
        _22_21_22_3f((usize, Option<&'input str>, usize)),
        _40L((usize, usize, usize)),
        Gap_3c_22_28_22_2c_20_22_29_22_3e((usize, (usize, usize, usize), usize)),
        Id((usize, String, usize)),
        O((usize, ((usize, usize), (usize, String, usize)), usize)),
        Opt_3c_22_21_22_3e((usize, (usize, usize), usize)),
        P((usize, (usize, usize, usize), usize)),
        S((usize, Vec<(usize, String, usize)>, usize)),
        Sp_3cId_3e((usize, (usize, String, usize), usize)),
        ____O((usize, ((usize, usize), (usize, String, usize)), usize)),
        ____P((usize, (usize, usize, usize), usize)),
        ____S((usize, Vec<(usize, String, usize)>, usize)),
    }

    fn __state0<
        'input,
        __TOKENS: Iterator<Item=Result<(usize, Token<'input>, usize),__lalrpop_util::ParseError<usize, Token<'input>, &'static str>>>,
    >(
        input: &'input str,
        __tokens: &mut __TOKENS,
        __lookahead: Option<(usize, Token<'input>, usize)>,
        _: core::marker::PhantomData<(&'input ())>,
    ) -> Result<(Option<(usize, Token<'input>, usize)>, __Nonterminal<'input>), __lalrpop_util::ParseError<usize, Token<'input>, &'static str>>
    {
        let mut __result: (Option<(usize, Token<'input>, usize)>, __Nonterminal<'input>);
        match __lookahead {
            Some((__loc1, Token(2, __tok0), __loc2)) => {
                let __sym0 = (__loc1, (__tok0), __loc2);
                __result = __state3(input, __tokens, __sym0, core::marker::PhantomData::<(&())>)?;
            }
            _ => {
                #[allow(clippy::needless_raw_string_hashes)]
                let __expected = alloc::vec![
                    r###""(""###.to_string(),
                ];
                return Err(
                    match __lookahead {
                        Some(__token) => {
                            __lalrpop_util::ParseError::UnrecognizedToken {
                                token: __token,
                                expected: __expected,
                            }
                        }
                        None => {
                            let __location = Default::default();
                            __lalrpop_util::ParseError::UnrecognizedEof {
                                location: __location,
                                expected: __expected,
                            }
                        }
                    }
                )
            }
        }
        #[allow(clippy::never_loop)]
        loop {
            let (__lookahead, __nt) = __result;
            match __nt {
                __Nonterminal::Gap_3c_22_28_22_2c_20_22_29_22_3e(__sym0) => {
                    __result = __state1(input, __tokens, __lookahead, __sym0, core::marker::PhantomData::<(&())>)?;
                }
                __Nonterminal::P(__sym0) => {
                    __result = __state2(input, __tokens, __lookahead, __sym0, core::marker::PhantomData::<(&())>)?;
                }
                _ => {
                    return Ok((__lookahead, __nt));
                }
            }
        }
    }

    fn __state1<
        'input,
        __TOKENS: Iterator<Item=Result<(usize, Token<'input>, usize),__lalrpop_util::ParseError<usize, Token<'input>, &'static str>>>,
    >(
        input: &'input str,
        __tokens: &mut __TOKENS,
        __lookahead: Option<(usize, Token<'input>, usize)>,
        __sym0: (usize, (usize, usize, usize), usize),
        _: core::marker::PhantomData<(&'input ())>,
    ) -> Result<(Option<(usize, Token<'input>, usize)>, __Nonterminal<'input>), __lalrpop_util::ParseError<usize, Token<'input>, &'static str>>
    {
        let mut __result: (Option<(usize, Token<'input>, usize)>, __Nonterminal<'input>);
        match __lookahead {
            None => {
                let __start = __sym0.0.clone();
                let __end = __sym0.2.clone();
                let __nt = super::__action6::<>(input, __sym0);
                let __nt = __Nonterminal::P((
                    __start,
                    __nt,
                    __end,
                ));
                __result = (__lookahead, __nt);
                return Ok(__result);
            }
            _ => {
                #[allow(clippy::needless_raw_string_hashes)]
                let __expected = alloc::vec![
                ];
                return Err(
                    match __lookahead {
                        Some(__token) => {
                            __lalrpop_util::ParseError::UnrecognizedToken {
                                token: __token,
                                expected: __expected,
                            }
                        }
                        None => {
                            let __location = __sym0.2.clone();
                            __lalrpop_util::ParseError::UnrecognizedEof {
                                location: __location,
                                expected: __expected,
                            }
                        }
                    }
                )
            }
        }
    }

    fn __state2<
        'input,
        __TOKENS: Iterator<Item=Result<(usize, Token<'input>, usize),__lalrpop_util::ParseError<usize, Token<'input>, &'static str>>>,
    >(
        input: &'input str,
        __tokens: &mut __TOKENS,
        __lookahead: Option<(usize, Token<'input>, usize)>,
        __sym0: (usize, (usize, usize, usize), usize),
        _: core::marker::PhantomData<(&'input ())>,
    ) -> Result<(Option<(usize, Token<'input>, usize)>, __Nonterminal<'input>), __lalrpop_util::ParseError<usize, Token<'input>, &'static str>>
    {
        let mut __result: (Option<(usize, Token<'input>, usize)>, __Nonterminal<'input>);
        match __lookahead {
            None => {
                let __start = __sym0.0.clone();
                let __end = __sym0.2.clone();
                let __nt = super::__action1::<>(input, __sym0);
                let __nt = __Nonterminal::____P((
                    __start,
                    __nt,
                    __end,
                ));
                __result = (__lookahead, __nt);
                return Ok(__result);
            }
            _ => {
                #[allow(clippy::needless_raw_string_hashes)]
                let __expected = alloc::vec![
                ];
                return Err(
                    match __lookahead {
                        Some(__token) => {
                            __lalrpop_util::ParseError::UnrecognizedToken {
                                token: __token,
                                expected: __expected,
                            }
                        }
                        None => {
                            let __location = __sym0.2.clone();
                            __lalrpop_util::ParseError::UnrecognizedEof {
                                location: __location,
                                expected: __expected,
                            }
                        }
                    }
                )
            }
        }
    }

    fn __state3<
        'input,
        __TOKENS: Iterator<Item=Result<(usize, Token<'input>, usize),__lalrpop_util::ParseError<usize, Token<'input>, &'static str>>>,
    >(
        input: &'input str,
        __tokens: &mut __TOKENS,
        __sym0: (usize, &'input str, usize),
        _: core::marker::PhantomData<(&'input ())>,
    ) -> Result<(Option<(usize, Token<'input>, usize)>, __Nonterminal<'input>), __lalrpop_util::ParseError<usize, Token<'input>, &'static str>>
    {
        let mut __result: (Option<(usize, Token<'input>, usize)>, __Nonterminal<'input>);
        let __lookahead = match __tokens.next() {
            Some(Ok(v)) => Some(v),
            Some(Err(e)) => return Err(e),
            None => None,
        };
        match __lookahead {
            Some((__loc1, Token(3, __tok0), __loc2)) => {
                let __sym1 = (__loc1, (__tok0), __loc2);
                __result = __state4(input, __tokens, __sym0, __sym1, core::marker::PhantomData::<(&())>)?;
                return Ok(__result);
            }
            _ => {
                #[allow(clippy::needless_raw_string_hashes)]
                let __expected = alloc::vec![
                    r###"")""###.to_string(),
                ];
                return Err(
                    match __lookahead {
                        Some(__token) => {
                            __lalrpop_util::ParseError::UnrecognizedToken {
                                token: __token,
                                expected: __expected,
                            }
                        }
                        None => {
                            let __location = __sym0.2.clone();
                            __lalrpop_util::ParseError::UnrecognizedEof {
                                location: __location,
                                expected: __expected,
                            }
                        }
                    }
                )
            }
        }
    }

    fn __state4<
        'input,
        __TOKENS: Iterator<Item=Result<(usize, Token<'input>, usize),__lalrpop_util::ParseError<usize, Token<'input>, &'static str>>>,
    >(
        input: &'input str,
        __tokens: &mut __TOKENS,
        __sym0: (usize, &'input str, usize),
        __sym1: (usize, &'input str, usize),
        _: core::marker::PhantomData<(&'input ())>,
    ) -> Result<(Option<(usize, Token<'input>, usize)>, __Nonterminal<'input>), __lalrpop_util::ParseError<usize, Token<'input>, &'static str>>
    {
        let mut __result: (Option<(usize, Token<'input>, usize)>, __Nonterminal<'input>);
        let __lookahead = match __tokens.next() {
            Some(Ok(v)) => Some(v),
            Some(Err(e)) => return Err(e),
            None => None,
        };
        match __lookahead {
            None => {
                let __start = __sym0.0.clone();
                let __end = __sym1.2.clone();
                let __nt = super::__action16::<>(input, __sym0, __sym1);
                let __nt = __Nonterminal::Gap_3c_22_28_22_2c_20_22_29_22_3e((
                    __start,
                    __nt,
                    __end,
                ));
                __result = (__lookahead, __nt);
                return Ok(__result);
            }
            _ => {
                #[allow(clippy::needless_raw_string_hashes)]
                let __expected = alloc::vec![
                ];
                return Err(
                    match __lookahead {
                        Some(__token) => {
                            __lalrpop_util::ParseError::UnrecognizedToken {
                                token: __token,
                                expected: __expected,
                            }
                        }
                        None => {
                            let __location = __sym1.2.clone();
                            __lalrpop_util::ParseError::UnrecognizedEof {
                                location: __location,
                                expected: __expected,
                            }
                        }
                    }
                )
            }
        }
    }
}
#[allow(unused_imports)]
pub use self::__parse__P::PParser;

#[rustfmt::skip]
#[allow(explicit_outlives_requirements, non_snake_case, non_camel_case_types, unused_mut, unused_variables, unused_imports, unused_parens, clippy::needless_lifetimes, clippy::type_complexity, clippy::needless_return, clippy::too_many_arguments, clippy::match_single_binding, clippy::clone_on_copy, clippy::unit_arg)]
mod __parse__S {

    #[allow(unused_extern_crates)]
    extern crate lalrpop_util as __lalrpop_util;
    #[allow(unused_imports)]
    use self::__lalrpop_util::state_machine as __state_machine;
    #[allow(unused_extern_crates)]
    extern crate alloc;
    use self::__lalrpop_util::lexer::Token;
    pub struct SParser {
        builder: __lalrpop_util::lexer::MatcherBuilder,
        _priv: (),
    }

    impl Default for SParser { fn default() -> Self { Self::new() } }
    impl SParser {
        pub fn new() -> SParser {
            let __builder = super::__intern_token::new_builder();
            SParser {
                builder: __builder,
                _priv: (),
            }
        }

        #[allow(dead_code)]
        pub fn parse<
            'input,
        >(
            &self,
            input: &'input str,
        ) -> Result<Vec<(usize, String, usize)>, __lalrpop_util::ParseError<usize, Token<'input>, &'static str>>
        {
            let mut __tokens = self.builder.matcher(input);
            let __lookahead = match __tokens.next() {
                Some(Ok(v)) => Some(v),
                Some(Err(e)) => return Err(e),
                None => None,
            };
            match __state0(input, &mut __tokens, __lookahead, core::marker::PhantomData::<(&())>)? {
                (Some(__lookahead), _) => {
                    Err(__lalrpop_util::ParseError::ExtraToken { token: __lookahead })
                }
                (None, __Nonterminal::____S((_, __nt, _))) => {
                    Ok(__nt)
                }
                _ => unreachable!(),
            }
        }
    }

    #[allow(dead_code)]
    enum __Nonterminal<'input>
     {
        _22_21_22_3f((usize, Option<&'input str>, usize)),
        _40L((usize, usize, usize)),
        Gap_3c_22_28_22_2c_20_22_29_22_3e((usize, (usize, usize, usize), usize)),
        Id((usize, String, usize)),
        O((usize, ((usize, usize), (usize, String, usize)), usize)),
        Opt_3c_22_21_22_3e((usize, (usize, usize), usize)),
        P((usize, (usize, usize, usize), usize)),
        S((usize, Vec<(usize, String, usize)>, usize)),
        Sp_3cId_3e((usize, (usize, String, usize), usize)),
        ____O((usize, ((usize, usize), (usize, String, usize)), usize)),
        ____P((usize, (usize, usize, usize), usize)),
        ____S((usize, Vec<(usize, String, usize)>, usize)),
    }

    fn __state0<
        'input,
        __TOKENS: Iterator<Item=Result<(usize, Token<'input>, usize),__lalrpop_util::ParseError<usize, Token<'input>, &'static str>>>,
    >(
        input: &'input str,
        __tokens: &mut __TOKENS,
        __lookahead: Option<(usize, Token<'input>, usize)>,
        _: core::marker::PhantomData<(&'input ())>,
    ) -> Result<(Option<(usize, Token<'input>, usize)>, __Nonterminal<'input>), __lalrpop_util::ParseError<usize, Token<'input>, &'static str>>
    {
        let mut __result: (Option<(usize, Token<'input>, usize)>, __Nonterminal<'input>);
        match __lookahead {
            Some((_, Token(0, _), _)) |
            None => {
                let __start: usize = __lookahead.as_ref().map(|o| o.0.clone()).unwrap_or_default();
                let __end = __start.clone();
                let __nt = super::__action4::<>(input, &__start, &__end);
                let __nt = __Nonterminal::S((
                    __start,
                    __nt,
                    __end,
                ));
                __result = (__lookahead, __nt);
            }
            _ => {
                #[allow(clippy::needless_raw_string_hashes)]
                let __expected = alloc::vec![
                    r###"r#"[a-z]+"#"###.to_string(),
                ];
                return Err(
                    match __lookahead {
                        Some(__token) => {
                            __lalrpop_util::ParseError::UnrecognizedToken {
                                token: __token,
                                expected: __expected,
                            }
                        }
                        None => {
                            let __location = Default::default();
                            __lalrpop_util::ParseError::UnrecognizedEof {
                                location: __location,
                                expected: __expected,
                            }
                        }
                    }
                )
            }
        }
        #[allow(clippy::never_loop)]
        loop {
            let (__lookahead, __nt) = __result;
            match __nt {
                __Nonterminal::S(__sym0) => {
                    __result = __state1(input, __tokens, __lookahead, __sym0, core::marker::PhantomData::<(&())>)?;
                }
                _ => {
                    return Ok((__lookahead, __nt));
                }
            }
        }
    }

    fn __state1<
        'input,
        __TOKENS: Iterator<Item=Result<(usize, Token<'input>, usize),__lalrpop_util::ParseError<usize, Token<'input>, &'static str>>>,
    >(
        input: &'input str,
        __tokens: &mut __TOKENS,
        __lookahead: Option<(usize, Token<'input>, usize)>,
        __sym0: (usize, Vec<(usize, String, usize)>, usize),
        _: core::marker::PhantomData<(&'input ())>,
    ) -> Result<(Option<(usize, Token<'input>, usize)>, __Nonterminal<'input>), __lalrpop_util::ParseError<usize, Token<'input>, &'static str>>
    {
        let mut __result: (Option<(usize, Token<'input>, usize)>, __Nonterminal<'input>);
        match __lookahead {
            Some((__loc1, Token(0, __tok0), __loc2)) => {
                let __sym1 = (__loc1, (__tok0), __loc2);
                __result = __state4(input, __tokens, __sym1, core::marker::PhantomData::<(&())>)?;
            }
            None => {
                let __start = __sym0.0.clone();
                let __end = __sym0.2.clone();
                let __nt = super::__action0::<>(input, __sym0);
                let __nt = __Nonterminal::____S((
                    __start,
                    __nt,
                    __end,
                ));
                __result = (__lookahead, __nt);
                return Ok(__result);
            }
            _ => {
                #[allow(clippy::needless_raw_string_hashes)]
                let __expected = alloc::vec![
                    r###"r#"[a-z]+"#"###.to_string(),
                ];
                return Err(
                    match __lookahead {
                        Some(__token) => {
                            __lalrpop_util::ParseError::UnrecognizedToken {
                                token: __token,
                                expected: __expected,
                            }
                        }
                        None => {
                            let __location = __sym0.2.clone();
                            __lalrpop_util::ParseError::UnrecognizedEof {
                                location: __location,
                                expected: __expected,
                            }
                        }
                    }
                )
            }
        }
        #[allow(clippy::never_loop)]
        loop {
            let (__lookahead, __nt) = __result;
            match __nt {
                __Nonterminal::Id(__sym1) => {
                    __result = __state2(input, __tokens, __lookahead, __sym1, core::marker::PhantomData::<(&())>)?;
                }
                __Nonterminal::Sp_3cId_3e(__sym1) => {
                    __result = __state3(input, __tokens, __lookahead, __sym0, __sym1, core::marker::PhantomData::<(&())>)?;
                    return Ok(__result);
                }
                _ => {
                    return Ok((__lookahead, __nt));
                }
            }
        }
    }

    fn __state2<
        'input,
        __TOKENS: Iterator<Item=Result<(usize, Token<'input>, usize),__lalrpop_util::ParseError<usize, Token<'input>, &'static str>>>,
    >(
        input: &'input str,
        __tokens: &mut __TOKENS,
        __lookahead: Option<(usize, Token<'input>, usize)>,
        __sym0: (usize, String, usize),
        _: core::marker::PhantomData<(&'input ())>,
    ) -> Result<(Option<(usize, Token<'input>, usize)>, __Nonterminal<'input>), __lalrpop_util::ParseError<usize, Token<'input>, &'static str>>
    {
        let mut __result: (Option<(usize, Token<'input>, usize)>, __Nonterminal<'input>);
        match __lookahead {
            Some((_, Token(0, _), _)) |
            None => {
                let __start = __sym0.0.clone();
                let __end = __sym0.2.clone();
                let __nt = super::__action19::<>(input, __sym0);
                let __nt = __Nonterminal::Sp_3cId_3e((
                    __start,
                    __nt,
                    __end,
                ));
                __result = (__lookahead, __nt);
                return Ok(__result);
            }
            _ => {
                #[allow(clippy::needless_raw_string_hashes)]
                let __expected = alloc::vec![
                    r###"r#"[a-z]+"#"###.to_string(),
                ];
                return Err(
                    match __lookahead {
                        Some(__token) => {
                            __lalrpop_util::ParseError::UnrecognizedToken {
                                token: __token,
                                expected: __expected,
                            }
                        }
                        None => {
                            let __location = __sym0.2.clone();
                            __lalrpop_util::ParseError::UnrecognizedEof {
                                location: __location,
                                expected: __expected,
                            }
                        }
                    }
                )
            }
        }
    }

    fn __state3<
        'input,
        __TOKENS: Iterator<Item=Result<(usize, Token<'input>, usize),__lalrpop_util::ParseError<usize, Token<'input>, &'static str>>>,
    >(
        input: &'input str,
        __tokens: &mut __TOKENS,
        __lookahead: Option<(usize, Token<'input>, usize)>,
        __sym0: (usize, Vec<(usize, String, usize)>, usize),
        __sym1: (usize, (usize, String, usize), usize),
        _: core::marker::PhantomData<(&'input ())>,
    ) -> Result<(Option<(usize, Token<'input>, usize)>, __Nonterminal<'input>), __lalrpop_util::ParseError<usize, Token<'input>, &'static str>>
    {
        let mut __result: (Option<(usize, Token<'input>, usize)>, __Nonterminal<'input>);
        match __lookahead {
            Some((_, Token(0, _), _)) |
            None => {
                let __start = __sym0.0.clone();
                let __end = __sym1.2.clone();
                let __nt = super::__action3::<>(input, __sym0, __sym1);
                let __nt = __Nonterminal::S((
                    __start,
                    __nt,
                    __end,
                ));
                __result = (__lookahead, __nt);
                return Ok(__result);
            }
            _ => {
                #[allow(clippy::needless_raw_string_hashes)]
                let __expected = alloc::vec![
                    r###"r#"[a-z]+"#"###.to_string(),
                ];
                return Err(
                    match __lookahead {
                        Some(__token) => {
                            __lalrpop_util::ParseError::UnrecognizedToken {
                                token: __token,
                                expected: __expected,
                            }
                        }
                        None => {
                            let __location = __sym1.2.clone();
                            __lalrpop_util::ParseError::UnrecognizedEof {
                                location: __location,
                                expected: __expected,
                            }
                        }
                    }
                )
            }
        }
    }

    fn __state4<
        'input,
        __TOKENS: Iterator<Item=Result<(usize, Token<'input>, usize),__lalrpop_util::ParseError<usize, Token<'input>, &'static str>>>,
    >(
        input: &'input str,
        __tokens: &mut __TOKENS,
        __sym0: (usize, &'input str, usize),
        _: core::marker::PhantomData<(&'input ())>,
    ) -> Result<(Option<(usize, Token<'input>, usize)>, __Nonterminal<'input>), __lalrpop_util::ParseError<usize, Token<'input>, &'static str>>
    {
        let mut __result: (Option<(usize, Token<'input>, usize)>, __Nonterminal<'input>);
        let __lookahead = match __tokens.next() {
            Some(Ok(v)) => Some(v),
            Some(Err(e)) => return Err(e),
            None => None,
        };
        match __lookahead {
            Some((_, Token(0, _), _)) |
            None => {
                let __start = __sym0.0.clone();
                let __end = __sym0.2.clone();
                let __nt = super::__action5::<>(input, __sym0);
                let __nt = __Nonterminal::Id((
                    __start,
                    __nt,
                    __end,
                ));
                __result = (__lookahead, __nt);
                return Ok(__result);
            }
            _ => {
                #[allow(clippy::needless_raw_string_hashes)]
                let __expected = alloc::vec![
                    r###"r#"[a-z]+"#"###.to_string(),
                ];
                return Err(
                    match __lookahead {
                        Some(__token) => {
                            __lalrpop_util::ParseError::UnrecognizedToken {
                                token: __token,
                                expected: __expected,
                            }
                        }
                        None => {
                            let __location = __sym0.2.clone();
                            __lalrpop_util::ParseError::UnrecognizedEof {
                                location: __location,
                                expected: __expected,
                            }
                        }
                    }
                )
            }
        }
    }
}
#[allow(unused_imports)]
pub use self::__parse__S::SParser;
#[rustfmt::skip]
mod __intern_token {
    #![allow(unused_imports)]
    #[allow(unused_extern_crates)]
    extern crate lalrpop_util as __lalrpop_util;
    #[allow(unused_imports)]
    use self::__lalrpop_util::state_machine as __state_machine;
    #[allow(unused_extern_crates)]
    extern crate alloc;
    pub fn new_builder() -> __lalrpop_util::lexer::MatcherBuilder {
        let __strs: &[(&str, bool)] = &[
            ("[a-z]+", false),
            ("!", false),
            ("\\(", false),
            ("\\)", false),
            (r"\s+", true),
        ];
        __lalrpop_util::lexer::MatcherBuilder::new(__strs.iter().copied()).unwrap()
    }
}
pub(crate) use self::__lalrpop_util::lexer::Token;

#[allow(unused_variables)]
#[allow(clippy::too_many_arguments, clippy::needless_lifetimes, clippy::just_underscores_and_digits, clippy::extra_unused_type_parameters)]
fn __action0<
    'input,
>(
    input: &'input str,
    (_, __0, _): (usize, Vec<(usize, String, usize)>, usize),
) -> Vec<(usize, String, usize)>
{
    __0
}

#[allow(unused_variables)]
#[allow(clippy::too_many_arguments, clippy::needless_lifetimes, clippy::just_underscores_and_digits, clippy::extra_unused_type_parameters)]
fn __action1<
    'input,
>(
    input: &'input str,
    (_, __0, _): (usize, (usize, usize, usize), usize),
) -> (usize, usize, usize)
{
    __0
}

#[allow(unused_variables)]
#[allow(clippy::too_many_arguments, clippy::needless_lifetimes, clippy::just_underscores_and_digits, clippy::extra_unused_type_parameters)]
fn __action2<
    'input,
>(
    input: &'input str,
    (_, __0, _): (usize, ((usize, usize), (usize, String, usize)), usize),
) -> ((usize, usize), (usize, String, usize))
{
    __0
}

#[allow(unused_variables)]
#[allow(clippy::too_many_arguments, clippy::needless_lifetimes, clippy::just_underscores_and_digits, clippy::extra_unused_type_parameters)]
fn __action3<
    'input,
>(
    input: &'input str,
    (_, v, _): (usize, Vec<(usize, String, usize)>, usize),
    (_, x, _): (usize, (usize, String, usize), usize),
) -> Vec<(usize, String, usize)>
{
    { let mut v = v; v.push(x); v }
}

#[allow(unused_variables)]
#[allow(clippy::too_many_arguments, clippy::needless_lifetimes, clippy::just_underscores_and_digits, clippy::extra_unused_type_parameters)]
fn __action4<
    'input,
>(
    input: &'input str,
    __lookbehind: &usize,
    __lookahead: &usize,
) -> Vec<(usize, String, usize)>
{
    vec![]
}

#[allow(unused_variables)]
#[allow(clippy::too_many_arguments, clippy::needless_lifetimes, clippy::just_underscores_and_digits, clippy::extra_unused_type_parameters)]
fn __action5<
    'input,
>(
    input: &'input str,
    (_, __0, _): (usize, &'input str, usize),
) -> String
{
    __0.to_string()
}

#[allow(unused_variables)]
#[allow(clippy::too_many_arguments, clippy::needless_lifetimes, clippy::just_underscores_and_digits, clippy::extra_unused_type_parameters)]
fn __action6<
    'input,
>(
    input: &'input str,
    (_, __0, _): (usize, (usize, usize, usize), usize),
) -> (usize, usize, usize)
{
    __0
}

#[allow(unused_variables)]
#[allow(clippy::too_many_arguments, clippy::needless_lifetimes, clippy::just_underscores_and_digits, clippy::extra_unused_type_parameters)]
fn __action7<
    'input,
>(
    input: &'input str,
    (_, __0, _): (usize, (usize, usize), usize),
    (_, __1, _): (usize, (usize, String, usize), usize),
) -> ((usize, usize), (usize, String, usize))
{
    (__0, __1)
}

#[allow(unused_variables)]
#[allow(clippy::too_many_arguments, clippy::needless_lifetimes, clippy::just_underscores_and_digits, clippy::extra_unused_type_parameters)]
fn __action8<
    'input,
>(
    input: &'input str,
    (_, l, _): (usize, usize, usize),
    (_, _, _): (usize, Option<&'input str>, usize),
    (_, r, _): (usize, usize, usize),
) -> (usize, usize)
{
    (l, r)
}

#[allow(unused_variables)]
#[allow(clippy::too_many_arguments, clippy::needless_lifetimes, clippy::just_underscores_and_digits, clippy::extra_unused_type_parameters)]
fn __action9<
    'input,
>(
    input: &'input str,
    (_, _, _): (usize, &'input str, usize),
    (_, m, _): (usize, usize, usize),
    (_, q, _): (usize, usize, usize),
    (_, _, _): (usize, &'input str, usize),
    (_, e, _): (usize, usize, usize),
) -> (usize, usize, usize)
{
    (m, q, e)
}

#[allow(unused_variables)]
#[allow(clippy::too_many_arguments, clippy::needless_lifetimes, clippy::just_underscores_and_digits, clippy::extra_unused_type_parameters)]
fn __action10<
    'input,
>(
    input: &'input str,
    (_, l, _): (usize, usize, usize),
    (_, t, _): (usize, String, usize),
    (_, r, _): (usize, usize, usize),
) -> (usize, String, usize)
{
    (l, t, r)
}

#[allow(unused_variables)]
#[allow(clippy::too_many_arguments, clippy::needless_lifetimes, clippy::just_underscores_and_digits, clippy::extra_unused_type_parameters)]
fn __action11<
    'input,
>(
    input: &'input str,
    (_, __0, _): (usize, &'input str, usize),
) -> Option<&'input str>
{
    Some(__0)
}

#[allow(unused_variables)]
#[allow(clippy::too_many_arguments, clippy::needless_lifetimes, clippy::just_underscores_and_digits, clippy::extra_unused_type_parameters)]
fn __action12<
    'input,
>(
    input: &'input str,
    __lookbehind: &usize,
    __lookahead: &usize,
) -> Option<&'input str>
{
    None
}

#[allow(unused_variables)]
#[allow(clippy::needless_lifetimes, clippy::clone_on_copy)]
fn __action13<
    'input,
>(
    input: &'input str,
    __lookbehind: &usize,
    __lookahead: &usize,
) -> usize
{
    __lookahead.clone()
}

#[allow(unused_variables)]
#[allow(clippy::too_many_arguments, clippy::needless_lifetimes,
    clippy::just_underscores_and_digits, clippy::clone_on_copy, clippy::unit_arg)]
fn __action14<
    'input,
>(
    input: &'input str,
    __0: (usize, usize, usize),
    __1: (usize, &'input str, usize),
    __2: (usize, usize, usize),
) -> (usize, usize)
{
    let __start0 = __1.0.clone();
    let __end0 = __1.2.clone();
    let __temp0 = __action11(
        input,
        __1,
    );
    let __temp0 = (__start0, __temp0, __end0);
    __action8(
        input,
        __0,
        __temp0,
        __2,
    )
}

#[allow(unused_variables)]
#[allow(clippy::too_many_arguments, clippy::needless_lifetimes,
    clippy::just_underscores_and_digits, clippy::clone_on_copy, clippy::unit_arg)]
fn __action15<
    'input,
>(
    input: &'input str,
    __0: (usize, usize, usize),
    __1: (usize, usize, usize),
) -> (usize, usize)
{
    let __start0 = __0.2.clone();
    let __end0 = __1.0.clone();
    let __temp0 = __action12(
        input,
        &__start0,
        &__end0,
    );
    let __temp0 = (__start0, __temp0, __end0);
    __action8(
        input,
        __0,
        __temp0,
        __1,
    )
}

#[allow(unused_variables)]
#[allow(clippy::too_many_arguments, clippy::needless_lifetimes,
    clippy::just_underscores_and_digits, clippy::clone_on_copy, clippy::unit_arg)]
fn __action16<
    'input,
>(
    input: &'input str,
    __0: (usize, &'input str, usize),
    __1: (usize, &'input str, usize),
) -> (usize, usize, usize)
{
    let __start0 = __0.2.clone();
    let __end0 = __1.0.clone();
    let __start1 = __0.2.clone();
    let __end1 = __1.0.clone();
    let __start2 = __1.2.clone();
    let __end2 = __1.2.clone();
    let __temp0 = __action13(
        input,
        &__start0,
        &__end0,
    );
    let __temp0 = (__start0, __temp0, __end0);
    let __temp1 = __action13(
        input,
        &__start1,
        &__end1,
    );
    let __temp1 = (__start1, __temp1, __end1);
    let __temp2 = __action13(
        input,
        &__start2,
        &__end2,
    );
    let __temp2 = (__start2, __temp2, __end2);
    __action9(
        input,
        __0,
        __temp0,
        __temp1,
        __1,
        __temp2,
    )
}

#[allow(unused_variables)]
#[allow(clippy::too_many_arguments, clippy::needless_lifetimes,
    clippy::just_underscores_and_digits, clippy::clone_on_copy, clippy::unit_arg)]
fn __action17<
    'input,
>(
    input: &'input str,
    __0: (usize, &'input str, usize),
) -> (usize, usize)
{
    let __start0 = __0.0.clone();
    let __end0 = __0.0.clone();
    let __start1 = __0.2.clone();
    let __end1 = __0.2.clone();
    let __temp0 = __action13(
        input,
        &__start0,
        &__end0,
    );
    let __temp0 = (__start0, __temp0, __end0);
    let __temp1 = __action13(
        input,
        &__start1,
        &__end1,
    );
    let __temp1 = (__start1, __temp1, __end1);
    __action14(
        input,
        __temp0,
        __0,
        __temp1,
    )
}

#[allow(unused_variables)]
#[allow(clippy::too_many_arguments, clippy::needless_lifetimes,
    clippy::just_underscores_and_digits, clippy::clone_on_copy, clippy::unit_arg)]
fn __action18<
    'input,
>(
    input: &'input str,
    __lookbehind: &usize,
    __lookahead: &usize,
) -> (usize, usize)
{
    let __start0 = __lookbehind.clone();
    let __end0 = __lookahead.clone();
    let __start1 = __lookbehind.clone();
    let __end1 = __lookahead.clone();
    let __temp0 = __action13(
        input,
        &__start0,
        &__end0,
    );
    let __temp0 = (__start0, __temp0, __end0);
    let __temp1 = __action13(
        input,
        &__start1,
        &__end1,
    );
    let __temp1 = (__start1, __temp1, __end1);
    __action15(
        input,
        __temp0,
        __temp1,
    )
}

#[allow(unused_variables)]
#[allow(clippy::too_many_arguments, clippy::needless_lifetimes,
    clippy::just_underscores_and_digits, clippy::clone_on_copy, clippy::unit_arg)]
fn __action19<
    'input,
>(
    input: &'input str,
    __0: (usize, String, usize),
) -> (usize, String, usize)
{
    let __start0 = __0.0.clone();
    let __end0 = __0.0.clone();
    let __start1 = __0.2.clone();
    let __end1 = __0.2.clone();
    let __temp0 = __action13(
        input,
        &__start0,
        &__end0,
    );
    let __temp0 = (__start0, __temp0, __end0);
    let __temp1 = __action13(
        input,
        &__start1,
        &__end1,
    );
    let __temp1 = (__start1, __temp1, __end1);
    __action10(
        input,
        __temp0,
        __0,
        __temp1,
    )
}

#[allow(clippy::type_complexity, dead_code)]
pub trait __ToTriple<'input, >
{
    fn to_triple(self) -> Result<(usize,Token<'input>,usize), __lalrpop_util::ParseError<usize, Token<'input>, &'static str>>;
}

impl<'input, > __ToTriple<'input, > for (usize, Token<'input>, usize)
{
    fn to_triple(self) -> Result<(usize,Token<'input>,usize), __lalrpop_util::ParseError<usize, Token<'input>, &'static str>> {
        Ok(self)
    }
}
impl<'input, > __ToTriple<'input, > for Result<(usize, Token<'input>, usize), &'static str>
{
    fn to_triple(self) -> Result<(usize,Token<'input>,usize), __lalrpop_util::ParseError<usize, Token<'input>, &'static str>> {
        self.map_err(|error| __lalrpop_util::ParseError::User { error })
    }
}
