// auto-generated: "lalrpop 0.23.1"
// sha3: 40272f21c86d363081fdbffca7d591752d027e9be6ad59a0e743e8331f6a69d6
use crate::support::*;
#[allow(unused_extern_crates)]
extern crate lalrpop_util as __lalrpop_util;
#[allow(unused_imports)]
use self::__lalrpop_util::state_machine as __state_machine;
#[allow(unused_extern_crates)]
extern crate alloc;

#[rustfmt::skip]
#[allow(explicit_outlives_requirements, non_snake_case, non_camel_case_types, unused_mut, unused_variables, unused_imports, unused_parens, clippy::needless_lifetimes, clippy::type_complexity, clippy::needless_return, clippy::too_many_arguments, clippy::match_single_binding, clippy::clone_on_copy, clippy::unit_arg)]
mod __parse__S {

    use crate::support::*;
    #[allow(unused_extern_crates)]
    extern crate lalrpop_util as __lalrpop_util;
    #[allow(unused_imports)]
    use self::__lalrpop_util::state_machine as __state_machine;
    #[allow(unused_extern_crates)]
    extern crate alloc;
    use self::__lalrpop_util::lexer::Token;
    pub struct SParser {
        builder: __lalrpop_util::lexer::MatcherBuilder,
        _priv: (),
    }

    impl Default for SParser { fn default() -> Self { Self::new() } }
    impl SParser {
        pub fn new() -> SParser {
            let __builder = super::__intern_token::new_builder();
            SParser {
                builder: __builder,
                _priv: (),
            }
        }

        #[allow(dead_code)]
        pub fn parse<
            'input,
        >(
            &self,
            input: &'input str,
        ) -> Result<Vec<usize>, __lalrpop_util::ParseError<usize, Token<'input>, &'static str>>
        {
            let mut __tokens = self.builder.matcher(input);
            let __lookahead = match __tokens.next() {
                Some(Ok(v)) => Some(v),
                Some(Err(e)) => return Err(e),
                None => None,
            };
            match __state0(input, &mut __tokens, __lookahead, core::marker::PhantomData::<(&())>)? {
                (Some(__lookahead), _) => {
                    Err(__lalrpop_util::ParseError::ExtraToken { token: __lookahead })
                }
                (None, __Nonterminal::____S((_, __nt, _))) => {
                    Ok(__nt)
                }
                _ => unreachable!(),
            }
        }
    }

    #[allow(dead_code)]
    enum __Nonterminal<'input>
     {
        _22c_22_3f((usize, Option<&'input str>, usize)),
        _40L((usize, usize, usize)),
        _40R((usize, usize, usize)),
        Item((usize, usize, usize)),
        Item_2a((usize, alloc::vec::Vec<usize>, usize)),
        Item_2b((usize, alloc::vec::Vec<usize>, usize)),
        N0((usize, Option<(Option<&'input str>, &'input str, Option<&'input str>)>, usize)),
        N1((usize, &'input str, usize)),
        N2((usize, (Option<&'input str>, &'input str, Option<&'input str>), usize)),
        N3((usize, (Option<&'input str>, &'input str, Option<&'input str>), usize)),
        N3_3f((usize, Option<(Option<&'input str>, &'input str, Option<&'input str>)>, usize)),
        N4((usize, Option<&'input str>, usize)),
        S((usize, Vec<usize>, usize)),
        ____S((usize, Vec<usize>, usize)),
    }

    fn __state0<
        'input,
        __TOKENS: Iterator<Item=Result<(usize, Token<'input>, usize),__lalrpop_util::ParseError<usize, Token<'input>, &'static str>>>,
    >(
        input: &'input str,
        __tokens: &mut __TOKENS,
        __lookahead: Option<(usize, Token<'input>, usize)>,
        _: core::marker::PhantomData<(&'input ())>,
    ) -> Result<(Option<(usize, Token<'input>, usize)>, __Nonterminal<'input>), __lalrpop_util::ParseError<usize, Token<'input>, &'static str>>
    {
        let mut __result: (Option<(usize, Token<'input>, usize)>, __Nonterminal<'input>);
        match __lookahead {
            Some((__loc1, Token(4, __tok0), __loc2)) => {
                let __sym0 = (__loc1, (__tok0), __loc2);
                __result = __state2(input, __tokens, __sym0, core::marker::PhantomData::<(&())>)?;
            }
            None => {
                let __start: usize = __lookahead.as_ref().map(|o| o.0.clone()).unwrap_or_default();
                let __end = __start.clone();
                let __nt = super::__action22::<>(input, &__start, &__end);
                let __nt = __Nonterminal::S((
                    __start,
                    __nt,
                    __end,
                ));
                __result = (__lookahead, __nt);
            }
            _ => {
                #[allow(clippy::needless_raw_string_hashes)]
                let __expected = alloc::vec![
                    r###""d""###.to_string(),
                ];
                return Err(
                    match __lookahead {
                        Some(__token) => {
                            __lalrpop_util::ParseError::UnrecognizedToken {
                                token: __token,
                                expected: __expected,
                            }
                        }
                        None => {
                            let __location = Default::default();
                            __lalrpop_util::ParseError::UnrecognizedEof {
                                location: __location,
                                expected: __expected,
                            }
                        }
                    }
                )
            }
        }
        #[allow(clippy::never_loop)]
        loop {
            let (__lookahead, __nt) = __result;
            match __nt {
                __Nonterminal::Item(__sym0) => {
                    __result = __state4(input, __tokens, __lookahead, __sym0, core::marker::PhantomData::<(&())>)?;
                }
                __Nonterminal::Item_2b(__sym0) => {
                    __result = __state1(input, __tokens, __lookahead, __sym0, core::marker::PhantomData::<(&())>)?;
                }
                __Nonterminal::N0(__sym0) => {
                    __result = __state5(input, __tokens, __lookahead, __sym0, core::marker::PhantomData::<(&())>)?;
                }
                __Nonterminal::S(__sym0) => {
                    __result = __state6(input, __tokens, __lookahead, __sym0, core::marker::PhantomData::<(&())>)?;
                }
                _ => {
                    return Ok((__lookahead, __nt));
                }
            }
        }
    }

    fn __state1<
        'input,
        __TOKENS: Iterator<Item=Result<(usize, Token<'input>, usize),__lalrpop_util::ParseError<usize, Token<'input>, &'static str>>>,
    >(
        input: &'input str,
        __tokens: &mut __TOKENS,
        __lookahead: Option<(usize, Token<'input>, usize)>,
        __sym0: (usize, alloc::vec::Vec<usize>, usize),
        _: core::marker::PhantomData<(&'input ())>,
    ) -> Result<(Option<(usize, Token<'input>, usize)>, __Nonterminal<'input>), __lalrpop_util::ParseError<usize, Token<'input>, &'static str>>
    {
        let mut __result: (Option<(usize, Token<'input>, usize)>, __Nonterminal<'input>);
        match __lookahead {
            Some((__loc1, Token(4, __tok0), __loc2)) => {
                let __sym1 = (__loc1, (__tok0), __loc2);
                __result = __state2(input, __tokens, __sym1, core::marker::PhantomData::<(&())>)?;
            }
            None => {
                let __start = __sym0.0.clone();
                let __end = __sym0.2.clone();
                let __nt = super::__action23::<>(input, __sym0);
                let __nt = __Nonterminal::S((
                    __start,
                    __nt,
                    __end,
                ));
                __result = (__lookahead, __nt);
                return Ok(__result);
            }
            _ => {
                #[allow(clippy::needless_raw_string_hashes)]
                let __expected = alloc::vec![
                    r###""d""###.to_string(),
                ];
                return Err(
                    match __lookahead {
                        Some(__token) => {
                            __lalrpop_util::ParseError::UnrecognizedToken {
                                token: __token,
                                expected: __expected,
                            }
                        }
                        None => {
                            let __location = __sym0.2.clone();
                            __lalrpop_util::ParseError::UnrecognizedEof {
                                location: __location,
                                expected: __expected,
                            }
                        }
                    }
                )
            }
        }
        #[allow(clippy::never_loop)]
        loop {
            let (__lookahead, __nt) = __result;
            match __nt {
                __Nonterminal::Item(__sym1) => {
                    __result = __state7(input, __tokens, __lookahead, __sym0, __sym1, core::marker::PhantomData::<(&())>)?;
                    return Ok(__result);
                }
                __Nonterminal::N0(__sym1) => {
                    __result = __state5(input, __tokens, __lookahead, __sym1, core::marker::PhantomData::<(&())>)?;
                }
                _ => {
                    return Ok((__lookahead, __nt));
                }
            }
        }
    }

    fn __state2<
        'input,
        __TOKENS: Iterator<Item=Result<(usize, Token<'input>, usize),__lalrpop_util::ParseError<usize, Token<'input>, &'static str>>>,
    >(
        input: &'input str,
        __tokens: &mut __TOKENS,
        __sym0: (usize, &'input str, usize),
        _: core::marker::PhantomData<(&'input ())>,
    ) -> Result<(Option<(usize, Token<'input>, usize)>, __Nonterminal<'input>), __lalrpop_util::ParseError<usize, Token<'input>, &'static str>>
    {
        let mut __result: (Option<(usize, Token<'input>, usize)>, __Nonterminal<'input>);
        let __lookahead = match __tokens.next() {
            Some(Ok(v)) => Some(v),
            Some(Err(e)) => return Err(e),
            None => None,
        };
        match __lookahead {
            Some((__loc1, Token(3, __tok0), __loc2)) => {
                let __sym1 = (__loc1, (__tok0), __loc2);
                __result = __state11(input, __tokens, __sym1, core::marker::PhantomData::<(&())>)?;
            }
            Some((_, Token(0, _), _)) => {
                let __start = __sym0.0.clone();
                let __end = __sym0.2.clone();
                let __nt = super::__action25::<>(input, __sym0);
                let __nt = __Nonterminal::N0((
                    __start,
                    __nt,
                    __end,
                ));
                __result = (__lookahead, __nt);
                return Ok(__result);
            }
            Some((_, Token(4, _), _)) => {
                let __start = __lookahead.as_ref().map(|o| o.0.clone()).unwrap_or_else(|| __sym0.2.clone());
                let __end = __start.clone();
                let __nt = super::__action19::<>(input, &__start, &__end);
                let __nt = __Nonterminal::N4((
                    __start,
                    __nt,
                    __end,
                ));
                __result = (__lookahead, __nt);
            }
            _ => {
                #[allow(clippy::needless_raw_string_hashes)]
                let __expected = alloc::vec![
                    r###"",""###.to_string(),
                    r###""c""###.to_string(),
                    r###""d""###.to_string(),
                ];
                return Err(
                    match __lookahead {
                        Some(__token) => {
                            __lalrpop_util::ParseError::UnrecognizedToken {
                                token: __token,
                                expected: __expected,
                            }
                        }
                        None => {
                            let __location = __sym0.2.clone();
                            __lalrpop_util::ParseError::UnrecognizedEof {
                                location: __location,
                                expected: __expected,
                            }
                        }
                    }
                )
            }
        }
        #[allow(clippy::never_loop)]
        loop {
            let (__lookahead, __nt) = __result;
            match __nt {
                __Nonterminal::N3(__sym1) => {
                    __result = __state9(input, __tokens, __lookahead, __sym0, __sym1, core::marker::PhantomData::<(&())>)?;
                    return Ok(__result);
                }
                __Nonterminal::N4(__sym1) => {
                    __result = __state10(input, __tokens, __lookahead, __sym1, core::marker::PhantomData::<(&())>)?;
                }
                _ => {
                    return Ok((__lookahead, __nt));
                }
            }
        }
    }

    fn __state3<
        'input,
        __TOKENS: Iterator<Item=Result<(usize, Token<'input>, usize),__lalrpop_util::ParseError<usize, Token<'input>, &'static str>>>,
    >(
        input: &'input str,
        __tokens: &mut __TOKENS,
        __sym0: (usize, Option<&'input str>, usize),
        __sym1: (usize, &'input str, usize),
        _: core::marker::PhantomData<(&'input ())>,
    ) -> Result<(Option<(usize, Token<'input>, usize)>, __Nonterminal<'input>), __lalrpop_util::ParseError<usize, Token<'input>, &'static str>>
    {
        let mut __result: (Option<(usize, Token<'input>, usize)>, __Nonterminal<'input>);
        let __lookahead = match __tokens.next() {
            Some(Ok(v)) => Some(v),
            Some(Err(e)) => return Err(e),
            None => None,
        };
        match __lookahead {
            Some((__loc1, Token(3, __tok0), __loc2)) => {
                let __sym2 = (__loc1, (__tok0), __loc2);
                __result = __state11(input, __tokens, __sym2, core::marker::PhantomData::<(&())>)?;
            }
            Some((_, Token(0, _), _)) => {
                let __start = __lookahead.as_ref().map(|o| o.0.clone()).unwrap_or_else(|| __sym1.2.clone());
                let __end = __start.clone();
                let __nt = super::__action19::<>(input, &__start, &__end);
                let __nt = __Nonterminal::N4((
                    __start,
                    __nt,
                    __end,
                ));
                __result = (__lookahead, __nt);
            }
            _ => {
                #[allow(clippy::needless_raw_string_hashes)]
                let __expected = alloc::vec![
                    r###"",""###.to_string(),
                    r###""c""###.to_string(),
                ];
                return Err(
                    match __lookahead {
                        Some(__token) => {
                            __lalrpop_util::ParseError::UnrecognizedToken {
                                token: __token,
                                expected: __expected,
                            }
                        }
                        None => {
                            let __location = __sym1.2.clone();
                            __lalrpop_util::ParseError::UnrecognizedEof {
                                location: __location,
                                expected: __expected,
                            }
                        }
                    }
                )
            }
        }
        #[allow(clippy::never_loop)]
        loop {
            let (__lookahead, __nt) = __result;
            match __nt {
                __Nonterminal::N4(__sym2) => {
                    __result = __state12(input, __tokens, __lookahead, __sym0, __sym1, __sym2, core::marker::PhantomData::<(&())>)?;
                    return Ok(__result);
                }
                _ => {
                    return Ok((__lookahead, __nt));
                }
            }
        }
    }

    fn __state4<
        'input,
        __TOKENS: Iterator<Item=Result<(usize, Token<'input>, usize),__lalrpop_util::ParseError<usize, Token<'input>, &'static str>>>,
    >(
        input: &'input str,
        __tokens: &mut __TOKENS,
        __lookahead: Option<(usize, Token<'input>, usize)>,
        __sym0: (usize, usize, usize),
        _: core::marker::PhantomData<(&'input ())>,
    ) -> Result<(Option<(usize, Token<'input>, usize)>, __Nonterminal<'input>), __lalrpop_util::ParseError<usize, Token<'input>, &'static str>>
    {
        let mut __result: (Option<(usize, Token<'input>, usize)>, __Nonterminal<'input>);
        match __lookahead {
            Some((_, Token(4, _), _)) |
            None => {
                let __start = __sym0.0.clone();
                let __end = __sym0.2.clone();
                let __nt = super::__action16::<>(input, __sym0);
                let __nt = __Nonterminal::Item_2b((
                    __start,
                    __nt,
                    __end,
                ));
                __result = (__lookahead, __nt);
                return Ok(__result);
            }
            _ => {
                #[allow(clippy::needless_raw_string_hashes)]
                let __expected = alloc::vec![
                    r###""d""###.to_string(),
                ];
                return Err(
                    match __lookahead {
                        Some(__token) => {
                            __lalrpop_util::ParseError::UnrecognizedToken {
                                token: __token,
                                expected: __expected,
                            }
                        }
                        None => {
                            let __location = __sym0.2.clone();
                            __lalrpop_util::ParseError::UnrecognizedEof {
                                location: __location,
                                expected: __expected,
                            }
                        }
                    }
                )
            }
        }
    }

    fn __state5<
        'input,
        __TOKENS: Iterator<Item=Result<(usize, Token<'input>, usize),__lalrpop_util::ParseError<usize, Token<'input>, &'static str>>>,
    >(
        input: &'input str,
        __tokens: &mut __TOKENS,
        __lookahead: Option<(usize, Token<'input>, usize)>,
        __sym0: (usize, Option<(Option<&'input str>, &'input str, Option<&'input str>)>, usize),
        _: core::marker::PhantomData<(&'input ())>,
    ) -> Result<(Option<(usize, Token<'input>, usize)>, __Nonterminal<'input>), __lalrpop_util::ParseError<usize, Token<'input>, &'static str>>
    {
        let mut __result: (Option<(usize, Token<'input>, usize)>, __Nonterminal<'input>);
        match __lookahead {
            Some((__loc1, Token(0, __tok0), __loc2)) => {
                let __sym1 = (__loc1, (__tok0), __loc2);
                __result = __state8(input, __tokens, __sym0, __sym1, core::marker::PhantomData::<(&())>)?;
                return Ok(__result);
            }
            _ => {
                #[allow(clippy::needless_raw_string_hashes)]
                let __expected = alloc::vec![
                    r###"",""###.to_string(),
                ];
                return Err(
                    match __lookahead {
                        Some(__token) => {
                            __lalrpop_util::ParseError::UnrecognizedToken {
                                token: __token,
                                expected: __expected,
                            }
                        }
                        None => {
                            let __location = __sym0.2.clone();
                            __lalrpop_util::ParseError::UnrecognizedEof {
                                location: __location,
                                expected: __expected,
                            }
                        }
                    }
                )
            }
        }
    }

    fn __state6<
        'input,
        __TOKENS: Iterator<Item=Result<(usize, Token<'input>, usize),__lalrpop_util::ParseError<usize, Token<'input>, &'static str>>>,
    >(
        input: &'input str,
        __tokens: &mut __TOKENS,
        __lookahead: Option<(usize, Token<'input>, usize)>,
        __sym0: (usize, Vec<usize>, usize),
        _: core::marker::PhantomData<(&'input ())>,
    ) -> Result<(Option<(usize, Token<'input>, usize)>, __Nonterminal<'input>), __lalrpop_util::ParseError<usize, Token<'input>, &'static str>>
    {
        let mut __result: (Option<(usize, Token<'input>, usize)>, __Nonterminal<'input>);
        match __lookahead {
            None => {
                let __start = __sym0.0.clone();
                let __end = __sym0.2.clone();
                let __nt = super::__action0::<>(input, __sym0);
                let __nt = __Nonterminal::____S((
                    __start,
                    __nt,
                    __end,
                ));
                __result = (__lookahead, __nt);
                return Ok(__result);
            }
            _ => {
                #[allow(clippy::needless_raw_string_hashes)]
                let __expected = alloc::vec![
                ];
                return Err(
                    match __lookahead {
                        Some(__token) => {
                            __lalrpop_util::ParseError::UnrecognizedToken {
                                token: __token,
                                expected: __expected,
                            }
                        }
                        None => {
                            let __location = __sym0.2.clone();
                            __lalrpop_util::ParseError::UnrecognizedEof {
                                location: __location,
                                expected: __expected,
                            }
                        }
                    }
                )
            }
        }
    }

    fn __state7<
        'input,
        __TOKENS: Iterator<Item=Result<(usize, Token<'input>, usize),__lalrpop_util::ParseError<usize, Token<'input>, &'static str>>>,
    >(
        input: &'input str,
        __tokens: &mut __TOKENS,
        __lookahead: Option<(usize, Token<'input>, usize)>,
        __sym0: (usize, alloc::vec::Vec<usize>, usize),
        __sym1: (usize, usize, usize),
        _: core::marker::PhantomData<(&'input ())>,
    ) -> Result<(Option<(usize, Token<'input>, usize)>, __Nonterminal<'input>), __lalrpop_util::ParseError<usize, Token<'input>, &'static str>>
    {
        let mut __result: (Option<(usize, Token<'input>, usize)>, __Nonterminal<'input>);
        match __lookahead {
            Some((_, Token(4, _), _)) |
            None => {
                let __start = __sym0.0.clone();
                let __end = __sym1.2.clone();
                let __nt = super::__action17::<>(input, __sym0, __sym1);
                let __nt = __Nonterminal::Item_2b((
                    __start,
                    __nt,
                    __end,
                ));
                __result = (__lookahead, __nt);
                return Ok(__result);
            }
            _ => {
                #[allow(clippy::needless_raw_string_hashes)]
                let __expected = alloc::vec![
                    r###""d""###.to_string(),
                ];
                return Err(
                    match __lookahead {
                        Some(__token) => {
                            __lalrpop_util::ParseError::UnrecognizedToken {
                                token: __token,
                                expected: __expected,
                            }
                        }
                        None => {
                            let __location = __sym1.2.clone();
                            __lalrpop_util::ParseError::UnrecognizedEof {
                                location: __location,
                                expected: __expected,
                            }
                        }
                    }
                )
            }
        }
    }

    fn __state8<
        'input,
        __TOKENS: Iterator<Item=Result<(usize, Token<'input>, usize),__lalrpop_util::ParseError<usize, Token<'input>, &'static str>>>,
    >(
        input: &'input str,
        __tokens: &mut __TOKENS,
        __sym0: (usize, Option<(Option<&'input str>, &'input str, Option<&'input str>)>, usize),
        __sym1: (usize, &'input str, usize),
        _: core::marker::PhantomData<(&'input ())>,
    ) -> Result<(Option<(usize, Token<'input>, usize)>, __Nonterminal<'input>), __lalrpop_util::ParseError<usize, Token<'input>, &'static str>>
    {
        let mut __result: (Option<(usize, Token<'input>, usize)>, __Nonterminal<'input>);
        let __lookahead = match __tokens.next() {
            Some(Ok(v)) => Some(v),
            Some(Err(e)) => return Err(e),
            None => None,
        };
        match __lookahead {
            Some((_, Token(4, _), _)) |
            None => {
                let __start = __sym0.0.clone();
                let __end = __sym1.2.clone();
                let __nt = super::__action2::<>(input, __sym0, __sym1);
                let __nt = __Nonterminal::Item((
                    __start,
                    __nt,
                    __end,
                ));
                __result = (__lookahead, __nt);
                return Ok(__result);
            }
            _ => {
                #[allow(clippy::needless_raw_string_hashes)]
                let __expected = alloc::vec![
                    r###""d""###.to_string(),
                ];
                return Err(
                    match __lookahead {
                        Some(__token) => {
                            __lalrpop_util::ParseError::UnrecognizedToken {
                                token: __token,
                                expected: __expected,
                            }
                        }
                        None => {
                            let __location = __sym1.2.clone();
                            __lalrpop_util::ParseError::UnrecognizedEof {
                                location: __location,
                                expected: __expected,
                            }
                        }
                    }
                )
            }
        }
    }

    fn __state9<
        'input,
        __TOKENS: Iterator<Item=Result<(usize, Token<'input>, usize),__lalrpop_util::ParseError<usize, Token<'input>, &'static str>>>,
    >(
        input: &'input str,
        __tokens: &mut __TOKENS,
        __lookahead: Option<(usize, Token<'input>, usize)>,
        __sym0: (usize, &'input str, usize),
        __sym1: (usize, (Option<&'input str>, &'input str, Option<&'input str>), usize),
        _: core::marker::PhantomData<(&'input ())>,
    ) -> Result<(Option<(usize, Token<'input>, usize)>, __Nonterminal<'input>), __lalrpop_util::ParseError<usize, Token<'input>, &'static str>>
    {
        let mut __result: (Option<(usize, Token<'input>, usize)>, __Nonterminal<'input>);
        match __lookahead {
            Some((_, Token(0, _), _)) => {
                let __start = __sym0.0.clone();
                let __end = __sym1.2.clone();
                let __nt = super::__action24::<>(input, __sym0, __sym1);
                let __nt = __Nonterminal::N0((
                    __start,
                    __nt,
                    __end,
                ));
                __result = (__lookahead, __nt);
                return Ok(__result);
            }
            _ => {
                #[allow(clippy::needless_raw_string_hashes)]
                let __expected = alloc::vec![
                    r###"",""###.to_string(),
                ];
                return Err(
                    match __lookahead {
                        Some(__token) => {
                            __lalrpop_util::ParseError::UnrecognizedToken {
                                token: __token,
                                expected: __expected,
                            }
                        }
                        None => {
                            let __location = __sym1.2.clone();
                            __lalrpop_util::ParseError::UnrecognizedEof {
                                location: __location,
                                expected: __expected,
                            }
                        }
                    }
                )
            }
        }
    }

    fn __state10<
        'input,
        __TOKENS: Iterator<Item=Result<(usize, Token<'input>, usize),__lalrpop_util::ParseError<usize, Token<'input>, &'static str>>>,
    >(
        input: &'input str,
        __tokens: &mut __TOKENS,
        __lookahead: Option<(usize, Token<'input>, usize)>,
        __sym0: (usize, Option<&'input str>, usize),
        _: core::marker::PhantomData<(&'input ())>,
    ) -> Result<(Option<(usize, Token<'input>, usize)>, __Nonterminal<'input>), __lalrpop_util::ParseError<usize, Token<'input>, &'static str>>
    {
        let mut __result: (Option<(usize, Token<'input>, usize)>, __Nonterminal<'input>);
        match __lookahead {
            Some((__loc1, Token(4, __tok0), __loc2)) => {
                let __sym1 = (__loc1, (__tok0), __loc2);
                __result = __state3(input, __tokens, __sym0, __sym1, core::marker::PhantomData::<(&())>)?;
                return Ok(__result);
            }
            _ => {
                #[allow(clippy::needless_raw_string_hashes)]
                let __expected = alloc::vec![
                    r###""d""###.to_string(),
                ];
                return Err(
                    match __lookahead {
                        Some(__token) => {
                            __lalrpop_util::ParseError::UnrecognizedToken {
                                token: __token,
                                expected: __expected,
                            }
                        }
                        None => {
                            let __location = __sym0.2.clone();
                            __lalrpop_util::ParseError::UnrecognizedEof {
                                location: __location,
                                expected: __expected,
                            }
                        }
                    }
                )
            }
        }
    }

    fn __state11<
        'input,
        __TOKENS: Iterator<Item=Result<(usize, Token<'input>, usize),__lalrpop_util::ParseError<usize, Token<'input>, &'static str>>>,
    >(
        input: &'input str,
        __tokens: &mut __TOKENS,
        __sym0: (usize, &'input str, usize),
        _: core::marker::PhantomData<(&'input ())>,
    ) -> Result<(Option<(usize, Token<'input>, usize)>, __Nonterminal<'input>), __lalrpop_util::ParseError<usize, Token<'input>, &'static str>>
    {
        let mut __result: (Option<(usize, Token<'input>, usize)>, __Nonterminal<'input>);
        let __lookahead = match __tokens.next() {
            Some(Ok(v)) => Some(v),
            Some(Err(e)) => return Err(e),
            None => None,
        };
        match __lookahead {
            Some((_, Token(0, _), _)) |
            Some((_, Token(4, _), _)) => {
                let __start = __sym0.0.clone();
                let __end = __sym0.2.clone();
                let __nt = super::__action18::<>(input, __sym0);
                let __nt = __Nonterminal::N4((
                    __start,
                    __nt,
                    __end,
                ));
                __result = (__lookahead, __nt);
                return Ok(__result);
            }
            _ => {
                #[allow(clippy::needless_raw_string_hashes)]
                let __expected = alloc::vec![
                    r###"",""###.to_string(),
                    r###""d""###.to_string(),
                ];
                return Err(
                    match __lookahead {
                        Some(__token) => {
                            __lalrpop_util::ParseError::UnrecognizedToken {
                                token: __token,
                                expected: __expected,
                            }
                        }
                        None => {
                            let __location = __sym0.2.clone();
                            __lalrpop_util::ParseError::UnrecognizedEof {
                                location: __location,
                                expected: __expected,
                            }
                        }
                    }
                )
            }
        }
    }

    fn __state12<
        'input,
        __TOKENS: Iterator<Item=Result<(usize, Token<'input>, usize),__lalrpop_util::ParseError<usize, Token<'input>, &'static str>>>,
    >(
        input: &'input str,
        __tokens: &mut __TOKENS,
        __lookahead: Option<(usize, Token<'input>, usize)>,
        __sym0: (usize, Option<&'input str>, usize),
        __sym1: (usize, &'input str, usize),
        __sym2: (usize, Option<&'input str>, usize),
        _: core::marker::PhantomData<(&'input ())>,
    ) -> Result<(Option<(usize, Token<'input>, usize)>, __Nonterminal<'input>), __lalrpop_util::ParseError<usize, Token<'input>, &'static str>>
    {
        let mut __result: (Option<(usize, Token<'input>, usize)>, __Nonterminal<'input>);
        match __lookahead {
            Some((_, Token(0, _), _)) => {
                let __start = __sym0.0.clone();
                let __end = __sym2.2.clone();
                let __nt = super::__action6::<>(input, __sym0, __sym1, __sym2);
                let __nt = __Nonterminal::N3((
                    __start,
                    __nt,
                    __end,
                ));
                __result = (__lookahead, __nt);
                return Ok(__result);
            }
            _ => {
                #[allow(clippy::needless_raw_string_hashes)]
                let __expected = alloc::vec![
                    r###"",""###.to_string(),
                ];
                return Err(
                    match __lookahead {
                        Some(__token) => {
                            __lalrpop_util::ParseError::UnrecognizedToken {
                                token: __token,
                                expected: __expected,
                            }
                        }
                        None => {
                            let __location = __sym2.2.clone();
                            __lalrpop_util::ParseError::UnrecognizedEof {
                                location: __location,
                                expected: __expected,
                            }
                        }
                    }
                )
            }
        }
    }
}
#[allow(unused_imports)]
pub use self::__parse__S::SParser;
#[rustfmt::skip]
mod __intern_token {
    #![allow(unused_imports)]
    use crate::support::*;
    #[allow(unused_extern_crates)]
    extern crate lalrpop_util as __lalrpop_util;
    #[allow(unused_imports)]
    use self::__lalrpop_util::state_machine as __state_machine;
    #[allow(unused_extern_crates)]
    extern crate alloc;
    pub fn new_builder() -> __lalrpop_util::lexer::MatcherBuilder {
        let __strs: &[(&str, bool)] = &[
            (",", false),
            ("a", false),
            ("b", false),
            ("c", false),
            ("d", false),
            (r"\s+", true),
        ];
        __lalrpop_util::lexer::MatcherBuilder::new(__strs.iter().copied()).unwrap()
    }
}
pub(crate) use self::__lalrpop_util::lexer::Token;

#[allow(unused_variables)]
#[allow(clippy::too_many_arguments, clippy::needless_lifetimes, clippy::just_underscores_and_digits, clippy::extra_unused_type_parameters)]
fn __action0<
    'input,
>(
    input: &'input str,
    (_, __0, _): (usize, Vec<usize>, usize),
) -> Vec<usize>
{
    __0
}

#[allow(unused_variables)]
#[allow(clippy::too_many_arguments, clippy::needless_lifetimes, clippy::just_underscores_and_digits, clippy::extra_unused_type_parameters)]
fn __action1<
    'input,
>(
    input: &'input str,
    (_, l, _): (usize, usize, usize),
    (_, xs, _): (usize, alloc::vec::Vec<usize>, usize),
    (_, r, _): (usize, usize, usize),
) -> Vec<usize>
{
    { let _ = (&l, &r); xs }
}

#[allow(unused_variables)]
#[allow(clippy::too_many_arguments, clippy::needless_lifetimes, clippy::just_underscores_and_digits, clippy::extra_unused_type_parameters)]
fn __action2<
    'input,
>(
    input: &'input str,
    (_, x, _): (usize, Option<(Option<&'input str>, &'input str, Option<&'input str>)>, usize),
    (_, _, _): (usize, &'input str, usize),
) -> usize
{
    sz(&x)
}

#[allow(unused_variables)]
#[allow(clippy::too_many_arguments, clippy::needless_lifetimes, clippy::just_underscores_and_digits, clippy::extra_unused_type_parameters)]
fn __action3<
    'input,
>(
    input: &'input str,
    (_, _, _): (usize, &'input str, usize),
    (_, __0, _): (usize, Option<(Option<&'input str>, &'input str, Option<&'input str>)>, usize),
) -> Option<(Option<&'input str>, &'input str, Option<&'input str>)>
{
    __0
}

#[allow(unused_variables)]
#[allow(clippy::too_many_arguments, clippy::needless_lifetimes, clippy::just_underscores_and_digits, clippy::extra_unused_type_parameters)]
fn __action4<
    'input,
>(
    input: &'input str,
    (_, __0, _): (usize, &'input str, usize),
    (_, _, _): (usize, &'input str, usize),
) -> &'input str
{
    __0
}

#[allow(unused_variables)]
#[allow(clippy::too_many_arguments, clippy::needless_lifetimes, clippy::just_underscores_and_digits, clippy::extra_unused_type_parameters)]
fn __action5<
    'input,
>(
    input: &'input str,
    (_, __0, _): (usize, (Option<&'input str>, &'input str, Option<&'input str>), usize),
    (_, _, _): (usize, &'input str, usize),
) -> (Option<&'input str>, &'input str, Option<&'input str>)
{
    __0
}

#[allow(unused_variables)]
#[allow(clippy::too_many_arguments, clippy::needless_lifetimes, clippy::just_underscores_and_digits, clippy::extra_unused_type_parameters)]
fn __action6<
    'input,
>(
    input: &'input str,
    (_, __0, _): (usize, Option<&'input str>, usize),
    (_, __1, _): (usize, &'input str, usize),
    (_, __2, _): (usize, Option<&'input str>, usize),
) -> (Option<&'input str>, &'input str, Option<&'input str>)
{
    (__0, __1, __2)
}

#[allow(unused_variables)]
#[allow(clippy::too_many_arguments, clippy::needless_lifetimes, clippy::just_underscores_and_digits, clippy::extra_unused_type_parameters)]
fn __action7<
    'input,
>(
    input: &'input str,
    (_, __0, _): (usize, Option<&'input str>, usize),
) -> Option<&'input str>
{
    __0
}

#[allow(unused_variables)]
#[allow(clippy::too_many_arguments, clippy::needless_lifetimes, clippy::just_underscores_and_digits, clippy::extra_unused_type_parameters)]
fn __action8<
    'input,
>(
    input: &'input str,
    (_, __0, _): (usize, &'input str, usize),
) -> Option<&'input str>
{
    Some(__0)
}

#[allow(unused_variables)]
#[allow(clippy::too_many_arguments, clippy::needless_lifetimes, clippy::just_underscores_and_digits, clippy::extra_unused_type_parameters)]
fn __action9<
    'input,
>(
    input: &'input str,
    __lookbehind: &usize,
    __lookahead: &usize,
) -> Option<&'input str>
{
    None
}

#[allow(unused_variables)]
#[allow(clippy::too_many_arguments, clippy::needless_lifetimes, clippy::just_underscores_and_digits, clippy::extra_unused_type_parameters)]
fn __action10<
    'input,
>(
    input: &'input str,
    (_, __0, _): (usize, (Option<&'input str>, &'input str, Option<&'input str>), usize),
) -> Option<(Option<&'input str>, &'input str, Option<&'input str>)>
{
    Some(__0)
}

#[allow(unused_variables)]
#[allow(clippy::too_many_arguments, clippy::needless_lifetimes, clippy::just_underscores_and_digits, clippy::extra_unused_type_parameters)]
fn __action11<
    'input,
>(
    input: &'input str,
    __lookbehind: &usize,
    __lookahead: &usize,
) -> Option<(Option<&'input str>, &'input str, Option<&'input str>)>
{
    None
}

#[allow(unused_variables)]
#[allow(clippy::needless_lifetimes, clippy::clone_on_copy)]
fn __action12<
    'input,
>(
    input: &'input str,
    __lookbehind: &usize,
    __lookahead: &usize,
) -> usize
{
    __lookbehind.clone()
}

#[allow(unused_variables)]
#[allow(clippy::too_many_arguments, clippy::needless_lifetimes, clippy::just_underscores_and_digits, clippy::extra_unused_type_parameters)]
fn __action13<
    'input,
>(
    input: &'input str,
    __lookbehind: &usize,
    __lookahead: &usize,
) -> alloc::vec::Vec<usize>
{
    alloc::vec![]
}

#[allow(unused_variables)]
#[allow(clippy::too_many_arguments, clippy::needless_lifetimes, clippy::just_underscores_and_digits, clippy::extra_unused_type_parameters)]
fn __action14<
    'input,
>(
    input: &'input str,
    (_, v, _): (usize, alloc::vec::Vec<usize>, usize),
) -> alloc::vec::Vec<usize>
{
    v
}

#[allow(unused_variables)]
#[allow(clippy::needless_lifetimes, clippy::clone_on_copy)]
fn __action15<
    'input,
>(
    input: &'input str,
    __lookbehind: &usize,
    __lookahead: &usize,
) -> usize
{
    __lookahead.clone()
}

#[allow(unused_variables)]
#[allow(clippy::too_many_arguments, clippy::needless_lifetimes, clippy::just_underscores_and_digits, clippy::extra_unused_type_parameters)]
fn __action16<
    'input,
>(
    input: &'input str,
    (_, __0, _): (usize, usize, usize),
) -> alloc::vec::Vec<usize>
{
    alloc::vec![__0]
}

#[allow(unused_variables)]
#[allow(clippy::too_many_arguments, clippy::needless_lifetimes, clippy::just_underscores_and_digits, clippy::extra_unused_type_parameters)]
fn __action17<
    'input,
>(
    input: &'input str,
    (_, v, _): (usize, alloc::vec::Vec<usize>, usize),
    (_, e, _): (usize, usize, usize),
) -> alloc::vec::Vec<usize>
{
    { let mut v = v; v.push(e); v }
}

#[allow(unused_variables)]
#[allow(clippy::too_many_arguments, clippy::needless_lifetimes,
    clippy::just_underscores_and_digits, clippy::clone_on_copy, clippy::unit_arg)]
fn __action18<
    'input,
>(
    input: &'input str,
    __0: (usize, &'input str, usize),
) -> Option<&'input str>
{
    let __start0 = __0.0.clone();
    let __end0 = __0.2.clone();
    let __temp0 = __action8(
        input,
        __0,
    );
    let __temp0 = (__start0, __temp0, __end0);
    __action7(
        input,
        __temp0,
    )
}

#[allow(unused_variables)]
#[allow(clippy::too_many_arguments, clippy::needless_lifetimes,
    clippy::just_underscores_and_digits, clippy::clone_on_copy, clippy::unit_arg)]
fn __action19<
    'input,
>(
    input: &'input str,
    __lookbehind: &usize,
    __lookahead: &usize,
) -> Option<&'input str>
{
    let __start0 = __lookbehind.clone();
    let __end0 = __lookahead.clone();
    let __temp0 = __action9(
        input,
        &__start0,
        &__end0,
    );
    let __temp0 = (__start0, __temp0, __end0);
    __action7(
        input,
        __temp0,
    )
}

#[allow(unused_variables)]
#[allow(clippy::too_many_arguments, clippy::needless_lifetimes,
    clippy::just_underscores_and_digits, clippy::clone_on_copy, clippy::unit_arg)]
fn __action20<
    'input,
>(
    input: &'input str,
    __0: (usize, alloc::vec::Vec<usize>, usize),
    __1: (usize, usize, usize),
) -> Vec<usize>
{
    let __start0 = __0.0.clone();
    let __end0 = __0.0.clone();
    let __temp0 = __action15(
        input,
        &__start0,
        &__end0,
    );
    let __temp0 = (__start0, __temp0, __end0);
    __action1(
        input,
        __temp0,
        __0,
        __1,
    )
}

#[allow(unused_variables)]
#[allow(clippy::too_many_arguments, clippy::needless_lifetimes,
    clippy::just_underscores_and_digits, clippy::clone_on_copy, clippy::unit_arg)]
fn __action21<
    'input,
>(
    input: &'input str,
    __0: (usize, alloc::vec::Vec<usize>, usize),
) -> Vec<usize>
{
    let __start0 = __0.2.clone();
    let __end0 = __0.2.clone();
    let __temp0 = __action12(
        input,
        &__start0,
        &__end0,
    );
    let __temp0 = (__start0, __temp0, __end0);
    __action20(
        input,
        __0,
        __temp0,
    )
}

#[allow(unused_variables)]
#[allow(clippy::too_many_arguments, clippy::needless_lifetimes,
    clippy::just_underscores_and_digits, clippy::clone_on_copy, clippy::unit_arg)]
fn __action22<
    'input,
>(
    input: &'input str,
    __lookbehind: &usize,
    __lookahead: &usize,
) -> Vec<usize>
{
    let __start0 = __lookbehind.clone();
    let __end0 = __lookahead.clone();
    let __temp0 = __action13(
        input,
        &__start0,
        &__end0,
    );
    let __temp0 = (__start0, __temp0, __end0);
    __action21(
        input,
        __temp0,
    )
}

#[allow(unused_variables)]
#[allow(clippy::too_many_arguments, clippy::needless_lifetimes,
    clippy::just_underscores_and_digits, clippy::clone_on_copy, clippy::unit_arg)]
fn __action23<
    'input,
>(
    input: &'input str,
    __0: (usize, alloc::vec::Vec<usize>, usize),
) -> Vec<usize>
{
    let __start0 = __0.0.clone();
    let __end0 = __0.2.clone();
    let __temp0 = __action14(
        input,
        __0,
    );
    let __temp0 = (__start0, __temp0, __end0);
    __action21(
        input,
        __temp0,
    )
}

#[allow(unused_variables)]
#[allow(clippy::too_many_arguments, clippy::needless_lifetimes,
    clippy::just_underscores_and_digits, clippy::clone_on_copy, clippy::unit_arg)]
fn __action24<
    'input,
>(
    input: &'input str,
    __0: (usize, &'input str, usize),
    __1: (usize, (Option<&'input str>, &'input str, Option<&'input str>), usize),
) -> Option<(Option<&'input str>, &'input str, Option<&'input str>)>
{
    let __start0 = __1.0.clone();
    let __end0 = __1.2.clone();
    let __temp0 = __action10(
        input,
        __1,
    );
    let __temp0 = (__start0, __temp0, __end0);
    __action3(
        input,
        __0,
        __temp0,
    )
}

#[allow(unused_variables)]
#[allow(clippy::too_many_arguments, clippy::needless_lifetimes,
    clippy::just_underscores_and_digits, clippy::clone_on_copy, clippy::unit_arg)]
fn __action25<
    'input,
>(
    input: &'input str,
    __0: (usize, &'input str, usize),
) -> Option<(Option<&'input str>, &'input str, Option<&'input str>)>
{
    let __start0 = __0.2.clone();
    let __end0 = __0.2.clone();
    let __temp0 = __action11(
        input,
        &__start0,
        &__end0,
    );
    let __temp0 = (__start0, __temp0, __end0);
    __action3(
        input,
        __0,
        __temp0,
    )
}

#[allow(clippy::type_complexity, dead_code)]
pub trait __ToTriple<'input, >
{
    fn to_triple(self) -> Result<(usize,Token<'input>,usize), __lalrpop_util::ParseError<usize, Token<'input>, &'static str>>;
}

impl<'input, > __ToTriple<'input, > for (usize, Token<'input>, usize)
{
    fn to_triple(self) -> Result<(usize,Token<'input>,usize), __lalrpop_util::ParseError<usize, Token<'input>, &'static str>> {
        Ok(self)
    }
}
impl<'input, > __ToTriple<'input, > for Result<(usize, Token<'input>, usize), &'static str>
{
    fn to_triple(self) -> Result<(usize,Token<'input>,usize), __lalrpop_util::ParseError<usize, Token<'input>, &'static str>> {
        self.map_err(|error| __lalrpop_util::ParseError::User { error })
    }
}
