// auto-generated: "lalrpop 0.23.1"
// sha3: 82f46abfe61c73ea3d4c022d109f55555811dc62cb96c138fecafc8f88711f64
use crate::support::*;
#[allow(unused_extern_crates)]
extern crate lalrpop_util as __lalrpop_util;
#[allow(unused_imports)]
use self::__lalrpop_util::state_machine as __state_machine;
#[allow(unused_extern_crates)]
extern crate alloc;

#[rustfmt::skip]
#[allow(explicit_outlives_requirements, non_snake_case, non_camel_case_types, unused_mut, unused_variables, unused_imports, unused_parens, clippy::needless_lifetimes, clippy::type_complexity, clippy::needless_return, clippy::too_many_arguments, clippy::match_single_binding, clippy::clone_on_copy, clippy::unit_arg)]
mod __parse__S {

    use crate::support::*;
    #[allow(unused_extern_crates)]
    extern crate lalrpop_util as __lalrpop_util;
    #[allow(unused_imports)]
    use self::__lalrpop_util::state_machine as __state_machine;
    #[allow(unused_extern_crates)]
    extern crate alloc;
    use super::__ToTriple;
    pub struct SParser {
        _priv: (),
    }

    impl Default for SParser { fn default() -> Self { Self::new() } }
    impl SParser {
        pub fn new() -> SParser {
            SParser {
                _priv: (),
            }
        }

        #[allow(dead_code)]
        pub fn parse<
            __TOKEN: __ToTriple<>,
            __TOKENS: IntoIterator<Item=__TOKEN>,
        >(
            &self,
            __tokens0: __TOKENS,
        ) -> Result<Vec<usize>, __lalrpop_util::ParseError<Loc, Tok, String>>
        {
            let __tokens = __tokens0.into_iter();
            let mut __tokens = __tokens.map(|t| __ToTriple::to_triple(t));
            let __lookahead = match __tokens.next() {
                Some(Ok(v)) => Some(v),
                Some(Err(e)) => return Err(e),
                None => None,
            };
            match __state0(&mut __tokens, __lookahead, core::marker::PhantomData::<()>)? {
                (Some(__lookahead), _) => {
                    Err(__lalrpop_util::ParseError::ExtraToken { token: __lookahead })
                }
                (None, __Nonterminal::____S((_, __nt, _))) => {
                    Ok(__nt)
                }
                _ => unreachable!(),
            }
        }
    }

    #[allow(dead_code)]
    enum __Nonterminal<>
     {
        _28_22c_22_20N4_29((Loc, (Tok, Tok), Loc)),
        _28_22c_22_20N4_29_2b((Loc, alloc::vec::Vec<(Tok, Tok)>, Loc)),
        _28_3cN3_3e_20_22_2c_22_29((Loc, alloc::vec::Vec<(Tok, Tok)>, Loc)),
        _28_3cN3_3e_20_22_2c_22_29_2a((Loc, alloc::vec::Vec<alloc::vec::Vec<(Tok, Tok)>>, Loc)),
        _28_3cN3_3e_20_22_2c_22_29_2b((Loc, alloc::vec::Vec<alloc::vec::Vec<(Tok, Tok)>>, Loc)),
        _28_3cN4_3e_20_22_2c_22_29((Loc, Tok, Loc)),
        _28_3cN4_3e_20_22_2c_22_29_2a((Loc, alloc::vec::Vec<Tok>, Loc)),
        _28_3cN4_3e_20_22_2c_22_29_2b((Loc, alloc::vec::Vec<Tok>, Loc)),
        _40L((Loc, Loc, Loc)),
        _40R((Loc, Loc, Loc)),
        Item((Loc, usize, Loc)),
        Item_2a((Loc, alloc::vec::Vec<usize>, Loc)),
        Item_2b((Loc, alloc::vec::Vec<usize>, Loc)),
        N0((Loc, (alloc::vec::Vec<alloc::vec::Vec<(Tok, Tok)>>, Tok, alloc::vec::Vec<(Tok, Tok)>), Loc)),
        N1((Loc, alloc::vec::Vec<Tok>, Loc)),
        N2((Loc, alloc::vec::Vec<alloc::vec::Vec<(Tok, Tok)>>, Loc)),
        N3((Loc, alloc::vec::Vec<(Tok, Tok)>, Loc)),
        N4((Loc, Tok, Loc)),
        S((Loc, Vec<usize>, Loc)),
        ____S((Loc, Vec<usize>, Loc)),
    }

    fn __state0<
        __TOKENS: Iterator<Item=Result<(Loc, Tok, Loc),__lalrpop_util::ParseError<Loc, Tok, String>>>,
    >(
        __tokens: &mut __TOKENS,
        __lookahead: Option<(Loc, Tok, Loc)>,
        _: core::marker::PhantomData<()>,
    ) -> Result<(Option<(Loc, Tok, Loc)>, __Nonterminal<>), __lalrpop_util::ParseError<Loc, Tok, String>>
    {
        let mut __result: (Option<(Loc, Tok, Loc)>, __Nonterminal<>);
        match __lookahead {
            Some((__loc1, __tok @ Tok::C, __loc2)) => {
                let __sym0 = (__loc1, (__tok), __loc2);
                __result = __state3(__tokens, __sym0, core::marker::PhantomData::<()>)?;
            }
            Some((_, Tok::D, _)) => {
                let __start: Loc = __lookahead.as_ref().map(|o| o.0.clone()).unwrap_or_default();
                let __end = __start.clone();
                let __nt = super::__action31::<>(&__start, &__end);
                let __nt = __Nonterminal::N2((
                    __start,
                    __nt,
                    __end,
                ));
                __result = (__lookahead, __nt);
            }
            None => {
                let __start: Loc = __lookahead.as_ref().map(|o| o.0.clone()).unwrap_or_default();
                let __end = __start.clone();
                let __nt = super::__action39::<>(&__start, &__end);
                let __nt = __Nonterminal::S((
                    __start,
                    __nt,
                    __end,
                ));
                __result = (__lookahead, __nt);
            }
            _ => {
                #[allow(clippy::needless_raw_string_hashes)]
                let __expected = alloc::vec![
                    r###""c""###.to_string(),
                    r###""d""###.to_string(),
                ];
                return Err(
                    match __lookahead {
                        Some(__token) => {
                            __lalrpop_util::ParseError::UnrecognizedToken {
                                token: __token,
                                expected: __expected,
                            }
                        }
                        None => {
                            let __location = Default::default();
                            __lalrpop_util::ParseError::UnrecognizedEof {
                                location: __location,
                                expected: __expected,
                            }
                        }
                    }
                )
            }
        }
        #[allow(clippy::never_loop)]
        loop {
            let (__lookahead, __nt) = __result;
            match __nt {
                __Nonterminal::_28_22c_22_20N4_29_2b(__sym0) => {
                    __result = __state6(__tokens, __lookahead, __sym0, core::marker::PhantomData::<()>)?;
                }
                __Nonterminal::_28_3cN3_3e_20_22_2c_22_29_2b(__sym0) => {
                    __result = __state1(__tokens, __lookahead, __sym0, core::marker::PhantomData::<()>)?;
                }
                __Nonterminal::Item(__sym0) => {
                    __result = __state7(__tokens, __lookahead, __sym0, core::marker::PhantomData::<()>)?;
                }
                __Nonterminal::Item_2b(__sym0) => {
                    __result = __state2(__tokens, __lookahead, __sym0, core::marker::PhantomData::<()>)?;
                }
                __Nonterminal::N0(__sym0) => {
                    __result = __state8(__tokens, __lookahead, __sym0, core::marker::PhantomData::<()>)?;
                }
                __Nonterminal::N2(__sym0) => {
                    __result = __state9(__tokens, __lookahead, __sym0, core::marker::PhantomData::<()>)?;
                }
                __Nonterminal::N3(__sym0) => {
                    __result = __state10(__tokens, __lookahead, __sym0, core::marker::PhantomData::<()>)?;
                }
                __Nonterminal::S(__sym0) => {
                    __result = __state11(__tokens, __lookahead, __sym0, core::marker::PhantomData::<()>)?;
                }
                _ => {
                    return Ok((__lookahead, __nt));
                }
            }
        }
    }

    fn __state1<
        __TOKENS: Iterator<Item=Result<(Loc, Tok, Loc),__lalrpop_util::ParseError<Loc, Tok, String>>>,
    >(
        __tokens: &mut __TOKENS,
        __lookahead: Option<(Loc, Tok, Loc)>,
        __sym0: (Loc, alloc::vec::Vec<alloc::vec::Vec<(Tok, Tok)>>, Loc),
        _: core::marker::PhantomData<()>,
    ) -> Result<(Option<(Loc, Tok, Loc)>, __Nonterminal<>), __lalrpop_util::ParseError<Loc, Tok, String>>
    {
        let mut __result: (Option<(Loc, Tok, Loc)>, __Nonterminal<>);
        match __lookahead {
            Some((__loc1, __tok @ Tok::C, __loc2)) => {
                let __sym1 = (__loc1, (__tok), __loc2);
                __result = __state3(__tokens, __sym1, core::marker::PhantomData::<()>)?;
            }
            Some((_, Tok::D, _)) => {
                let __start = __sym0.0.clone();
                let __end = __sym0.2.clone();
                let __nt = super::__action32::<>(__sym0);
                let __nt = __Nonterminal::N2((
                    __start,
                    __nt,
                    __end,
                ));
                __result = (__lookahead, __nt);
                return Ok(__result);
            }
            _ => {
                #[allow(clippy::needless_raw_string_hashes)]
                let __expected = alloc::vec![
                    r###""c""###.to_string(),
                    r###""d""###.to_string(),
                ];
                return Err(
                    match __lookahead {
                        Some(__token) => {
                            __lalrpop_util::ParseError::UnrecognizedToken {
                                token: __token,
                                expected: __expected,
                            }
                        }
                        None => {
                            let __location = __sym0.2.clone();
                            __lalrpop_util::ParseError::UnrecognizedEof {
                                location: __location,
                                expected: __expected,
                            }
                        }
                    }
                )
            }
        }
        #[allow(clippy::never_loop)]
        loop {
            let (__lookahead, __nt) = __result;
            match __nt {
                __Nonterminal::_28_22c_22_20N4_29_2b(__sym1) => {
                    __result = __state6(__tokens, __lookahead, __sym1, core::marker::PhantomData::<()>)?;
                }
                __Nonterminal::N3(__sym1) => {
                    __result = __state12(__tokens, __lookahead, __sym0, __sym1, core::marker::PhantomData::<()>)?;
                    return Ok(__result);
                }
                _ => {
                    return Ok((__lookahead, __nt));
                }
            }
        }
    }

    fn __state2<
        __TOKENS: Iterator<Item=Result<(Loc, Tok, Loc),__lalrpop_util::ParseError<Loc, Tok, String>>>,
    >(
        __tokens: &mut __TOKENS,
        __lookahead: Option<(Loc, Tok, Loc)>,
        __sym0: (Loc, alloc::vec::Vec<usize>, Loc),
        _: core::marker::PhantomData<()>,
    ) -> Result<(Option<(Loc, Tok, Loc)>, __Nonterminal<>), __lalrpop_util::ParseError<Loc, Tok, String>>
    {
        let mut __result: (Option<(Loc, Tok, Loc)>, __Nonterminal<>);
        match __lookahead {
            Some((__loc1, __tok @ Tok::C, __loc2)) => {
                let __sym1 = (__loc1, (__tok), __loc2);
                __result = __state3(__tokens, __sym1, core::marker::PhantomData::<()>)?;
            }
            Some((_, Tok::D, _)) => {
                let __start = __lookahead.as_ref().map(|o| o.0.clone()).unwrap_or_else(|| __sym0.2.clone());
                let __end = __start.clone();
                let __nt = super::__action31::<>(&__start, &__end);
                let __nt = __Nonterminal::N2((
                    __start,
                    __nt,
                    __end,
                ));
                __result = (__lookahead, __nt);
            }
            None => {
                let __start = __sym0.0.clone();
                let __end = __sym0.2.clone();
                let __nt = super::__action40::<>(__sym0);
                let __nt = __Nonterminal::S((
                    __start,
                    __nt,
                    __end,
                ));
                __result = (__lookahead, __nt);
                return Ok(__result);
            }
            _ => {
                #[allow(clippy::needless_raw_string_hashes)]
                let __expected = alloc::vec![
                    r###""c""###.to_string(),
                    r###""d""###.to_string(),
                ];
                return Err(
                    match __lookahead {
                        Some(__token) => {
                            __lalrpop_util::ParseError::UnrecognizedToken {
                                token: __token,
                                expected: __expected,
                            }
                        }
                        None => {
                            let __location = __sym0.2.clone();
                            __lalrpop_util::ParseError::UnrecognizedEof {
                                location: __location,
                                expected: __expected,
                            }
                        }
                    }
                )
            }
        }
        #[allow(clippy::never_loop)]
        loop {
            let (__lookahead, __nt) = __result;
            match __nt {
                __Nonterminal::_28_22c_22_20N4_29_2b(__sym1) => {
                    __result = __state6(__tokens, __lookahead, __sym1, core::marker::PhantomData::<()>)?;
                }
                __Nonterminal::_28_3cN3_3e_20_22_2c_22_29_2b(__sym1) => {
                    __result = __state1(__tokens, __lookahead, __sym1, core::marker::PhantomData::<()>)?;
                }
                __Nonterminal::Item(__sym1) => {
                    __result = __state13(__tokens, __lookahead, __sym0, __sym1, core::marker::PhantomData::<()>)?;
                    return Ok(__result);
                }
                __Nonterminal::N0(__sym1) => {
                    __result = __state8(__tokens, __lookahead, __sym1, core::marker::PhantomData::<()>)?;
                }
                __Nonterminal::N2(__sym1) => {
                    __result = __state9(__tokens, __lookahead, __sym1, core::marker::PhantomData::<()>)?;
                }
                __Nonterminal::N3(__sym1) => {
                    __result = __state10(__tokens, __lookahead, __sym1, core::marker::PhantomData::<()>)?;
                }
                _ => {
                    return Ok((__lookahead, __nt));
                }
            }
        }
    }

    fn __state3<
        __TOKENS: Iterator<Item=Result<(Loc, Tok, Loc),__lalrpop_util::ParseError<Loc, Tok, String>>>,
    >(
        __tokens: &mut __TOKENS,
        __sym0: (Loc, Tok, Loc),
        _: core::marker::PhantomData<()>,
    ) -> Result<(Option<(Loc, Tok, Loc)>, __Nonterminal<>), __lalrpop_util::ParseError<Loc, Tok, String>>
    {
        let mut __result: (Option<(Loc, Tok, Loc)>, __Nonterminal<>);
        let __lookahead = match __tokens.next() {
            Some(Ok(v)) => Some(v),
            Some(Err(e)) => return Err(e),
            None => None,
        };
        match __lookahead {
            Some((__loc1, __tok @ Tok::A, __loc2)) => {
                let __sym1 = (__loc1, (__tok), __loc2);
                __result = __state17(__tokens, __sym1, core::marker::PhantomData::<()>)?;
            }
            _ => {
                #[allow(clippy::needless_raw_string_hashes)]
                let __expected = alloc::vec![
                    r###""a""###.to_string(),
                ];
                return Err(
                    match __lookahead {
                        Some(__token) => {
                            __lalrpop_util::ParseError::UnrecognizedToken {
                                token: __token,
                                expected: __expected,
                            }
                        }
                        None => {
                            let __location = __sym0.2.clone();
                            __lalrpop_util::ParseError::UnrecognizedEof {
                                location: __location,
                                expected: __expected,
                            }
                        }
                    }
                )
            }
        }
        #[allow(clippy::never_loop)]
        loop {
            let (__lookahead, __nt) = __result;
            match __nt {
                __Nonterminal::N4(__sym1) => {
                    __result = __state16(__tokens, __lookahead, __sym0, __sym1, core::marker::PhantomData::<()>)?;
                    return Ok(__result);
                }
                _ => {
                    return Ok((__lookahead, __nt));
                }
            }
        }
    }

    fn __state4<
        __TOKENS: Iterator<Item=Result<(Loc, Tok, Loc),__lalrpop_util::ParseError<Loc, Tok, String>>>,
    >(
        __tokens: &mut __TOKENS,
        __sym0: (Loc, alloc::vec::Vec<(Tok, Tok)>, Loc),
        __sym1: (Loc, Tok, Loc),
        _: core::marker::PhantomData<()>,
    ) -> Result<(Option<(Loc, Tok, Loc)>, __Nonterminal<>), __lalrpop_util::ParseError<Loc, Tok, String>>
    {
        let mut __result: (Option<(Loc, Tok, Loc)>, __Nonterminal<>);
        let __lookahead = match __tokens.next() {
            Some(Ok(v)) => Some(v),
            Some(Err(e)) => return Err(e),
            None => None,
        };
        match __lookahead {
            Some((__loc1, __tok @ Tok::A, __loc2)) => {
                let __sym2 = (__loc1, (__tok), __loc2);
                __result = __state17(__tokens, __sym2, core::marker::PhantomData::<()>)?;
            }
            _ => {
                #[allow(clippy::needless_raw_string_hashes)]
                let __expected = alloc::vec![
                    r###""a""###.to_string(),
                ];
                return Err(
                    match __lookahead {
                        Some(__token) => {
                            __lalrpop_util::ParseError::UnrecognizedToken {
                                token: __token,
                                expected: __expected,
                            }
                        }
                        None => {
                            let __location = __sym1.2.clone();
                            __lalrpop_util::ParseError::UnrecognizedEof {
                                location: __location,
                                expected: __expected,
                            }
                        }
                    }
                )
            }
        }
        #[allow(clippy::never_loop)]
        loop {
            let (__lookahead, __nt) = __result;
            match __nt {
                __Nonterminal::N4(__sym2) => {
                    __result = __state18(__tokens, __lookahead, __sym0, __sym1, __sym2, core::marker::PhantomData::<()>)?;
                    return Ok(__result);
                }
                _ => {
                    return Ok((__lookahead, __nt));
                }
            }
        }
    }

    fn __state5<
        __TOKENS: Iterator<Item=Result<(Loc, Tok, Loc),__lalrpop_util::ParseError<Loc, Tok, String>>>,
    >(
        __tokens: &mut __TOKENS,
        __sym0: (Loc, alloc::vec::Vec<alloc::vec::Vec<(Tok, Tok)>>, Loc),
        __sym1: (Loc, Tok, Loc),
        _: core::marker::PhantomData<()>,
    ) -> Result<(Option<(Loc, Tok, Loc)>, __Nonterminal<>), __lalrpop_util::ParseError<Loc, Tok, String>>
    {
        let mut __result: (Option<(Loc, Tok, Loc)>, __Nonterminal<>);
        let __lookahead = match __tokens.next() {
            Some(Ok(v)) => Some(v),
            Some(Err(e)) => return Err(e),
            None => None,
        };
        match __lookahead {
            Some((__loc1, __tok @ Tok::C, __loc2)) => {
                let __sym2 = (__loc1, (__tok), __loc2);
                __result = __state3(__tokens, __sym2, core::marker::PhantomData::<()>)?;
            }
            _ => {
                #[allow(clippy::needless_raw_string_hashes)]
                let __expected = alloc::vec![
                    r###""c""###.to_string(),
                ];
                return Err(
                    match __lookahead {
                        Some(__token) => {
                            __lalrpop_util::ParseError::UnrecognizedToken {
                                token: __token,
                                expected: __expected,
                            }
                        }
                        None => {
                            let __location = __sym1.2.clone();
                            __lalrpop_util::ParseError::UnrecognizedEof {
                                location: __location,
                                expected: __expected,
                            }
                        }
                    }
                )
            }
        }
        #[allow(clippy::never_loop)]
        loop {
            let (__lookahead, __nt) = __result;
            match __nt {
                __Nonterminal::_28_22c_22_20N4_29_2b(__sym2) => {
                    __result = __state6(__tokens, __lookahead, __sym2, core::marker::PhantomData::<()>)?;
                }
                __Nonterminal::N3(__sym2) => {
                    __result = __state20(__tokens, __lookahead, __sym0, __sym1, __sym2, core::marker::PhantomData::<()>)?;
                    return Ok(__result);
                }
                _ => {
                    return Ok((__lookahead, __nt));
                }
            }
        }
    }

    fn __state6<
        __TOKENS: Iterator<Item=Result<(Loc, Tok, Loc),__lalrpop_util::ParseError<Loc, Tok, String>>>,
    >(
        __tokens: &mut __TOKENS,
        __lookahead: Option<(Loc, Tok, Loc)>,
        __sym0: (Loc, alloc::vec::Vec<(Tok, Tok)>, Loc),
        _: core::marker::PhantomData<()>,
    ) -> Result<(Option<(Loc, Tok, Loc)>, __Nonterminal<>), __lalrpop_util::ParseError<Loc, Tok, String>>
    {
        let mut __result: (Option<(Loc, Tok, Loc)>, __Nonterminal<>);
        match __lookahead {
            Some((__loc1, __tok @ Tok::C, __loc2)) => {
                let __sym1 = (__loc1, (__tok), __loc2);
                __result = __state4(__tokens, __sym0, __sym1, core::marker::PhantomData::<()>)?;
                return Ok(__result);
            }
            Some((_, Tok::Comma, _)) => {
                let __start = __sym0.0.clone();
                let __end = __sym0.2.clone();
                let __nt = super::__action6::<>(__sym0);
                let __nt = __Nonterminal::N3((
                    __start,
                    __nt,
                    __end,
                ));
                __result = (__lookahead, __nt);
                return Ok(__result);
            }
            _ => {
                #[allow(clippy::needless_raw_string_hashes)]
                let __expected = alloc::vec![
                    r###""c""###.to_string(),
                    r###"",""###.to_string(),
                ];
                return Err(
                    match __lookahead {
                        Some(__token) => {
                            __lalrpop_util::ParseError::UnrecognizedToken {
                                token: __token,
                                expected: __expected,
                            }
                        }
                        None => {
                            let __location = __sym0.2.clone();
                            __lalrpop_util::ParseError::UnrecognizedEof {
                                location: __location,
                                expected: __expected,
                            }
                        }
                    }
                )
            }
        }
    }

    fn __state7<
        __TOKENS: Iterator<Item=Result<(Loc, Tok, Loc),__lalrpop_util::ParseError<Loc, Tok, String>>>,
    >(
        __tokens: &mut __TOKENS,
        __lookahead: Option<(Loc, Tok, Loc)>,
        __sym0: (Loc, usize, Loc),
        _: core::marker::PhantomData<()>,
    ) -> Result<(Option<(Loc, Tok, Loc)>, __Nonterminal<>), __lalrpop_util::ParseError<Loc, Tok, String>>
    {
        let mut __result: (Option<(Loc, Tok, Loc)>, __Nonterminal<>);
        match __lookahead {
            Some((_, Tok::C, _)) |
            Some((_, Tok::D, _)) |
            None => {
                let __start = __sym0.0.clone();
                let __end = __sym0.2.clone();
                let __nt = super::__action21::<>(__sym0);
                let __nt = __Nonterminal::Item_2b((
                    __start,
                    __nt,
                    __end,
                ));
                __result = (__lookahead, __nt);
                return Ok(__result);
            }
            _ => {
                #[allow(clippy::needless_raw_string_hashes)]
                let __expected = alloc::vec![
                    r###""c""###.to_string(),
                    r###""d""###.to_string(),
                ];
                return Err(
                    match __lookahead {
                        Some(__token) => {
                            __lalrpop_util::ParseError::UnrecognizedToken {
                                token: __token,
                                expected: __expected,
                            }
                        }
                        None => {
                            let __location = __sym0.2.clone();
                            __lalrpop_util::ParseError::UnrecognizedEof {
                                location: __location,
                                expected: __expected,
                            }
                        }
                    }
                )
            }
        }
    }

    fn __state8<
        __TOKENS: Iterator<Item=Result<(Loc, Tok, Loc),__lalrpop_util::ParseError<Loc, Tok, String>>>,
    >(
        __tokens: &mut __TOKENS,
        __lookahead: Option<(Loc, Tok, Loc)>,
        __sym0: (Loc, (alloc::vec::Vec<alloc::vec::Vec<(Tok, Tok)>>, Tok, alloc::vec::Vec<(Tok, Tok)>), Loc),
        _: core::marker::PhantomData<()>,
    ) -> Result<(Option<(Loc, Tok, Loc)>, __Nonterminal<>), __lalrpop_util::ParseError<Loc, Tok, String>>
    {
        let mut __result: (Option<(Loc, Tok, Loc)>, __Nonterminal<>);
        match __lookahead {
            Some((__loc1, __tok @ Tok::Comma, __loc2)) => {
                let __sym1 = (__loc1, (__tok), __loc2);
                __result = __state14(__tokens, __sym0, __sym1, core::marker::PhantomData::<()>)?;
                return Ok(__result);
            }
            _ => {
                #[allow(clippy::needless_raw_string_hashes)]
                let __expected = alloc::vec![
                    r###"",""###.to_string(),
                ];
                return Err(
                    match __lookahead {
                        Some(__token) => {
                            __lalrpop_util::ParseError::UnrecognizedToken {
                                token: __token,
                                expected: __expected,
                            }
                        }
                        None => {
                            let __location = __sym0.2.clone();
                            __lalrpop_util::ParseError::UnrecognizedEof {
                                location: __location,
                                expected: __expected,
                            }
                        }
                    }
                )
            }
        }
    }

    fn __state9<
        __TOKENS: Iterator<Item=Result<(Loc, Tok, Loc),__lalrpop_util::ParseError<Loc, Tok, String>>>,
    >(
        __tokens: &mut __TOKENS,
        __lookahead: Option<(Loc, Tok, Loc)>,
        __sym0: (Loc, alloc::vec::Vec<alloc::vec::Vec<(Tok, Tok)>>, Loc),
        _: core::marker::PhantomData<()>,
    ) -> Result<(Option<(Loc, Tok, Loc)>, __Nonterminal<>), __lalrpop_util::ParseError<Loc, Tok, String>>
    {
        let mut __result: (Option<(Loc, Tok, Loc)>, __Nonterminal<>);
        match __lookahead {
            Some((__loc1, __tok @ Tok::D, __loc2)) => {
                let __sym1 = (__loc1, (__tok), __loc2);
                __result = __state5(__tokens, __sym0, __sym1, core::marker::PhantomData::<()>)?;
                return Ok(__result);
            }
            _ => {
                #[allow(clippy::needless_raw_string_hashes)]
                let __expected = alloc::vec![
                    r###""d""###.to_string(),
                ];
                return Err(
                    match __lookahead {
                        Some(__token) => {
                            __lalrpop_util::ParseError::UnrecognizedToken {
                                token: __token,
                                expected: __expected,
                            }
                        }
                        None => {
                            let __location = __sym0.2.clone();
                            __lalrpop_util::ParseError::UnrecognizedEof {
                                location: __location,
                                expected: __expected,
                            }
                        }
                    }
                )
            }
        }
    }

    fn __state10<
        __TOKENS: Iterator<Item=Result<(Loc, Tok, Loc),__lalrpop_util::ParseError<Loc, Tok, String>>>,
    >(
        __tokens: &mut __TOKENS,
        __lookahead: Option<(Loc, Tok, Loc)>,
        __sym0: (Loc, alloc::vec::Vec<(Tok, Tok)>, Loc),
        _: core::marker::PhantomData<()>,
    ) -> Result<(Option<(Loc, Tok, Loc)>, __Nonterminal<>), __lalrpop_util::ParseError<Loc, Tok, String>>
    {
        let mut __result: (Option<(Loc, Tok, Loc)>, __Nonterminal<>);
        match __lookahead {
            Some((__loc1, __tok @ Tok::Comma, __loc2)) => {
                let __sym1 = (__loc1, (__tok), __loc2);
                __result = __state15(__tokens, __sym0, __sym1, core::marker::PhantomData::<()>)?;
                return Ok(__result);
            }
            _ => {
                #[allow(clippy::needless_raw_string_hashes)]
                let __expected = alloc::vec![
                    r###"",""###.to_string(),
                ];
                return Err(
                    match __lookahead {
                        Some(__token) => {
                            __lalrpop_util::ParseError::UnrecognizedToken {
                                token: __token,
                                expected: __expected,
                            }
                        }
                        None => {
                            let __location = __sym0.2.clone();
                            __lalrpop_util::ParseError::UnrecognizedEof {
                                location: __location,
                                expected: __expected,
                            }
                        }
                    }
                )
            }
        }
    }

    fn __state11<
        __TOKENS: Iterator<Item=Result<(Loc, Tok, Loc),__lalrpop_util::ParseError<Loc, Tok, String>>>,
    >(
        __tokens: &mut __TOKENS,
        __lookahead: Option<(Loc, Tok, Loc)>,
        __sym0: (Loc, Vec<usize>, Loc),
        _: core::marker::PhantomData<()>,
    ) -> Result<(Option<(Loc, Tok, Loc)>, __Nonterminal<>), __lalrpop_util::ParseError<Loc, Tok, String>>
    {
        let mut __result: (Option<(Loc, Tok, Loc)>, __Nonterminal<>);
        match __lookahead {
            None => {
                let __start = __sym0.0.clone();
                let __end = __sym0.2.clone();
                let __nt = super::__action0::<>(__sym0);
                let __nt = __Nonterminal::____S((
                    __start,
                    __nt,
                    __end,
                ));
                __result = (__lookahead, __nt);
                return Ok(__result);
            }
            _ => {
                #[allow(clippy::needless_raw_string_hashes)]
                let __expected = alloc::vec![
                ];
                return Err(
                    match __lookahead {
                        Some(__token) => {
                            __lalrpop_util::ParseError::UnrecognizedToken {
                                token: __token,
                                expected: __expected,
                            }
                        }
                        None => {
                            let __location = __sym0.2.clone();
                            __lalrpop_util::ParseError::UnrecognizedEof {
                                location: __location,
                                expected: __expected,
                            }
                        }
                    }
                )
            }
        }
    }

    fn __state12<
        __TOKENS: Iterator<Item=Result<(Loc, Tok, Loc),__lalrpop_util::ParseError<Loc, Tok, String>>>,
    >(
        __tokens: &mut __TOKENS,
        __lookahead: Option<(Loc, Tok, Loc)>,
        __sym0: (Loc, alloc::vec::Vec<alloc::vec::Vec<(Tok, Tok)>>, Loc),
        __sym1: (Loc, alloc::vec::Vec<(Tok, Tok)>, Loc),
        _: core::marker::PhantomData<()>,
    ) -> Result<(Option<(Loc, Tok, Loc)>, __Nonterminal<>), __lalrpop_util::ParseError<Loc, Tok, String>>
    {
        let mut __result: (Option<(Loc, Tok, Loc)>, __Nonterminal<>);
        match __lookahead {
            Some((__loc1, __tok @ Tok::Comma, __loc2)) => {
                let __sym2 = (__loc1, (__tok), __loc2);
                __result = __state19(__tokens, __sym0, __sym1, __sym2, core::marker::PhantomData::<()>)?;
                return Ok(__result);
            }
            _ => {
                #[allow(clippy::needless_raw_string_hashes)]
                let __expected = alloc::vec![
                    r###"",""###.to_string(),
                ];
                return Err(
                    match __lookahead {
                        Some(__token) => {
                            __lalrpop_util::ParseError::UnrecognizedToken {
                                token: __token,
                                expected: __expected,
                            }
                        }
                        None => {
                            let __location = __sym1.2.clone();
                            __lalrpop_util::ParseError::UnrecognizedEof {
                                location: __location,
                                expected: __expected,
                            }
                        }
                    }
                )
            }
        }
    }

    fn __state13<
        __TOKENS: Iterator<Item=Result<(Loc, Tok, Loc),__lalrpop_util::ParseError<Loc, Tok, String>>>,
    >(
        __tokens: &mut __TOKENS,
        __lookahead: Option<(Loc, Tok, Loc)>,
        __sym0: (Loc, alloc::vec::Vec<usize>, Loc),
        __sym1: (Loc, usize, Loc),
        _: core::marker::PhantomData<()>,
    ) -> Result<(Option<(Loc, Tok, Loc)>, __Nonterminal<>), __lalrpop_util::ParseError<Loc, Tok, String>>
    {
        let mut __result: (Option<(Loc, Tok, Loc)>, __Nonterminal<>);
        match __lookahead {
            Some((_, Tok::C, _)) |
            Some((_, Tok::D, _)) |
            None => {
                let __start = __sym0.0.clone();
                let __end = __sym1.2.clone();
                let __nt = super::__action22::<>(__sym0, __sym1);
                let __nt = __Nonterminal::Item_2b((
                    __start,
                    __nt,
                    __end,
                ));
                __result = (__lookahead, __nt);
                return Ok(__result);
            }
            _ => {
                #[allow(clippy::needless_raw_string_hashes)]
                let __expected = alloc::vec![
                    r###""c""###.to_string(),
                    r###""d""###.to_string(),
                ];
                return Err(
                    match __lookahead {
                        Some(__token) => {
                            __lalrpop_util::ParseError::UnrecognizedToken {
                                token: __token,
                                expected: __expected,
                            }
                        }
                        None => {
                            let __location = __sym1.2.clone();
                            __lalrpop_util::ParseError::UnrecognizedEof {
                                location: __location,
                                expected: __expected,
                            }
                        }
                    }
                )
            }
        }
    }

    fn __state14<
        __TOKENS: Iterator<Item=Result<(Loc, Tok, Loc),__lalrpop_util::ParseError<Loc, Tok, String>>>,
    >(
        __tokens: &mut __TOKENS,
        __sym0: (Loc, (alloc::vec::Vec<alloc::vec::Vec<(Tok, Tok)>>, Tok, alloc::vec::Vec<(Tok, Tok)>), Loc),
        __sym1: (Loc, Tok, Loc),
        _: core::marker::PhantomData<()>,
    ) -> Result<(Option<(Loc, Tok, Loc)>, __Nonterminal<>), __lalrpop_util::ParseError<Loc, Tok, String>>
    {
        let mut __result: (Option<(Loc, Tok, Loc)>, __Nonterminal<>);
        let __lookahead = match __tokens.next() {
            Some(Ok(v)) => Some(v),
            Some(Err(e)) => return Err(e),
            None => None,
        };
        match __lookahead {
            Some((_, Tok::C, _)) |
            Some((_, Tok::D, _)) |
            None => {
                let __start = __sym0.0.clone();
                let __end = __sym1.2.clone();
                let __nt = super::__action2::<>(__sym0, __sym1);
                let __nt = __Nonterminal::Item((
                    __start,
                    __nt,
                    __end,
                ));
                __result = (__lookahead, __nt);
                return Ok(__result);
            }
            _ => {
                #[allow(clippy::needless_raw_string_hashes)]
                let __expected = alloc::vec![
                    r###""c""###.to_string(),
                    r###""d""###.to_string(),
                ];
                return Err(
                    match __lookahead {
                        Some(__token) => {
                            __lalrpop_util::ParseError::UnrecognizedToken {
                                token: __token,
                                expected: __expected,
                            }
                        }
                        None => {
                            let __location = __sym1.2.clone();
                            __lalrpop_util::ParseError::UnrecognizedEof {
                                location: __location,
                                expected: __expected,
                            }
                        }
                    }
                )
            }
        }
    }

    fn __state15<
        __TOKENS: Iterator<Item=Result<(Loc, Tok, Loc),__lalrpop_util::ParseError<Loc, Tok, String>>>,
    >(
        __tokens: &mut __TOKENS,
        __sym0: (Loc, alloc::vec::Vec<(Tok, Tok)>, Loc),
        __sym1: (Loc, Tok, Loc),
        _: core::marker::PhantomData<()>,
    ) -> Result<(Option<(Loc, Tok, Loc)>, __Nonterminal<>), __lalrpop_util::ParseError<Loc, Tok, String>>
    {
        let mut __result: (Option<(Loc, Tok, Loc)>, __Nonterminal<>);
        let __lookahead = match __tokens.next() {
            Some(Ok(v)) => Some(v),
            Some(Err(e)) => return Err(e),
            None => None,
        };
        match __lookahead {
            Some((_, Tok::C, _)) |
            Some((_, Tok::D, _)) => {
                let __start = __sym0.0.clone();
                let __end = __sym1.2.clone();
                let __nt = super::__action29::<>(__sym0, __sym1);
                let __nt = __Nonterminal::_28_3cN3_3e_20_22_2c_22_29_2b((
                    __start,
                    __nt,
                    __end,
                ));
                __result = (__lookahead, __nt);
                return Ok(__result);
            }
            _ => {
                #[allow(clippy::needless_raw_string_hashes)]
                let __expected = alloc::vec![
                    r###""c""###.to_string(),
                    r###""d""###.to_string(),
                ];
                return Err(
                    match __lookahead {
                        Some(__token) => {
                            __lalrpop_util::ParseError::UnrecognizedToken {
                                token: __token,
                                expected: __expected,
                            }
                        }
                        None => {
                            let __location = __sym1.2.clone();
                            __lalrpop_util::ParseError::UnrecognizedEof {
                                location: __location,
                                expected: __expected,
                            }
                        }
                    }
                )
            }
        }
    }

    fn __state16<
        __TOKENS: Iterator<Item=Result<(Loc, Tok, Loc),__lalrpop_util::ParseError<Loc, Tok, String>>>,
    >(
        __tokens: &mut __TOKENS,
        __lookahead: Option<(Loc, Tok, Loc)>,
        __sym0: (Loc, Tok, Loc),
        __sym1: (Loc, Tok, Loc),
        _: core::marker::PhantomData<()>,
    ) -> Result<(Option<(Loc, Tok, Loc)>, __Nonterminal<>), __lalrpop_util::ParseError<Loc, Tok, String>>
    {
        let mut __result: (Option<(Loc, Tok, Loc)>, __Nonterminal<>);
        match __lookahead {
            Some((_, Tok::C, _)) |
            Some((_, Tok::Comma, _)) => {
                let __start = __sym0.0.clone();
                let __end = __sym1.2.clone();
                let __nt = super::__action27::<>(__sym0, __sym1);
                let __nt = __Nonterminal::_28_22c_22_20N4_29_2b((
                    __start,
                    __nt,
                    __end,
                ));
                __result = (__lookahead, __nt);
                return Ok(__result);
            }
            _ => {
                #[allow(clippy::needless_raw_string_hashes)]
                let __expected = alloc::vec![
                    r###""c""###.to_string(),
                    r###"",""###.to_string(),
                ];
                return Err(
                    match __lookahead {
                        Some(__token) => {
                            __lalrpop_util::ParseError::UnrecognizedToken {
                                token: __token,
                                expected: __expected,
                            }
                        }
                        None => {
                            let __location = __sym1.2.clone();
                            __lalrpop_util::ParseError::UnrecognizedEof {
                                location: __location,
                                expected: __expected,
                            }
                        }
                    }
                )
            }
        }
    }

    fn __state17<
        __TOKENS: Iterator<Item=Result<(Loc, Tok, Loc),__lalrpop_util::ParseError<Loc, Tok, String>>>,
    >(
        __tokens: &mut __TOKENS,
        __sym0: (Loc, Tok, Loc),
        _: core::marker::PhantomData<()>,
    ) -> Result<(Option<(Loc, Tok, Loc)>, __Nonterminal<>), __lalrpop_util::ParseError<Loc, Tok, String>>
    {
        let mut __result: (Option<(Loc, Tok, Loc)>, __Nonterminal<>);
        let __lookahead = match __tokens.next() {
            Some(Ok(v)) => Some(v),
            Some(Err(e)) => return Err(e),
            None => None,
        };
        match __lookahead {
            Some((__loc1, __tok @ Tok::B, __loc2)) => {
                let __sym1 = (__loc1, (__tok), __loc2);
                __result = __state21(__tokens, __sym0, __sym1, core::marker::PhantomData::<()>)?;
                return Ok(__result);
            }
            _ => {
                #[allow(clippy::needless_raw_string_hashes)]
                let __expected = alloc::vec![
                    r###""b""###.to_string(),
                ];
                return Err(
                    match __lookahead {
                        Some(__token) => {
                            __lalrpop_util::ParseError::UnrecognizedToken {
                                token: __token,
                                expected: __expected,
                            }
                        }
                        None => {
                            let __location = __sym0.2.clone();
                            __lalrpop_util::ParseError::UnrecognizedEof {
                                location: __location,
                                expected: __expected,
                            }
                        }
                    }
                )
            }
        }
    }

    fn __state18<
        __TOKENS: Iterator<Item=Result<(Loc, Tok, Loc),__lalrpop_util::ParseError<Loc, Tok, String>>>,
    >(
        __tokens: &mut __TOKENS,
        __lookahead: Option<(Loc, Tok, Loc)>,
        __sym0: (Loc, alloc::vec::Vec<(Tok, Tok)>, Loc),
        __sym1: (Loc, Tok, Loc),
        __sym2: (Loc, Tok, Loc),
        _: core::marker::PhantomData<()>,
    ) -> Result<(Option<(Loc, Tok, Loc)>, __Nonterminal<>), __lalrpop_util::ParseError<Loc, Tok, String>>
    {
        let mut __result: (Option<(Loc, Tok, Loc)>, __Nonterminal<>);
        match __lookahead {
            Some((_, Tok::C, _)) |
            Some((_, Tok::Comma, _)) => {
                let __start = __sym0.0.clone();
                let __end = __sym2.2.clone();
                let __nt = super::__action28::<>(__sym0, __sym1, __sym2);
                let __nt = __Nonterminal::_28_22c_22_20N4_29_2b((
                    __start,
                    __nt,
                    __end,
                ));
                __result = (__lookahead, __nt);
                return Ok(__result);
            }
            _ => {
                #[allow(clippy::needless_raw_string_hashes)]
                let __expected = alloc::vec![
                    r###""c""###.to_string(),
                    r###"",""###.to_string(),
                ];
                return Err(
                    match __lookahead {
                        Some(__token) => {
                            __lalrpop_util::ParseError::UnrecognizedToken {
                                token: __token,
                                expected: __expected,
                            }
                        }
                        None => {
                            let __location = __sym2.2.clone();
                            __lalrpop_util::ParseError::UnrecognizedEof {
                                location: __location,
                                expected: __expected,
                            }
                        }
                    }
                )
            }
        }
    }

    fn __state19<
        __TOKENS: Iterator<Item=Result<(Loc, Tok, Loc),__lalrpop_util::ParseError<Loc, Tok, String>>>,
    >(
        __tokens: &mut __TOKENS,
        __sym0: (Loc, alloc::vec::Vec<alloc::vec::Vec<(Tok, Tok)>>, Loc),
        __sym1: (Loc, alloc::vec::Vec<(Tok, Tok)>, Loc),
        __sym2: (Loc, Tok, Loc),
        _: core::marker::PhantomData<()>,
    ) -> Result<(Option<(Loc, Tok, Loc)>, __Nonterminal<>), __lalrpop_util::ParseError<Loc, Tok, String>>
    {
        let mut __result: (Option<(Loc, Tok, Loc)>, __Nonterminal<>);
        let __lookahead = match __tokens.next() {
            Some(Ok(v)) => Some(v),
            Some(Err(e)) => return Err(e),
            None => None,
        };
        match __lookahead {
            Some((_, Tok::C, _)) |
            Some((_, Tok::D, _)) => {
                let __start = __sym0.0.clone();
                let __end = __sym2.2.clone();
                let __nt = super::__action30::<>(__sym0, __sym1, __sym2);
                let __nt = __Nonterminal::_28_3cN3_3e_20_22_2c_22_29_2b((
                    __start,
                    __nt,
                    __end,
                ));
                __result = (__lookahead, __nt);
                return Ok(__result);
            }
            _ => {
                #[allow(clippy::needless_raw_string_hashes)]
                let __expected = alloc::vec![
                    r###""c""###.to_string(),
                    r###""d""###.to_string(),
                ];
                return Err(
                    match __lookahead {
                        Some(__token) => {
                            __lalrpop_util::ParseError::UnrecognizedToken {
                                token: __token,
                                expected: __expected,
                            }
                        }
                        None => {
                            let __location = __sym2.2.clone();
                            __lalrpop_util::ParseError::UnrecognizedEof {
                                location: __location,
                                expected: __expected,
                            }
                        }
                    }
                )
            }
        }
    }

    fn __state20<
        __TOKENS: Iterator<Item=Result<(Loc, Tok, Loc),__lalrpop_util::ParseError<Loc, Tok, String>>>,
    >(
        __tokens: &mut __TOKENS,
        __lookahead: Option<(Loc, Tok, Loc)>,
        __sym0: (Loc, alloc::vec::Vec<alloc::vec::Vec<(Tok, Tok)>>, Loc),
        __sym1: (Loc, Tok, Loc),
        __sym2: (Loc, alloc::vec::Vec<(Tok, Tok)>, Loc),
        _: core::marker::PhantomData<()>,
    ) -> Result<(Option<(Loc, Tok, Loc)>, __Nonterminal<>), __lalrpop_util::ParseError<Loc, Tok, String>>
    {
        let mut __result: (Option<(Loc, Tok, Loc)>, __Nonterminal<>);
        match __lookahead {
            Some((_, Tok::Comma, _)) => {
                let __start = __sym0.0.clone();
                let __end = __sym2.2.clone();
                let __nt = super::__action3::<>(__sym0, __sym1, __sym2);
                let __nt = __Nonterminal::N0((
                    __start,
                    __nt,
                    __end,
                ));
                __result = (__lookahead, __nt);
                return Ok(__result);
            }
            _ => {
                #[allow(clippy::needless_raw_string_hashes)]
                let __expected = alloc::vec![
                    r###"",""###.to_string(),
                ];
                return Err(
                    match __lookahead {
                        Some(__token) => {
                            __lalrpop_util::ParseError::UnrecognizedToken {
                                token: __token,
                                expected: __expected,
                            }
                        }
                        None => {
                            let __location = __sym2.2.clone();
                            __lalrpop_util::ParseError::UnrecognizedEof {
                                location: __location,
                                expected: __expected,
                            }
                        }
                    }
                )
            }
        }
    }

    fn __state21<
        __TOKENS: Iterator<Item=Result<(Loc, Tok, Loc),__lalrpop_util::ParseError<Loc, Tok, String>>>,
    >(
        __tokens: &mut __TOKENS,
        __sym0: (Loc, Tok, Loc),
        __sym1: (Loc, Tok, Loc),
        _: core::marker::PhantomData<()>,
    ) -> Result<(Option<(Loc, Tok, Loc)>, __Nonterminal<>), __lalrpop_util::ParseError<Loc, Tok, String>>
    {
        let mut __result: (Option<(Loc, Tok, Loc)>, __Nonterminal<>);
        let __lookahead = match __tokens.next() {
            Some(Ok(v)) => Some(v),
            Some(Err(e)) => return Err(e),
            None => None,
        };
        match __lookahead {
            Some((_, Tok::C, _)) |
            Some((_, Tok::Comma, _)) => {
                let __start = __sym0.0.clone();
                let __end = __sym1.2.clone();
                let __nt = super::__action7::<>(__sym0, __sym1);
                let __nt = __Nonterminal::N4((
                    __start,
                    __nt,
                    __end,
                ));
                __result = (__lookahead, __nt);
                return Ok(__result);
            }
            _ => {
                #[allow(clippy::needless_raw_string_hashes)]
                let __expected = alloc::vec![
                    r###""c""###.to_string(),
                    r###"",""###.to_string(),
                ];
                return Err(
                    match __lookahead {
                        Some(__token) => {
                            __lalrpop_util::ParseError::UnrecognizedToken {
                                token: __token,
                                expected: __expected,
                            }
                        }
                        None => {
                            let __location = __sym1.2.clone();
                            __lalrpop_util::ParseError::UnrecognizedEof {
                                location: __location,
                                expected: __expected,
                            }
                        }
                    }
                )
            }
        }
    }
}
#[allow(unused_imports)]
pub use self::__parse__S::SParser;

#[allow(clippy::too_many_arguments, clippy::needless_lifetimes, clippy::just_underscores_and_digits, clippy::extra_unused_type_parameters)]
fn __action0<
>(
    (_, __0, _): (Loc, Vec<usize>, Loc),
) -> Vec<usize>
{
    __0
}

#[allow(clippy::too_many_arguments, clippy::needless_lifetimes, clippy::just_underscores_and_digits, clippy::extra_unused_type_parameters)]
fn __action1<
>(
    (_, l, _): (Loc, Loc, Loc),
    (_, xs, _): (Loc, alloc::vec::Vec<usize>, Loc),
    (_, r, _): (Loc, Loc, Loc),
) -> Vec<usize>
{
    { let _ = (&l, &r); xs }
}

#[allow(clippy::too_many_arguments, clippy::needless_lifetimes, clippy::just_underscores_and_digits, clippy::extra_unused_type_parameters)]
fn __action2<
>(
    (_, x, _): (Loc, (alloc::vec::Vec<alloc::vec::Vec<(Tok, Tok)>>, Tok, alloc::vec::Vec<(Tok, Tok)>), Loc),
    (_, _, _): (Loc, Tok, Loc),
) -> usize
{
    sz(&x)
}

#[allow(clippy::too_many_arguments, clippy::needless_lifetimes, clippy::just_underscores_and_digits, clippy::extra_unused_type_parameters)]
fn __action3<
>(
    (_, __0, _): (Loc, alloc::vec::Vec<alloc::vec::Vec<(Tok, Tok)>>, Loc),
    (_, __1, _): (Loc, Tok, Loc),
    (_, __2, _): (Loc, alloc::vec::Vec<(Tok, Tok)>, Loc),
) -> (alloc::vec::Vec<alloc::vec::Vec<(Tok, Tok)>>, Tok, alloc::vec::Vec<(Tok, Tok)>)
{
    (__0, __1, __2)
}

#[allow(clippy::too_many_arguments, clippy::needless_lifetimes, clippy::just_underscores_and_digits, clippy::extra_unused_type_parameters)]
fn __action4<
>(
    (_, __0, _): (Loc, alloc::vec::Vec<Tok>, Loc),
) -> alloc::vec::Vec<Tok>
{
    __0
}

#[allow(clippy::too_many_arguments, clippy::needless_lifetimes, clippy::just_underscores_and_digits, clippy::extra_unused_type_parameters)]
fn __action5<
>(
    (_, __0, _): (Loc, alloc::vec::Vec<alloc::vec::Vec<(Tok, Tok)>>, Loc),
) -> alloc::vec::Vec<alloc::vec::Vec<(Tok, Tok)>>
{
    __0
}

#[allow(clippy::too_many_arguments, clippy::needless_lifetimes, clippy::just_underscores_and_digits, clippy::extra_unused_type_parameters)]
fn __action6<
>(
    (_, __0, _): (Loc, alloc::vec::Vec<(Tok, Tok)>, Loc),
) -> alloc::vec::Vec<(Tok, Tok)>
{
    __0
}

#[allow(clippy::too_many_arguments, clippy::needless_lifetimes, clippy::just_underscores_and_digits, clippy::extra_unused_type_parameters)]
fn __action7<
>(
    (_, __0, _): (Loc, Tok, Loc),
    (_, _, _): (Loc, Tok, Loc),
) -> Tok
{
    __0
}

#[allow(clippy::too_many_arguments, clippy::needless_lifetimes, clippy::just_underscores_and_digits, clippy::extra_unused_type_parameters)]
fn __action8<
>(
    (_, __0, _): (Loc, (Tok, Tok), Loc),
) -> alloc::vec::Vec<(Tok, Tok)>
{
    alloc::vec![__0]
}

#[allow(clippy::too_many_arguments, clippy::needless_lifetimes, clippy::just_underscores_and_digits, clippy::extra_unused_type_parameters)]
fn __action9<
>(
    (_, v, _): (Loc, alloc::vec::Vec<(Tok, Tok)>, Loc),
    (_, e, _): (Loc, (Tok, Tok), Loc),
) -> alloc::vec::Vec<(Tok, Tok)>
{
    { let mut v = v; v.push(e); v }
}

#[allow(clippy::too_many_arguments, clippy::needless_lifetimes, clippy::just_underscores_and_digits, clippy::extra_unused_type_parameters)]
fn __action10<
>(
    (_, __0, _): (Loc, Tok, Loc),
    (_, __1, _): (Loc, Tok, Loc),
) -> (Tok, Tok)
{
    (__0, __1)
}

#[allow(clippy::too_many_arguments, clippy::needless_lifetimes, clippy::just_underscores_and_digits, clippy::extra_unused_type_parameters)]
fn __action11<
>(
    __lookbehind: &Loc,
    __lookahead: &Loc,
) -> alloc::vec::Vec<alloc::vec::Vec<(Tok, Tok)>>
{
    alloc::vec![]
}

#[allow(clippy::too_many_arguments, clippy::needless_lifetimes, clippy::just_underscores_and_digits, clippy::extra_unused_type_parameters)]
fn __action12<
>(
    (_, v, _): (Loc, alloc::vec::Vec<alloc::vec::Vec<(Tok, Tok)>>, Loc),
) -> alloc::vec::Vec<alloc::vec::Vec<(Tok, Tok)>>
{
    v
}

#[allow(clippy::too_many_arguments, clippy::needless_lifetimes, clippy::just_underscores_and_digits, clippy::extra_unused_type_parameters)]
fn __action13<
>(
    (_, __0, _): (Loc, alloc::vec::Vec<(Tok, Tok)>, Loc),
    (_, _, _): (Loc, Tok, Loc),
) -> alloc::vec::Vec<(Tok, Tok)>
{
    __0
}

#[allow(clippy::too_many_arguments, clippy::needless_lifetimes, clippy::just_underscores_and_digits, clippy::extra_unused_type_parameters)]
fn __action14<
>(
    __lookbehind: &Loc,
    __lookahead: &Loc,
) -> alloc::vec::Vec<Tok>
{
    alloc::vec![]
}

#[allow(clippy::too_many_arguments, clippy::needless_lifetimes, clippy::just_underscores_and_digits, clippy::extra_unused_type_parameters)]
fn __action15<
>(
    (_, v, _): (Loc, alloc::vec::Vec<Tok>, Loc),
) -> alloc::vec::Vec<Tok>
{
    v
}

#[allow(clippy::too_many_arguments, clippy::needless_lifetimes, clippy::just_underscores_and_digits, clippy::extra_unused_type_parameters)]
fn __action16<
>(
    (_, __0, _): (Loc, Tok, Loc),
    (_, _, _): (Loc, Tok, Loc),
) -> Tok
{
    __0
}

#[allow(clippy::needless_lifetimes, clippy::clone_on_copy)]
fn __action17<
>(
    __lookbehind: &Loc,
    __lookahead: &Loc,
) -> Loc
{
    __lookbehind.clone()
}

#[allow(clippy::too_many_arguments, clippy::needless_lifetimes, clippy::just_underscores_and_digits, clippy::extra_unused_type_parameters)]
fn __action18<
>(
    __lookbehind: &Loc,
    __lookahead: &Loc,
) -> alloc::vec::Vec<usize>
{
    alloc::vec![]
}

#[allow(clippy::too_many_arguments, clippy::needless_lifetimes, clippy::just_underscores_and_digits, clippy::extra_unused_type_parameters)]
fn __action19<
>(
    (_, v, _): (Loc, alloc::vec::Vec<usize>, Loc),
) -> alloc::vec::Vec<usize>
{
    v
}

#[allow(clippy::needless_lifetimes, clippy::clone_on_copy)]
fn __action20<
>(
    __lookbehind: &Loc,
    __lookahead: &Loc,
) -> Loc
{
    __lookahead.clone()
}

#[allow(clippy::too_many_arguments, clippy::needless_lifetimes, clippy::just_underscores_and_digits, clippy::extra_unused_type_parameters)]
fn __action21<
>(
    (_, __0, _): (Loc, usize, Loc),
) -> alloc::vec::Vec<usize>
{
    alloc::vec![__0]
}

#[allow(clippy::too_many_arguments, clippy::needless_lifetimes, clippy::just_underscores_and_digits, clippy::extra_unused_type_parameters)]
fn __action22<
>(
    (_, v, _): (Loc, alloc::vec::Vec<usize>, Loc),
    (_, e, _): (Loc, usize, Loc),
) -> alloc::vec::Vec<usize>
{
    { let mut v = v; v.push(e); v }
}

#[allow(clippy::too_many_arguments, clippy::needless_lifetimes, clippy::just_underscores_and_digits, clippy::extra_unused_type_parameters)]
fn __action23<
>(
    (_, __0, _): (Loc, Tok, Loc),
) -> alloc::vec::Vec<Tok>
{
    alloc::vec![__0]
}

#[allow(clippy::too_many_arguments, clippy::needless_lifetimes, clippy::just_underscores_and_digits, clippy::extra_unused_type_parameters)]
fn __action24<
>(
    (_, v, _): (Loc, alloc::vec::Vec<Tok>, Loc),
    (_, e, _): (Loc, Tok, Loc),
) -> alloc::vec::Vec<Tok>
{
    { let mut v = v; v.push(e); v }
}

#[allow(clippy::too_many_arguments, clippy::needless_lifetimes, clippy::just_underscores_and_digits, clippy::extra_unused_type_parameters)]
fn __action25<
>(
    (_, __0, _): (Loc, alloc::vec::Vec<(Tok, Tok)>, Loc),
) -> alloc::vec::Vec<alloc::vec::Vec<(Tok, Tok)>>
{
    alloc::vec![__0]
}

#[allow(clippy::too_many_arguments, clippy::needless_lifetimes, clippy::just_underscores_and_digits, clippy::extra_unused_type_parameters)]
fn __action26<
>(
    (_, v, _): (Loc, alloc::vec::Vec<alloc::vec::Vec<(Tok, Tok)>>, Loc),
    (_, e, _): (Loc, alloc::vec::Vec<(Tok, Tok)>, Loc),
) -> alloc::vec::Vec<alloc::vec::Vec<(Tok, Tok)>>
{
    { let mut v = v; v.push(e); v }
}

#[allow(clippy::too_many_arguments, clippy::needless_lifetimes,
    clippy::just_underscores_and_digits, clippy::clone_on_copy, clippy::unit_arg)]
fn __action27<
>(
    __0: (Loc, Tok, Loc),
    __1: (Loc, Tok, Loc),
) -> alloc::vec::Vec<(Tok, Tok)>
{
    let __start0 = __0.0.clone();
    let __end0 = __1.2.clone();
    let __temp0 = __action10(
        __0,
        __1,
    );
    let __temp0 = (__start0, __temp0, __end0);
    __action8(
        __temp0,
    )
}

#[allow(clippy::too_many_arguments, clippy::needless_lifetimes,
    clippy::just_underscores_and_digits, clippy::clone_on_copy, clippy::unit_arg)]
fn __action28<
>(
    __0: (Loc, alloc::vec::Vec<(Tok, Tok)>, Loc),
    __1: (Loc, Tok, Loc),
    __2: (Loc, Tok, Loc),
) -> alloc::vec::Vec<(Tok, Tok)>
{
    let __start0 = __1.0.clone();
    let __end0 = __2.2.clone();
    let __temp0 = __action10(
        __1,
        __2,
    );
    let __temp0 = (__start0, __temp0, __end0);
    __action9(
        __0,
        __temp0,
    )
}

#[allow(clippy::too_many_arguments, clippy::needless_lifetimes,
    clippy::just_underscores_and_digits, clippy::clone_on_copy, clippy::unit_arg)]
fn __action29<
>(
    __0: (Loc, alloc::vec::Vec<(Tok, Tok)>, Loc),
    __1: (Loc, Tok, Loc),
) -> alloc::vec::Vec<alloc::vec::Vec<(Tok, Tok)>>
{
    let __start0 = __0.0.clone();
    let __end0 = __1.2.clone();
    let __temp0 = __action13(
        __0,
        __1,
    );
    let __temp0 = (__start0, __temp0, __end0);
    __action25(
        __temp0,
    )
}

#[allow(clippy::too_many_arguments, clippy::needless_lifetimes,
    clippy::just_underscores_and_digits, clippy::clone_on_copy, clippy::unit_arg)]
fn __action30<
>(
    __0: (Loc, alloc::vec::Vec<alloc::vec::Vec<(Tok, Tok)>>, Loc),
    __1: (Loc, alloc::vec::Vec<(Tok, Tok)>, Loc),
    __2: (Loc, Tok, Loc),
) -> alloc::vec::Vec<alloc::vec::Vec<(Tok, Tok)>>
{
    let __start0 = __1.0.clone();
    let __end0 = __2.2.clone();
    let __temp0 = __action13(
        __1,
        __2,
    );
    let __temp0 = (__start0, __temp0, __end0);
    __action26(
        __0,
        __temp0,
    )
}

#[allow(clippy::too_many_arguments, clippy::needless_lifetimes,
    clippy::just_underscores_and_digits, clippy::clone_on_copy, clippy::unit_arg)]
fn __action31<
>(
    __lookbehind: &Loc,
    __lookahead: &Loc,
) -> alloc::vec::Vec<alloc::vec::Vec<(Tok, Tok)>>
{
    let __start0 = __lookbehind.clone();
    let __end0 = __lookahead.clone();
    let __temp0 = __action11(
        &__start0,
        &__end0,
    );
    let __temp0 = (__start0, __temp0, __end0);
    __action5(
        __temp0,
    )
}

#[allow(clippy::too_many_arguments, clippy::needless_lifetimes,
    clippy::just_underscores_and_digits, clippy::clone_on_copy, clippy::unit_arg)]
fn __action32<
>(
    __0: (Loc, alloc::vec::Vec<alloc::vec::Vec<(Tok, Tok)>>, Loc),
) -> alloc::vec::Vec<alloc::vec::Vec<(Tok, Tok)>>
{
    let __start0 = __0.0.clone();
    let __end0 = __0.2.clone();
    let __temp0 = __action12(
        __0,
    );
    let __temp0 = (__start0, __temp0, __end0);
    __action5(
        __temp0,
    )
}

#[allow(clippy::too_many_arguments, clippy::needless_lifetimes,
    clippy::just_underscores_and_digits, clippy::clone_on_copy, clippy::unit_arg)]
fn __action33<
>(
    __0: (Loc, Tok, Loc),
    __1: (Loc, Tok, Loc),
) -> alloc::vec::Vec<Tok>
{
    let __start0 = __0.0.clone();
    let __end0 = __1.2.clone();
    let __temp0 = __action16(
        __0,
        __1,
    );
    let __temp0 = (__start0, __temp0, __end0);
    __action23(
        __temp0,
    )
}

#[allow(clippy::too_many_arguments, clippy::needless_lifetimes,
    clippy::just_underscores_and_digits, clippy::clone_on_copy, clippy::unit_arg)]
fn __action34<
>(
    __0: (Loc, alloc::vec::Vec<Tok>, Loc),
    __1: (Loc, Tok, Loc),
    __2: (Loc, Tok, Loc),
) -> alloc::vec::Vec<Tok>
{
    let __start0 = __1.0.clone();
    let __end0 = __2.2.clone();
    let __temp0 = __action16(
        __1,
        __2,
    );
    let __temp0 = (__start0, __temp0, __end0);
    __action24(
        __0,
        __temp0,
    )
}

#[allow(clippy::too_many_arguments, clippy::needless_lifetimes,
    clippy::just_underscores_and_digits, clippy::clone_on_copy, clippy::unit_arg)]
fn __action35<
>(
    __lookbehind: &Loc,
    __lookahead: &Loc,
) -> alloc::vec::Vec<Tok>
{
    let __start0 = __lookbehind.clone();
    let __end0 = __lookahead.clone();
    let __temp0 = __action14(
        &__start0,
        &__end0,
    );
    let __temp0 = (__start0, __temp0, __end0);
    __action4(
        __temp0,
    )
}

#[allow(clippy::too_many_arguments, clippy::needless_lifetimes,
    clippy::just_underscores_and_digits, clippy::clone_on_copy, clippy::unit_arg)]
fn __action36<
>(
    __0: (Loc, alloc::vec::Vec<Tok>, Loc),
) -> alloc::vec::Vec<Tok>
{
    let __start0 = __0.0.clone();
    let __end0 = __0.2.clone();
    let __temp0 = __action15(
        __0,
    );
    let __temp0 = (__start0, __temp0, __end0);
    __action4(
        __temp0,
    )
}

#[allow(clippy::too_many_arguments, clippy::needless_lifetimes,
    clippy::just_underscores_and_digits, clippy::clone_on_copy, clippy::unit_arg)]
fn __action37<
>(
    __0: (Loc, alloc::vec::Vec<usize>, Loc),
    __1: (Loc, Loc, Loc),
) -> Vec<usize>
{
    let __start0 = __0.0.clone();
    let __end0 = __0.0.clone();
    let __temp0 = __action20(
        &__start0,
        &__end0,
    );
    let __temp0 = (__start0, __temp0, __end0);
    __action1(
        __temp0,
        __0,
        __1,
    )
}

#[allow(clippy::too_many_arguments, clippy::needless_lifetimes,
    clippy::just_underscores_and_digits, clippy::clone_on_copy, clippy::unit_arg)]
fn __action38<
>(
    __0: (Loc, alloc::vec::Vec<usize>, Loc),
) -> Vec<usize>
{
    let __start0 = __0.2.clone();
    let __end0 = __0.2.clone();
    let __temp0 = __action17(
        &__start0,
        &__end0,
    );
    let __temp0 = (__start0, __temp0, __end0);
    __action37(
        __0,
        __temp0,
    )
}

#[allow(clippy::too_many_arguments, clippy::needless_lifetimes,
    clippy::just_underscores_and_digits, clippy::clone_on_copy, clippy::unit_arg)]
fn __action39<
>(
    __lookbehind: &Loc,
    __lookahead: &Loc,
) -> Vec<usize>
{
    let __start0 = __lookbehind.clone();
    let __end0 = __lookahead.clone();
    let __temp0 = __action18(
        &__start0,
        &__end0,
    );
    let __temp0 = (__start0, __temp0, __end0);
    __action38(
        __temp0,
    )
}

#[allow(clippy::too_many_arguments, clippy::needless_lifetimes,
    clippy::just_underscores_and_digits, clippy::clone_on_copy, clippy::unit_arg)]
fn __action40<
>(
    __0: (Loc, alloc::vec::Vec<usize>, Loc),
) -> Vec<usize>
{
    let __start0 = __0.0.clone();
    let __end0 = __0.2.clone();
    let __temp0 = __action19(
        __0,
    );
    let __temp0 = (__start0, __temp0, __end0);
    __action38(
        __temp0,
    )
}

#[allow(clippy::type_complexity, dead_code)]
pub trait __ToTriple<>
{
    fn to_triple(self) -> Result<(Loc,Tok,Loc), __lalrpop_util::ParseError<Loc, Tok, String>>;
}

impl<> __ToTriple<> for (Loc, Tok, Loc)
{
    fn to_triple(self) -> Result<(Loc,Tok,Loc), __lalrpop_util::ParseError<Loc, Tok, String>> {
        Ok(self)
    }
}
impl<> __ToTriple<> for Result<(Loc, Tok, Loc), String>
{
    fn to_triple(self) -> Result<(Loc,Tok,Loc), __lalrpop_util::ParseError<Loc, Tok, String>> {
        self.map_err(|error| __lalrpop_util::ParseError::User { error })
    }
}
