// auto-generated: "lalrpop 0.23.1"
// sha3: 58d33bfc706b86201bbd5bf3486f346283031e40830b693c141e6b4a9b1413ea
#[allow(unused_extern_crates)]
extern crate lalrpop_util as __lalrpop_util;
#[allow(unused_imports)]
use self::__lalrpop_util::state_machine as __state_machine;
#[allow(unused_extern_crates)]
extern crate alloc;

#[rustfmt::skip]
#[allow(explicit_outlives_requirements, non_snake_case, non_camel_case_types, unused_mut, unused_variables, unused_imports, unused_parens, clippy::needless_lifetimes, clippy::type_complexity, clippy::needless_return, clippy::too_many_arguments, clippy::match_single_binding, clippy::clone_on_copy, clippy::unit_arg)]
mod __parse__P {

    #[allow(unused_extern_crates)]
    extern crate lalrpop_util as __lalrpop_util;
    #[allow(unused_imports)]
    use self::__lalrpop_util::state_machine as __state_machine;
    #[allow(unused_extern_crates)]
    extern crate alloc;
    use self::__lalrpop_util::lexer::Token;
    pub struct PParser {
        builder: __lalrpop_util::lexer::MatcherBuilder,
        _priv: (),
    }

    impl Default for PParser { fn default() -> Self { Self::new() } }
    impl PParser {
        pub fn new() -> PParser {
            let __builder = super::__intern_token::new_builder();
            PParser {
                builder: __builder,
                _priv: (),
            }
        }

        #[allow(dead_code)]
        pub fn parse<
            'input,
        >(
            &self,
            input: &'input str,
        ) -> Result<Vec<&'input str>, __lalrpop_util::ParseError<usize, Token<'input>, &'static str>>
        {
            let mut __tokens = self.builder.matcher(input);
            let __lookahead = match __tokens.next() {
                Some(Ok(v)) => Some(v),
                Some(Err(e)) => return Err(e),
                None => None,
            };
            match __state0(input, &mut __tokens, __lookahead, core::marker::PhantomData::<(&())>)? {
                (Some(__lookahead), _) => {
                    Err(__lalrpop_util::ParseError::ExtraToken { token: __lookahead })
                }
                (None, __Nonterminal::____P((_, __nt, _))) => {
                    Ok(__nt)
                }
                _ => unreachable!(),
            }
        }
    }

    #[allow(dead_code)]
    enum __Nonterminal<'input>
     {
        P((usize, Vec<&'input str>, usize)),
        W((usize, &'input str, usize)),
        ____P((usize, Vec<&'input str>, usize)),
    }

    fn __state0<
        'input,
        __TOKENS: Iterator<Item=Result<(usize, Token<'input>, usize),__lalrpop_util::ParseError<usize, Token<'input>, &'static str>>>,
    >(
        input: &'input str,
        __tokens: &mut __TOKENS,
        __lookahead: Option<(usize, Token<'input>, usize)>,
        _: core::marker::PhantomData<(&'input ())>,
    ) -> Result<(Option<(usize, Token<'input>, usize)>, __Nonterminal<'input>), __lalrpop_util::ParseError<usize, Token<'input>, &'static str>>
    {
        let mut __result: (Option<(usize, Token<'input>, usize)>, __Nonterminal<'input>);
        match __lookahead {
            Some((_, Token(0, _), _)) |
            Some((_, Token(1, _), _)) |
            Some((_, Token(2, _), _)) |
            Some((_, Token(3, _), _)) |
            Some((_, Token(4, _), _)) |
            Some((_, Token(5, _), _)) |
            None => {
                let __start: usize = __lookahead.as_ref().map(|o| o.0.clone()).unwrap_or_default();
                let __end = __start.clone();
                let __nt = super::__action2::<>(input, &__start, &__end);
                let __nt = __Nonterminal::P((
                    __start,
                    __nt,
                    __end,
                ));
                __result = (__lookahead, __nt);
            }
            _ => {
                #[allow(clippy::needless_raw_string_hashes)]
                let __expected = alloc::vec![
                    r###"r#"[0-9]+(\\.[0-9]+)?"#"###.to_string(),
                    r###"r#"[A-Z][a-z]*"#"###.to_string(),
                    r###"r#"[a-z]+"#"###.to_string(),
                    r###"r#"\\p{Han}+"#"###.to_string(),
                    r###""else""###.to_string(),
                    r###""if""###.to_string(),
                ];
                return Err(
                    match __lookahead {
                        Some(__token) => {
                            __lalrpop_util::ParseError::UnrecognizedToken {
                                token: __token,
                                expected: __expected,
                            }
                        }
                        None => {
                            let __location = Default::default();
                            __lalrpop_util::ParseError::UnrecognizedEof {
                                location: __location,
                                expected: __expected,
                            }
                        }
                    }
                )
            }
        }
        #[allow(clippy::never_loop)]
        loop {
            let (__lookahead, __nt) = __result;
            match __nt {
                __Nonterminal::P(__sym0) => {
                    __result = __state1(input, __tokens, __lookahead, __sym0, core::marker::PhantomData::<(&())>)?;
                }
                _ => {
                    return Ok((__lookahead, __nt));
                }
            }
        }
    }

    fn __state1<
        'input,
        __TOKENS: Iterator<Item=Result<(usize, Token<'input>, usize),__lalrpop_util::ParseError<usize, Token<'input>, &'static str>>>,
    >(
        input: &'input str,
        __tokens: &mut __TOKENS,
        __lookahead: Option<(usize, Token<'input>, usize)>,
        __sym0: (usize, Vec<&'input str>, usize),
        _: core::marker::PhantomData<(&'input ())>,
    ) -> Result<(Option<(usize, Token<'input>, usize)>, __Nonterminal<'input>), __lalrpop_util::ParseError<usize, Token<'input>, &'static str>>
    {
        let mut __result: (Option<(usize, Token<'input>, usize)>, __Nonterminal<'input>);
        match __lookahead {
            Some((__loc1, Token(4, __tok0), __loc2)) => {
                let __sym1 = (__loc1, (__tok0), __loc2);
                __result = __state3(input, __tokens, __sym1, core::marker::PhantomData::<(&())>)?;
            }
            Some((__loc1, Token(5, __tok0), __loc2)) => {
                let __sym1 = (__loc1, (__tok0), __loc2);
                __result = __state4(input, __tokens, __sym1, core::marker::PhantomData::<(&())>)?;
            }
            Some((__loc1, Token(0, __tok0), __loc2)) => {
                let __sym1 = (__loc1, (__tok0), __loc2);
                __result = __state5(input, __tokens, __sym1, core::marker::PhantomData::<(&())>)?;
            }
            Some((__loc1, Token(1, __tok0), __loc2)) => {
                let __sym1 = (__loc1, (__tok0), __loc2);
                __result = __state6(input, __tokens, __sym1, core::marker::PhantomData::<(&())>)?;
            }
            Some((__loc1, Token(2, __tok0), __loc2)) => {
                let __sym1 = (__loc1, (__tok0), __loc2);
                __result = __state7(input, __tokens, __sym1, core::marker::PhantomData::<(&())>)?;
            }
            Some((__loc1, Token(3, __tok0), __loc2)) => {
                let __sym1 = (__loc1, (__tok0), __loc2);
                __result = __state8(input, __tokens, __sym1, core::marker::PhantomData::<(&())>)?;
            }
            None => {
                let __start = __sym0.0.clone();
                let __end = __sym0.2.clone();
                let __nt = super::__action0::<>(input, __sym0);
                let __nt = __Nonterminal::____P((
                    __start,
                    __nt,
                    __end,
                ));
                __result = (__lookahead, __nt);
                return Ok(__result);
            }
            _ => {
                #[allow(clippy::needless_raw_string_hashes)]
                let __expected = alloc::vec![
                    r###"r#"[0-9]+(\\.[0-9]+)?"#"###.to_string(),
                    r###"r#"[A-Z][a-z]*"#"###.to_string(),
                    r###"r#"[a-z]+"#"###.to_string(),
                    r###"r#"\\p{Han}+"#"###.to_string(),
                    r###""else""###.to_string(),
                    r###""if""###.to_string(),
                ];
                return Err(
                    match __lookahead {
                        Some(__token) => {
                            __lalrpop_util::ParseError::UnrecognizedToken {
                                token: __token,
                                expected: __expected,
                            }
                        }
                        None => {
                            let __location = __sym0.2.clone();
                            __lalrpop_util::ParseError::UnrecognizedEof {
                                location: __location,
                                expected: __expected,
                            }
                        }
                    }
                )
            }
        }
        #[allow(clippy::never_loop)]
        loop {
            let (__lookahead, __nt) = __result;
            match __nt {
                __Nonterminal::W(__sym1) => {
                    __result = __state2(input, __tokens, __lookahead, __sym0, __sym1, core::marker::PhantomData::<(&())>)?;
                    return Ok(__result);
                }
                _ => {
                    return Ok((__lookahead, __nt));
                }
            }
        }
    }

    fn __state2<
        'input,
        __TOKENS: Iterator<Item=Result<(usize, Token<'input>, usize),__lalrpop_util::ParseError<usize, Token<'input>, &'static str>>>,
    >(
        input: &'input str,
        __tokens: &mut __TOKENS,
        __lookahead: Option<(usize, Token<'input>, usize)>,
        __sym0: (usize, Vec<&'input str>, usize),
        __sym1: (usize, &'input str, usize),
        _: core::marker::PhantomData<(&'input ())>,
    ) -> Result<(Option<(usize, Token<'input>, usize)>, __Nonterminal<'input>), __lalrpop_util::ParseError<usize, Token<'input>, &'static str>>
    {
        let mut __result: (Option<(usize, Token<'input>, usize)>, __Nonterminal<'input>);
        match __lookahead {
            Some((_, Token(0, _), _)) |
            Some((_, Token(1, _), _)) |
            Some((_, Token(2, _), _)) |
            Some((_, Token(3, _), _)) |
            Some((_, Token(4, _), _)) |
            Some((_, Token(5, _), _)) |
            None => {
                let __start = __sym0.0.clone();
                let __end = __sym1.2.clone();
                let __nt = super::__action1::<>(input, __sym0, __sym1);
                let __nt = __Nonterminal::P((
                    __start,
                    __nt,
                    __end,
                ));
                __result = (__lookahead, __nt);
                return Ok(__result);
            }
            _ => {
                #[allow(clippy::needless_raw_string_hashes)]
                let __expected = alloc::vec![
                    r###"r#"[0-9]+(\\.[0-9]+)?"#"###.to_string(),
                    r###"r#"[A-Z][a-z]*"#"###.to_string(),
                    r###"r#"[a-z]+"#"###.to_string(),
                    r###"r#"\\p{Han}+"#"###.to_string(),
                    r###""else""###.to_string(),
                    r###""if""###.to_string(),
                ];
                return Err(
                    match __lookahead {
                        Some(__token) => {
                            __lalrpop_util::ParseError::UnrecognizedToken {
                                token: __token,
                                expected: __expected,
                            }
                        }
                        None => {
                            let __location = __sym1.2.clone();
                            __lalrpop_util::ParseError::UnrecognizedEof {
                                location: __location,
                                expected: __expected,
                            }
                        }
                    }
                )
            }
        }
    }

    fn __state3<
        'input,
        __TOKENS: Iterator<Item=Result<(usize, Token<'input>, usize),__lalrpop_util::ParseError<usize, Token<'input>, &'static str>>>,
    >(
        input: &'input str,
        __tokens: &mut __TOKENS,
        __sym0: (usize, &'input str, usize),
        _: core::marker::PhantomData<(&'input ())>,
    ) -> Result<(Option<(usize, Token<'input>, usize)>, __Nonterminal<'input>), __lalrpop_util::ParseError<usize, Token<'input>, &'static str>>
    {
        let mut __result: (Option<(usize, Token<'input>, usize)>, __Nonterminal<'input>);
        let __lookahead = match __tokens.next() {
            Some(Ok(v)) => Some(v),
            Some(Err(e)) => return Err(e),
            None => None,
        };
        match __lookahead {
            Some((_, Token(0, _), _)) |
            Some((_, Token(1, _), _)) |
            Some((_, Token(2, _), _)) |
            Some((_, Token(3, _), _)) |
            Some((_, Token(4, _), _)) |
            Some((_, Token(5, _), _)) |
            None => {
                let __start = __sym0.0.clone();
                let __end = __sym0.2.clone();
                let __nt = super::__action7::<>(input, __sym0);
                let __nt = __Nonterminal::W((
                    __start,
                    __nt,
                    __end,
                ));
                __result = (__lookahead, __nt);
                return Ok(__result);
            }
            _ => {
                #[allow(clippy::needless_raw_string_hashes)]
                let __expected = alloc::vec![
                    r###"r#"[0-9]+(\\.[0-9]+)?"#"###.to_string(),
                    r###"r#"[A-Z][a-z]*"#"###.to_string(),
                    r###"r#"[a-z]+"#"###.to_string(),
                    r###"r#"\\p{Han}+"#"###.to_string(),
                    r###""else""###.to_string(),
                    r###""if""###.to_string(),
                ];
                return Err(
                    match __lookahead {
                        Some(__token) => {
                            __lalrpop_util::ParseError::UnrecognizedToken {
                                token: __token,
                                expected: __expected,
                            }
                        }
                        None => {
                            let __location = __sym0.2.clone();
                            __lalrpop_util::ParseError::UnrecognizedEof {
                                location: __location,
                                expected: __expected,
                            }
                        }
                    }
                )
            }
        }
    }

    fn __state4<
        'input,
        __TOKENS: Iterator<Item=Result<(usize, Token<'input>, usize),__lalrpop_util::ParseError<usize, Token<'input>, &'static str>>>,
    >(
        input: &'input str,
        __tokens: &mut __TOKENS,
        __sym0: (usize, &'input str, usize),
        _: core::marker::PhantomData<(&'input ())>,
    ) -> Result<(Option<(usize, Token<'input>, usize)>, __Nonterminal<'input>), __lalrpop_util::ParseError<usize, Token<'input>, &'static str>>
    {
        let mut __result: (Option<(usize, Token<'input>, usize)>, __Nonterminal<'input>);
        let __lookahead = match __tokens.next() {
            Some(Ok(v)) => Some(v),
            Some(Err(e)) => return Err(e),
            None => None,
        };
        match __lookahead {
            Some((_, Token(0, _), _)) |
            Some((_, Token(1, _), _)) |
            Some((_, Token(2, _), _)) |
            Some((_, Token(3, _), _)) |
            Some((_, Token(4, _), _)) |
            Some((_, Token(5, _), _)) |
            None => {
                let __start = __sym0.0.clone();
                let __end = __sym0.2.clone();
                let __nt = super::__action6::<>(input, __sym0);
                let __nt = __Nonterminal::W((
                    __start,
                    __nt,
                    __end,
                ));
                __result = (__lookahead, __nt);
                return Ok(__result);
            }
            _ => {
                #[allow(clippy::needless_raw_string_hashes)]
                let __expected = alloc::vec![
                    r###"r#"[0-9]+(\\.[0-9]+)?"#"###.to_string(),
                    r###"r#"[A-Z][a-z]*"#"###.to_string(),
                    r###"r#"[a-z]+"#"###.to_string(),
                    r###"r#"\\p{Han}+"#"###.to_string(),
                    r###""else""###.to_string(),
                    r###""if""###.to_string(),
                ];
                return Err(
                    match __lookahead {
                        Some(__token) => {
                            __lalrpop_util::ParseError::UnrecognizedToken {
                                token: __token,
                                expected: __expected,
                            }
                        }
                        None => {
                            let __location = __sym0.2.clone();
                            __lalrpop_util::ParseError::UnrecognizedEof {
                                location: __location,
                                expected: __expected,
                            }
                        }
                    }
                )
            }
        }
    }

    fn __state5<
        'input,
        __TOKENS: Iterator<Item=Result<(usize, Token<'input>, usize),__lalrpop_util::ParseError<usize, Token<'input>, &'static str>>>,
    >(
        input: &'input str,
        __tokens: &mut __TOKENS,
        __sym0: (usize, &'input str, usize),
        _: core::marker::PhantomData<(&'input ())>,
    ) -> Result<(Option<(usize, Token<'input>, usize)>, __Nonterminal<'input>), __lalrpop_util::ParseError<usize, Token<'input>, &'static str>>
    {
        let mut __result: (Option<(usize, Token<'input>, usize)>, __Nonterminal<'input>);
        let __lookahead = match __tokens.next() {
            Some(Ok(v)) => Some(v),
            Some(Err(e)) => return Err(e),
            None => None,
        };
        match __lookahead {
            Some((_, Token(0, _), _)) |
            Some((_, Token(1, _), _)) |
            Some((_, Token(2, _), _)) |
            Some((_, Token(3, _), _)) |
            Some((_, Token(4, _), _)) |
            Some((_, Token(5, _), _)) |
            None => {
                let __start = __sym0.0.clone();
                let __end = __sym0.2.clone();
                let __nt = super::__action5::<>(input, __sym0);
                let __nt = __Nonterminal::W((
                    __start,
                    __nt,
                    __end,
                ));
                __result = (__lookahead, __nt);
                return Ok(__result);
            }
            _ => {
                #[allow(clippy::needless_raw_string_hashes)]
                let __expected = alloc::vec![
                    r###"r#"[0-9]+(\\.[0-9]+)?"#"###.to_string(),
                    r###"r#"[A-Z][a-z]*"#"###.to_string(),
                    r###"r#"[a-z]+"#"###.to_string(),
                    r###"r#"\\p{Han}+"#"###.to_string(),
                    r###""else""###.to_string(),
                    r###""if""###.to_string(),
                ];
                return Err(
                    match __lookahead {
                        Some(__token) => {
                            __lalrpop_util::ParseError::UnrecognizedToken {
                                token: __token,
                                expected: __expected,
                            }
                        }
                        None => {
                            let __location = __sym0.2.clone();
                            __lalrpop_util::ParseError::UnrecognizedEof {
                                location: __location,
                                expected: __expected,
                            }
                        }
                    }
                )
            }
        }
    }

    fn __state6<
        'input,
        __TOKENS: Iterator<Item=Result<(usize, Token<'input>, usize),__lalrpop_util::ParseError<usize, Token<'input>, &'static str>>>,
    >(
        input: &'input str,
        __tokens: &mut __TOKENS,
        __sym0: (usize, &'input str, usize),
        _: core::marker::PhantomData<(&'input ())>,
    ) -> Result<(Option<(usize, Token<'input>, usize)>, __Nonterminal<'input>), __lalrpop_util::ParseError<usize, Token<'input>, &'static str>>
    {
        let mut __result: (Option<(usize, Token<'input>, usize)>, __Nonterminal<'input>);
        let __lookahead = match __tokens.next() {
            Some(Ok(v)) => Some(v),
            Some(Err(e)) => return Err(e),
            None => None,
        };
        match __lookahead {
            Some((_, Token(0, _), _)) |
            Some((_, Token(1, _), _)) |
            Some((_, Token(2, _), _)) |
            Some((_, Token(3, _), _)) |
            Some((_, Token(4, _), _)) |
            Some((_, Token(5, _), _)) |
            None => {
                let __start = __sym0.0.clone();
                let __end = __sym0.2.clone();
                let __nt = super::__action4::<>(input, __sym0);
                let __nt = __Nonterminal::W((
                    __start,
                    __nt,
                    __end,
                ));
                __result = (__lookahead, __nt);
                return Ok(__result);
            }
            _ => {
                #[allow(clippy::needless_raw_string_hashes)]
                let __expected = alloc::vec![
                    r###"r#"[0-9]+(\\.[0-9]+)?"#"###.to_string(),
                    r###"r#"[A-Z][a-z]*"#"###.to_string(),
                    r###"r#"[a-z]+"#"###.to_string(),
                    r###"r#"\\p{Han}+"#"###.to_string(),
                    r###""else""###.to_string(),
                    r###""if""###.to_string(),
                ];
                return Err(
                    match __lookahead {
                        Some(__token) => {
                            __lalrpop_util::ParseError::UnrecognizedToken {
                                token: __token,
                                expected: __expected,
                            }
                        }
                        None => {
                            let __location = __sym0.2.clone();
                            __lalrpop_util::ParseError::UnrecognizedEof {
                                location: __location,
                                expected: __expected,
                            }
                        }
                    }
                )
            }
        }
    }

    fn __state7<
        'input,
        __TOKENS: Iterator<Item=Result<(usize, Token<'input>, usize),__lalrpop_util::ParseError<usize, Token<'input>, &'static str>>>,
    >(
        input: &'input str,
        __tokens: &mut __TOKENS,
        __sym0: (usize, &'input str, usize),
        _: core::marker::PhantomData<(&'input ())>,
    ) -> Result<(Option<(usize, Token<'input>, usize)>, __Nonterminal<'input>), __lalrpop_util::ParseError<usize, Token<'input>, &'static str>>
    {
        let mut __result: (Option<(usize, Token<'input>, usize)>, __Nonterminal<'input>);
        let __lookahead = match __tokens.next() {
            Some(Ok(v)) => Some(v),
            Some(Err(e)) => return Err(e),
            None => None,
        };
        match __lookahead {
            Some((_, Token(0, _), _)) |
            Some((_, Token(1, _), _)) |
            Some((_, Token(2, _), _)) |
            Some((_, Token(3, _), _)) |
            Some((_, Token(4, _), _)) |
            Some((_, Token(5, _), _)) |
            None => {
                let __start = __sym0.0.clone();
                let __end = __sym0.2.clone();
                let __nt = super::__action3::<>(input, __sym0);
                let __nt = __Nonterminal::W((
                    __start,
                    __nt,
                    __end,
                ));
                __result = (__lookahead, __nt);
                return Ok(__result);
            }
            _ => {
                #[allow(clippy::needless_raw_string_hashes)]
                let __expected = alloc::vec![
                    r###"r#"[0-9]+(\\.[0-9]+)?"#"###.to_string(),
                    r###"r#"[A-Z][a-z]*"#"###.to_string(),
                    r###"r#"[a-z]+"#"###.to_string(),
                    r###"r#"\\p{Han}+"#"###.to_string(),
                    r###""else""###.to_string(),
                    r###""if""###.to_string(),
                ];
                return Err(
                    match __lookahead {
                        Some(__token) => {
                            __lalrpop_util::ParseError::UnrecognizedToken {
                                token: __token,
                                expected: __expected,
                            }
                        }
                        None => {
                            let __location = __sym0.2.clone();
                            __lalrpop_util::ParseError::UnrecognizedEof {
                                location: __location,
                                expected: __expected,
                            }
                        }
                    }
                )
            }
        }
    }

    fn __state8<
        'input,
        __TOKENS: Iterator<Item=Result<(usize, Token<'input>, usize),__lalrpop_util::ParseError<usize, Token<'input>, &'static str>>>,
    >(
        input: &'input str,
        __tokens: &mut __TOKENS,
        __sym0: (usize, &'input str, usize),
        _: core::marker::PhantomData<(&'input ())>,
    ) -> Result<(Option<(usize, Token<'input>, usize)>, __Nonterminal<'input>), __lalrpop_util::ParseError<usize, Token<'input>, &'static str>>
    {
        let mut __result: (Option<(usize, Token<'input>, usize)>, __Nonterminal<'input>);
        let __lookahead = match __tokens.next() {
            Some(Ok(v)) => Some(v),
            Some(Err(e)) => return Err(e),
            None => None,
        };
        match __lookahead {
            Some((_, Token(0, _), _)) |
            Some((_, Token(1, _), _)) |
            Some((_, Token(2, _), _)) |
            Some((_, Token(3, _), _)) |
            Some((_, Token(4, _), _)) |
            Some((_, Token(5, _), _)) |
            None => {
                let __start = __sym0.0.clone();
                let __end = __sym0.2.clone();
                let __nt = super::__action8::<>(input, __sym0);
                let __nt = __Nonterminal::W((
                    __start,
                    __nt,
                    __end,
                ));
                __result = (__lookahead, __nt);
                return Ok(__result);
            }
            _ => {
                #[allow(clippy::needless_raw_string_hashes)]
                let __expected = alloc::vec![
                    r###"r#"[0-9]+(\\.[0-9]+)?"#"###.to_string(),
                    r###"r#"[A-Z][a-z]*"#"###.to_string(),
                    r###"r#"[a-z]+"#"###.to_string(),
                    r###"r#"\\p{Han}+"#"###.to_string(),
                    r###""else""###.to_string(),
                    r###""if""###.to_string(),
                ];
                return Err(
                    match __lookahead {
                        Some(__token) => {
                            __lalrpop_util::ParseError::UnrecognizedToken {
                                token: __token,
                                expected: __expected,
                            }
                        }
                        None => {
                            let __location = __sym0.2.clone();
                            __lalrpop_util::ParseError::UnrecognizedEof {
                                location: __location,
                                expected: __expected,
                            }
                        }
                    }
                )
            }
        }
    }
}
#[allow(unused_imports)]
pub use self::__parse__P::PParser;
#[rustfmt::skip]
mod __intern_token {
    #![allow(unused_imports)]
    #[allow(unused_extern_crates)]
    extern crate lalrpop_util as __lalrpop_util;
    #[allow(unused_imports)]
    use self::__lalrpop_util::state_machine as __state_machine;
    #[allow(unused_extern_crates)]
    extern crate alloc;
    pub fn new_builder() -> __lalrpop_util::lexer::MatcherBuilder {
        let __strs: &[(&str, bool)] = &[
            ("(?:[0-9]+((?:\\.[0-9]+))?)", false),
            ("(?:[A-Z][a-z]*)", false),
            ("[a-z]+", false),
            ("[⺀-⺙⺛-⻳⼀-⿕々〇〡-〩〸-〻㐀-䶿一-鿿豈-舘並-龎𖿢𖿣\u{16ff0}\u{16ff1}𠀀-𪛟𪜀-𫜹𫝀-𫠝𫠠-𬺡𬺰-𮯠𮯰-𮹝丽-𪘀𰀀-𱍊𱍐-𲎯]+", false),
            ("(?:else)", false),
            ("(?:if)", false),
            (r"\s+", true),
        ];
        __lalrpop_util::lexer::MatcherBuilder::new(__strs.iter().copied()).unwrap()
    }
}
pub(crate) use self::__lalrpop_util::lexer::Token;

#[allow(unused_variables)]
#[allow(clippy::too_many_arguments, clippy::needless_lifetimes, clippy::just_underscores_and_digits, clippy::extra_unused_type_parameters)]
fn __action0<
    'input,
>(
    input: &'input str,
    (_, __0, _): (usize, Vec<&'input str>, usize),
) -> Vec<&'input str>
{
    __0
}

#[allow(unused_variables)]
#[allow(clippy::too_many_arguments, clippy::needless_lifetimes, clippy::just_underscores_and_digits, clippy::extra_unused_type_parameters)]
fn __action1<
    'input,
>(
    input: &'input str,
    (_, mut v, _): (usize, Vec<&'input str>, usize),
    (_, w, _): (usize, &'input str, usize),
) -> Vec<&'input str>
{
    { v.push(w); v }
}

#[allow(unused_variables)]
#[allow(clippy::too_many_arguments, clippy::needless_lifetimes, clippy::just_underscores_and_digits, clippy::extra_unused_type_parameters)]
fn __action2<
    'input,
>(
    input: &'input str,
    __lookbehind: &usize,
    __lookahead: &usize,
) -> Vec<&'input str>
{
    Vec::new()
}

#[allow(unused_variables)]
#[allow(clippy::too_many_arguments, clippy::needless_lifetimes, clippy::just_underscores_and_digits, clippy::extra_unused_type_parameters)]
fn __action3<
    'input,
>(
    input: &'input str,
    (_, __0, _): (usize, &'input str, usize),
) -> &'input str
{
    __0
}

#[allow(unused_variables)]
#[allow(clippy::too_many_arguments, clippy::needless_lifetimes, clippy::just_underscores_and_digits, clippy::extra_unused_type_parameters)]
fn __action4<
    'input,
>(
    input: &'input str,
    (_, __0, _): (usize, &'input str, usize),
) -> &'input str
{
    __0
}

#[allow(unused_variables)]
#[allow(clippy::too_many_arguments, clippy::needless_lifetimes, clippy::just_underscores_and_digits, clippy::extra_unused_type_parameters)]
fn __action5<
    'input,
>(
    input: &'input str,
    (_, __0, _): (usize, &'input str, usize),
) -> &'input str
{
    __0
}

#[allow(unused_variables)]
#[allow(clippy::too_many_arguments, clippy::needless_lifetimes, clippy::just_underscores_and_digits, clippy::extra_unused_type_parameters)]
fn __action6<
    'input,
>(
    input: &'input str,
    (_, __0, _): (usize, &'input str, usize),
) -> &'input str
{
    __0
}

#[allow(unused_variables)]
#[allow(clippy::too_many_arguments, clippy::needless_lifetimes, clippy::just_underscores_and_digits, clippy::extra_unused_type_parameters)]
fn __action7<
    'input,
>(
    input: &'input str,
    (_, __0, _): (usize, &'input str, usize),
) -> &'input str
{
    __0
}

#[allow(unused_variables)]
#[allow(clippy::too_many_arguments, clippy::needless_lifetimes, clippy::just_underscores_and_digits, clippy::extra_unused_type_parameters)]
fn __action8<
    'input,
>(
    input: &'input str,
    (_, __0, _): (usize, &'input str, usize),
) -> &'input str
{
    __0
}

#[allow(clippy::type_complexity, dead_code)]
pub trait __ToTriple<'input, >
{
    fn to_triple(self) -> Result<(usize,Token<'input>,usize), __lalrpop_util::ParseError<usize, Token<'input>, &'static str>>;
}

impl<'input, > __ToTriple<'input, > for (usize, Token<'input>, usize)
{
    fn to_triple(self) -> Result<(usize,Token<'input>,usize), __lalrpop_util::ParseError<usize, Token<'input>, &'static str>> {
        Ok(self)
    }
}
impl<'input, > __ToTriple<'input, > for Result<(usize, Token<'input>, usize), &'static str>
{
    fn to_triple(self) -> Result<(usize,Token<'input>,usize), __lalrpop_util::ParseError<usize, Token<'input>, &'static str>> {
        self.map_err(|error| __lalrpop_util::ParseError::User { error })
    }
}
