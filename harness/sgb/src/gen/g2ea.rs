// auto-generated: "lalrpop 0.23.1"
// sha3: e34a93c53d23dbfff812e65c6b892a01bd78d1e218711ca8fb9989e18acaa8fb
use crate::support::*;
#[allow(unused_extern_crates)]
extern crate lalrpop_util as __lalrpop_util;
#[allow(unused_imports)]
use self::__lalrpop_util::state_machine as __state_machine;
#[allow(unused_extern_crates)]
extern crate alloc;

#[rustfmt::skip]
#[allow(explicit_outlives_requirements, non_snake_case, non_camel_case_types, unused_mut, unused_variables, unused_imports, unused_parens, clippy::needless_lifetimes, clippy::type_complexity, clippy::needless_return, clippy::too_many_arguments, clippy::match_single_binding, clippy::clone_on_copy, clippy::unit_arg)]
mod __parse__S {

    use crate::support::*;
    #[allow(unused_extern_crates)]
    extern crate lalrpop_util as __lalrpop_util;
    #[allow(unused_imports)]
    use self::__lalrpop_util::state_machine as __state_machine;
    #[allow(unused_extern_crates)]
    extern crate alloc;
    use super::__ToTriple;
    pub struct SParser {
        _priv: (),
    }

    impl Default for SParser { fn default() -> Self { Self::new() } }
    impl SParser {
        pub fn new() -> SParser {
            SParser {
                _priv: (),
            }
        }

        #[allow(dead_code)]
        pub fn parse<
            's,
            T,
            __TOKEN: __ToTriple<'s, T, >,
            __TOKENS: IntoIterator<Item=__TOKEN>,
        >(
            &self,
            name: &'s str,
            seed: &T,
            __tokens0: __TOKENS,
        ) -> Result<Ast<'s, (usize, T)>, __lalrpop_util::ParseError<Loc, Tok, String>>
        where
            T: Clone,
            T: std::fmt::Debug,
        {
            let __tokens = __tokens0.into_iter();
            let mut __tokens = __tokens.map(|t| __ToTriple::to_triple(t));
            let __lookahead = match __tokens.next() {
                Some(Ok(v)) => Some(v),
                Some(Err(e)) => return Err(e),
                None => None,
            };
            match __state0(name, seed, &mut __tokens, __lookahead, core::marker::PhantomData::<(&(), T)>)? {
                (Some(__lookahead), _) => {
                    Err(__lalrpop_util::ParseError::ExtraToken { token: __lookahead })
                }
                (None, __Nonterminal::____S((_, __nt, _))) => {
                    Ok(__nt)
                }
                _ => unreachable!(),
            }
        }
    }

    #[allow(dead_code)]
    enum __Nonterminal<'s, T>
     where T: Clone, T: std::fmt::Debug
     {
        _28_22a_22_20_3c_22b_22_3e_29((Loc, Tok, Loc)),
        _40L((Loc, Loc, Loc)),
        _40R((Loc, Loc, Loc)),
        Item((Loc, usize, Loc)),
        Item_2a((Loc, alloc::vec::Vec<usize>, Loc)),
        Item_2b((Loc, alloc::vec::Vec<usize>, Loc)),
        N0((Loc, Tok, Loc)),
        N1((Loc, Tok, Loc)),
        S((Loc, Ast<'s, (usize, T)>, Loc)),
        ____S((Loc, Ast<'s, (usize, T)>, Loc)),
    }

    fn __state0<
        's,
        T,
        __TOKENS: Iterator<Item=Result<(Loc, Tok, Loc),__lalrpop_util::ParseError<Loc, Tok, String>>>,
    >(
        name: &'s str,
        seed: &T,
        __tokens: &mut __TOKENS,
        __lookahead: Option<(Loc, Tok, Loc)>,
        _: core::marker::PhantomData<(&'s (), T)>,
    ) -> Result<(Option<(Loc, Tok, Loc)>, __Nonterminal<'s, T>), __lalrpop_util::ParseError<Loc, Tok, String>>
    where
        T: Clone,
        T: std::fmt::Debug,
    {
        let mut __result: (Option<(Loc, Tok, Loc)>, __Nonterminal<'s, T>);
        match __lookahead {
            Some((__loc1, __tok @ Tok::A, __loc2)) => {
                let __sym0 = (__loc1, (__tok), __loc2);
                __result = __state6(name, seed, __tokens, __sym0, core::marker::PhantomData::<(&(), T)>)?;
            }
            None => {
                let __start: Loc = __lookahead.as_ref().map(|o| o.0.clone()).unwrap_or_default();
                let __end = __start.clone();
                let __nt = super::__action15::<T>(name, seed, &__start, &__end);
                let __nt = __Nonterminal::S((
                    __start,
                    __nt,
                    __end,
                ));
                __result = (__lookahead, __nt);
            }
            _ => {
                #[allow(clippy::needless_raw_string_hashes)]
                let __expected = alloc::vec![
                    r###""a""###.to_string(),
                ];
                return Err(
                    match __lookahead {
                        Some(__token) => {
                            __lalrpop_util::ParseError::UnrecognizedToken {
                                token: __token,
                                expected: __expected,
                            }
                        }
                        None => {
                            let __location = Default::default();
                            __lalrpop_util::ParseError::UnrecognizedEof {
                                location: __location,
                                expected: __expected,
                            }
                        }
                    }
                )
            }
        }
        #[allow(clippy::never_loop)]
        loop {
            let (__lookahead, __nt) = __result;
            match __nt {
                __Nonterminal::Item(__sym0) => {
                    __result = __state2(name, seed, __tokens, __lookahead, __sym0, core::marker::PhantomData::<(&(), T)>)?;
                }
                __Nonterminal::Item_2b(__sym0) => {
                    __result = __state1(name, seed, __tokens, __lookahead, __sym0, core::marker::PhantomData::<(&(), T)>)?;
                }
                __Nonterminal::N0(__sym0) => {
                    __result = __state3(name, seed, __tokens, __lookahead, __sym0, core::marker::PhantomData::<(&(), T)>)?;
                }
                __Nonterminal::N1(__sym0) => {
                    __result = __state4(name, seed, __tokens, __lookahead, __sym0, core::marker::PhantomData::<(&(), T)>)?;
                }
                __Nonterminal::S(__sym0) => {
                    __result = __state5(name, seed, __tokens, __lookahead, __sym0, core::marker::PhantomData::<(&(), T)>)?;
                }
                _ => {
                    return Ok((__lookahead, __nt));
                }
            }
        }
    }

    fn __state1<
        's,
        T,
        __TOKENS: Iterator<Item=Result<(Loc, Tok, Loc),__lalrpop_util::ParseError<Loc, Tok, String>>>,
    >(
        name: &'s str,
        seed: &T,
        __tokens: &mut __TOKENS,
        __lookahead: Option<(Loc, Tok, Loc)>,
        __sym0: (Loc, alloc::vec::Vec<usize>, Loc),
        _: core::marker::PhantomData<(&'s (), T)>,
    ) -> Result<(Option<(Loc, Tok, Loc)>, __Nonterminal<'s, T>), __lalrpop_util::ParseError<Loc, Tok, String>>
    where
        T: Clone,
        T: std::fmt::Debug,
    {
        let mut __result: (Option<(Loc, Tok, Loc)>, __Nonterminal<'s, T>);
        match __lookahead {
            Some((__loc1, __tok @ Tok::A, __loc2)) => {
                let __sym1 = (__loc1, (__tok), __loc2);
                __result = __state6(name, seed, __tokens, __sym1, core::marker::PhantomData::<(&(), T)>)?;
            }
            None => {
                let __start = __sym0.0.clone();
                let __end = __sym0.2.clone();
                let __nt = super::__action16::<T>(name, seed, __sym0);
                let __nt = __Nonterminal::S((
                    __start,
                    __nt,
                    __end,
                ));
                __result = (__lookahead, __nt);
                return Ok(__result);
            }
            _ => {
                #[allow(clippy::needless_raw_string_hashes)]
                let __expected = alloc::vec![
                    r###""a""###.to_string(),
                ];
                return Err(
                    match __lookahead {
                        Some(__token) => {
                            __lalrpop_util::ParseError::UnrecognizedToken {
                                token: __token,
                                expected: __expected,
                            }
                        }
                        None => {
                            let __location = __sym0.2.clone();
                            __lalrpop_util::ParseError::UnrecognizedEof {
                                location: __location,
                                expected: __expected,
                            }
                        }
                    }
                )
            }
        }
        #[allow(clippy::never_loop)]
        loop {
            let (__lookahead, __nt) = __result;
            match __nt {
                __Nonterminal::Item(__sym1) => {
                    __result = __state7(name, seed, __tokens, __lookahead, __sym0, __sym1, core::marker::PhantomData::<(&(), T)>)?;
                    return Ok(__result);
                }
                __Nonterminal::N0(__sym1) => {
                    __result = __state3(name, seed, __tokens, __lookahead, __sym1, core::marker::PhantomData::<(&(), T)>)?;
                }
                __Nonterminal::N1(__sym1) => {
                    __result = __state4(name, seed, __tokens, __lookahead, __sym1, core::marker::PhantomData::<(&(), T)>)?;
                }
                _ => {
                    return Ok((__lookahead, __nt));
                }
            }
        }
    }

    fn __state2<
        's,
        T,
        __TOKENS: Iterator<Item=Result<(Loc, Tok, Loc),__lalrpop_util::ParseError<Loc, Tok, String>>>,
    >(
        name: &'s str,
        seed: &T,
        __tokens: &mut __TOKENS,
        __lookahead: Option<(Loc, Tok, Loc)>,
        __sym0: (Loc, usize, Loc),
        _: core::marker::PhantomData<(&'s (), T)>,
    ) -> Result<(Option<(Loc, Tok, Loc)>, __Nonterminal<'s, T>), __lalrpop_util::ParseError<Loc, Tok, String>>
    where
        T: Clone,
        T: std::fmt::Debug,
    {
        let mut __result: (Option<(Loc, Tok, Loc)>, __Nonterminal<'s, T>);
        match __lookahead {
            Some((_, Tok::A, _)) |
            None => {
                let __start = __sym0.0.clone();
                let __end = __sym0.2.clone();
                let __nt = super::__action10::<T>(name, seed, __sym0);
                let __nt = __Nonterminal::Item_2b((
                    __start,
                    __nt,
                    __end,
                ));
                __result = (__lookahead, __nt);
                return Ok(__result);
            }
            _ => {
                #[allow(clippy::needless_raw_string_hashes)]
                let __expected = alloc::vec![
                    r###""a""###.to_string(),
                ];
                return Err(
                    match __lookahead {
                        Some(__token) => {
                            __lalrpop_util::ParseError::UnrecognizedToken {
                                token: __token,
                                expected: __expected,
                            }
                        }
                        None => {
                            let __location = __sym0.2.clone();
                            __lalrpop_util::ParseError::UnrecognizedEof {
                                location: __location,
                                expected: __expected,
                            }
                        }
                    }
                )
            }
        }
    }

    fn __state3<
        's,
        T,
        __TOKENS: Iterator<Item=Result<(Loc, Tok, Loc),__lalrpop_util::ParseError<Loc, Tok, String>>>,
    >(
        name: &'s str,
        seed: &T,
        __tokens: &mut __TOKENS,
        __lookahead: Option<(Loc, Tok, Loc)>,
        __sym0: (Loc, Tok, Loc),
        _: core::marker::PhantomData<(&'s (), T)>,
    ) -> Result<(Option<(Loc, Tok, Loc)>, __Nonterminal<'s, T>), __lalrpop_util::ParseError<Loc, Tok, String>>
    where
        T: Clone,
        T: std::fmt::Debug,
    {
        let mut __result: (Option<(Loc, Tok, Loc)>, __Nonterminal<'s, T>);
        match __lookahead {
            Some((__loc1, __tok @ Tok::Comma, __loc2)) => {
                let __sym1 = (__loc1, (__tok), __loc2);
                __result = __state8(name, seed, __tokens, __sym0, __sym1, core::marker::PhantomData::<(&(), T)>)?;
                return Ok(__result);
            }
            _ => {
                #[allow(clippy::needless_raw_string_hashes)]
                let __expected = alloc::vec![
                    r###"",""###.to_string(),
                ];
                return Err(
                    match __lookahead {
                        Some(__token) => {
                            __lalrpop_util::ParseError::UnrecognizedToken {
                                token: __token,
                                expected: __expected,
                            }
                        }
                        None => {
                            let __location = __sym0.2.clone();
                            __lalrpop_util::ParseError::UnrecognizedEof {
                                location: __location,
                                expected: __expected,
                            }
                        }
                    }
                )
            }
        }
    }

    fn __state4<
        's,
        T,
        __TOKENS: Iterator<Item=Result<(Loc, Tok, Loc),__lalrpop_util::ParseError<Loc, Tok, String>>>,
    >(
        name: &'s str,
        seed: &T,
        __tokens: &mut __TOKENS,
        __lookahead: Option<(Loc, Tok, Loc)>,
        __sym0: (Loc, Tok, Loc),
        _: core::marker::PhantomData<(&'s (), T)>,
    ) -> Result<(Option<(Loc, Tok, Loc)>, __Nonterminal<'s, T>), __lalrpop_util::ParseError<Loc, Tok, String>>
    where
        T: Clone,
        T: std::fmt::Debug,
    {
        let mut __result: (Option<(Loc, Tok, Loc)>, __Nonterminal<'s, T>);
        match __lookahead {
            Some((__loc1, __tok @ Tok::C, __loc2)) => {
                let __sym1 = (__loc1, (__tok), __loc2);
                __result = __state9(name, seed, __tokens, __sym0, __sym1, core::marker::PhantomData::<(&(), T)>)?;
                return Ok(__result);
            }
            _ => {
                #[allow(clippy::needless_raw_string_hashes)]
                let __expected = alloc::vec![
                    r###""c""###.to_string(),
                ];
                return Err(
                    match __lookahead {
                        Some(__token) => {
                            __lalrpop_util::ParseError::UnrecognizedToken {
                                token: __token,
                                expected: __expected,
                            }
                        }
                        None => {
                            let __location = __sym0.2.clone();
                            __lalrpop_util::ParseError::UnrecognizedEof {
                                location: __location,
                                expected: __expected,
                            }
                        }
                    }
                )
            }
        }
    }

    fn __state5<
        's,
        T,
        __TOKENS: Iterator<Item=Result<(Loc, Tok, Loc),__lalrpop_util::ParseError<Loc, Tok, String>>>,
    >(
        name: &'s str,
        seed: &T,
        __tokens: &mut __TOKENS,
        __lookahead: Option<(Loc, Tok, Loc)>,
        __sym0: (Loc, Ast<'s, (usize, T)>, Loc),
        _: core::marker::PhantomData<(&'s (), T)>,
    ) -> Result<(Option<(Loc, Tok, Loc)>, __Nonterminal<'s, T>), __lalrpop_util::ParseError<Loc, Tok, String>>
    where
        T: Clone,
        T: std::fmt::Debug,
    {
        let mut __result: (Option<(Loc, Tok, Loc)>, __Nonterminal<'s, T>);
        match __lookahead {
            None => {
                let __start = __sym0.0.clone();
                let __end = __sym0.2.clone();
                let __nt = super::__action0::<T>(name, seed, __sym0);
                let __nt = __Nonterminal::____S((
                    __start,
                    __nt,
                    __end,
                ));
                __result = (__lookahead, __nt);
                return Ok(__result);
            }
            _ => {
                #[allow(clippy::needless_raw_string_hashes)]
                let __expected = alloc::vec![
                ];
                return Err(
                    match __lookahead {
                        Some(__token) => {
                            __lalrpop_util::ParseError::UnrecognizedToken {
                                token: __token,
                                expected: __expected,
                            }
                        }
                        None => {
                            let __location = __sym0.2.clone();
                            __lalrpop_util::ParseError::UnrecognizedEof {
                                location: __location,
                                expected: __expected,
                            }
                        }
                    }
                )
            }
        }
    }

    fn __state6<
        's,
        T,
        __TOKENS: Iterator<Item=Result<(Loc, Tok, Loc),__lalrpop_util::ParseError<Loc, Tok, String>>>,
    >(
        name: &'s str,
        seed: &T,
        __tokens: &mut __TOKENS,
        __sym0: (Loc, Tok, Loc),
        _: core::marker::PhantomData<(&'s (), T)>,
    ) -> Result<(Option<(Loc, Tok, Loc)>, __Nonterminal<'s, T>), __lalrpop_util::ParseError<Loc, Tok, String>>
    where
        T: Clone,
        T: std::fmt::Debug,
    {
        let mut __result: (Option<(Loc, Tok, Loc)>, __Nonterminal<'s, T>);
        let __lookahead = match __tokens.next() {
            Some(Ok(v)) => Some(v),
            Some(Err(e)) => return Err(e),
            None => None,
        };
        match __lookahead {
            Some((__loc1, __tok @ Tok::B, __loc2)) => {
                let __sym1 = (__loc1, (__tok), __loc2);
                __result = __state10(name, seed, __tokens, __sym0, __sym1, core::marker::PhantomData::<(&(), T)>)?;
                return Ok(__result);
            }
            _ => {
                #[allow(clippy::needless_raw_string_hashes)]
                let __expected = alloc::vec![
                    r###""b""###.to_string(),
                ];
                return Err(
                    match __lookahead {
                        Some(__token) => {
                            __lalrpop_util::ParseError::UnrecognizedToken {
                                token: __token,
                                expected: __expected,
                            }
                        }
                        None => {
                            let __location = __sym0.2.clone();
                            __lalrpop_util::ParseError::UnrecognizedEof {
                                location: __location,
                                expected: __expected,
                            }
                        }
                    }
                )
            }
        }
    }

    fn __state7<
        's,
        T,
        __TOKENS: Iterator<Item=Result<(Loc, Tok, Loc),__lalrpop_util::ParseError<Loc, Tok, String>>>,
    >(
        name: &'s str,
        seed: &T,
        __tokens: &mut __TOKENS,
        __lookahead: Option<(Loc, Tok, Loc)>,
        __sym0: (Loc, alloc::vec::Vec<usize>, Loc),
        __sym1: (Loc, usize, Loc),
        _: core::marker::PhantomData<(&'s (), T)>,
    ) -> Result<(Option<(Loc, Tok, Loc)>, __Nonterminal<'s, T>), __lalrpop_util::ParseError<Loc, Tok, String>>
    where
        T: Clone,
        T: std::fmt::Debug,
    {
        let mut __result: (Option<(Loc, Tok, Loc)>, __Nonterminal<'s, T>);
        match __lookahead {
            Some((_, Tok::A, _)) |
            None => {
                let __start = __sym0.0.clone();
                let __end = __sym1.2.clone();
                let __nt = super::__action11::<T>(name, seed, __sym0, __sym1);
                let __nt = __Nonterminal::Item_2b((
                    __start,
                    __nt,
                    __end,
                ));
                __result = (__lookahead, __nt);
                return Ok(__result);
            }
            _ => {
                #[allow(clippy::needless_raw_string_hashes)]
                let __expected = alloc::vec![
                    r###""a""###.to_string(),
                ];
                return Err(
                    match __lookahead {
                        Some(__token) => {
                            __lalrpop_util::ParseError::UnrecognizedToken {
                                token: __token,
                                expected: __expected,
                            }
                        }
                        None => {
                            let __location = __sym1.2.clone();
                            __lalrpop_util::ParseError::UnrecognizedEof {
                                location: __location,
                                expected: __expected,
                            }
                        }
                    }
                )
            }
        }
    }

    fn __state8<
        's,
        T,
        __TOKENS: Iterator<Item=Result<(Loc, Tok, Loc),__lalrpop_util::ParseError<Loc, Tok, String>>>,
    >(
        name: &'s str,
        seed: &T,
        __tokens: &mut __TOKENS,
        __sym0: (Loc, Tok, Loc),
        __sym1: (Loc, Tok, Loc),
        _: core::marker::PhantomData<(&'s (), T)>,
    ) -> Result<(Option<(Loc, Tok, Loc)>, __Nonterminal<'s, T>), __lalrpop_util::ParseError<Loc, Tok, String>>
    where
        T: Clone,
        T: std::fmt::Debug,
    {
        let mut __result: (Option<(Loc, Tok, Loc)>, __Nonterminal<'s, T>);
        let __lookahead = match __tokens.next() {
            Some(Ok(v)) => Some(v),
            Some(Err(e)) => return Err(e),
            None => None,
        };
        match __lookahead {
            Some((_, Tok::A, _)) |
            None => {
                let __start = __sym0.0.clone();
                let __end = __sym1.2.clone();
                let __nt = super::__action2::<T>(name, seed, __sym0, __sym1);
                let __nt = __Nonterminal::Item((
                    __start,
                    __nt,
                    __end,
                ));
                __result = (__lookahead, __nt);
                return Ok(__result);
            }
            _ => {
                #[allow(clippy::needless_raw_string_hashes)]
                let __expected = alloc::vec![
                    r###""a""###.to_string(),
                ];
                return Err(
                    match __lookahead {
                        Some(__token) => {
                            __lalrpop_util::ParseError::UnrecognizedToken {
                                token: __token,
                                expected: __expected,
                            }
                        }
                        None => {
                            let __location = __sym1.2.clone();
                            __lalrpop_util::ParseError::UnrecognizedEof {
                                location: __location,
                                expected: __expected,
                            }
                        }
                    }
                )
            }
        }
    }

    fn __state9<
        's,
        T,
        __TOKENS: Iterator<Item=Result<(Loc, Tok, Loc),__lalrpop_util::ParseError<Loc, Tok, String>>>,
    >(
        name: &'s str,
        seed: &T,
        __tokens: &mut __TOKENS,
        __sym0: (Loc, Tok, Loc),
        __sym1: (Loc, Tok, Loc),
        _: core::marker::PhantomData<(&'s (), T)>,
    ) -> Result<(Option<(Loc, Tok, Loc)>, __Nonterminal<'s, T>), __lalrpop_util::ParseError<Loc, Tok, String>>
    where
        T: Clone,
        T: std::fmt::Debug,
    {
        let mut __result: (Option<(Loc, Tok, Loc)>, __Nonterminal<'s, T>);
        let __lookahead = match __tokens.next() {
            Some(Ok(v)) => Some(v),
            Some(Err(e)) => return Err(e),
            None => None,
        };
        match __lookahead {
            Some((_, Tok::Comma, _)) => {
                let __start = __sym0.0.clone();
                let __end = __sym1.2.clone();
                let __nt = super::__action3::<T>(name, seed, __sym0, __sym1);
                let __nt = __Nonterminal::N0((
                    __start,
                    __nt,
                    __end,
                ));
                __result = (__lookahead, __nt);
                return Ok(__result);
            }
            _ => {
                #[allow(clippy::needless_raw_string_hashes)]
                let __expected = alloc::vec![
                    r###"",""###.to_string(),
                ];
                return Err(
                    match __lookahead {
                        Some(__token) => {
                            __lalrpop_util::ParseError::UnrecognizedToken {
                                token: __token,
                                expected: __expected,
                            }
                        }
                        None => {
                            let __location = __sym1.2.clone();
                            __lalrpop_util::ParseError::UnrecognizedEof {
                                location: __location,
                                expected: __expected,
                            }
                        }
                    }
                )
            }
        }
    }

    fn __state10<
        's,
        T,
        __TOKENS: Iterator<Item=Result<(Loc, Tok, Loc),__lalrpop_util::ParseError<Loc, Tok, String>>>,
    >(
        name: &'s str,
        seed: &T,
        __tokens: &mut __TOKENS,
        __sym0: (Loc, Tok, Loc),
        __sym1: (Loc, Tok, Loc),
        _: core::marker::PhantomData<(&'s (), T)>,
    ) -> Result<(Option<(Loc, Tok, Loc)>, __Nonterminal<'s, T>), __lalrpop_util::ParseError<Loc, Tok, String>>
    where
        T: Clone,
        T: std::fmt::Debug,
    {
        let mut __result: (Option<(Loc, Tok, Loc)>, __Nonterminal<'s, T>);
        let __lookahead = match __tokens.next() {
            Some(Ok(v)) => Some(v),
            Some(Err(e)) => return Err(e),
            None => None,
        };
        match __lookahead {
            Some((_, Tok::C, _)) => {
                let __start = __sym0.0.clone();
                let __end = __sym1.2.clone();
                let __nt = super::__action12::<T>(name, seed, __sym0, __sym1);
                let __nt = __Nonterminal::N1((
                    __start,
                    __nt,
                    __end,
                ));
                __result = (__lookahead, __nt);
                return Ok(__result);
            }
            _ => {
                #[allow(clippy::needless_raw_string_hashes)]
                let __expected = alloc::vec![
                    r###""c""###.to_string(),
                ];
                return Err(
                    match __lookahead {
                        Some(__token) => {
                            __lalrpop_util::ParseError::UnrecognizedToken {
                                token: __token,
                                expected: __expected,
                            }
                        }
                        None => {
                            let __location = __sym1.2.clone();
                            __lalrpop_util::ParseError::UnrecognizedEof {
                                location: __location,
                                expected: __expected,
                            }
                        }
                    }
                )
            }
        }
    }
}
#[allow(unused_imports)]
pub use self::__parse__S::SParser;

#[allow(unused_variables)]
#[allow(clippy::too_many_arguments, clippy::needless_lifetimes, clippy::just_underscores_and_digits, clippy::extra_unused_type_parameters)]
fn __action0<
    's,
    T,
>(
    name: &'s str,
    seed: &T,
    (_, __0, _): (Loc, Ast<'s, (usize, T)>, Loc),
) -> Ast<'s, (usize, T)>
where
    T: Clone,
    T: std::fmt::Debug,
{
    __0
}

#[allow(unused_variables)]
#[allow(clippy::too_many_arguments, clippy::needless_lifetimes, clippy::just_underscores_and_digits, clippy::extra_unused_type_parameters)]
fn __action1<
    's,
    T,
>(
    name: &'s str,
    seed: &T,
    (_, l, _): (Loc, Loc, Loc),
    (_, xs, _): (Loc, alloc::vec::Vec<usize>, Loc),
    (_, r, _): (Loc, Loc, Loc),
) -> Ast<'s, (usize, T)>
where
    T: Clone,
    T: std::fmt::Debug,
{
    { let _ = (&l, &r); Ast { name, items: xs.into_iter().map(|x| (x, seed.clone())).collect() } }
}

#[allow(unused_variables)]
#[allow(clippy::too_many_arguments, clippy::needless_lifetimes, clippy::just_underscores_and_digits, clippy::extra_unused_type_parameters)]
fn __action2<
    's,
    T,
>(
    name: &'s str,
    seed: &T,
    (_, x, _): (Loc, Tok, Loc),
    (_, _, _): (Loc, Tok, Loc),
) -> usize
where
    T: Clone,
    T: std::fmt::Debug,
{
    sz(&x)
}

#[allow(unused_variables)]
#[allow(clippy::too_many_arguments, clippy::needless_lifetimes, clippy::just_underscores_and_digits, clippy::extra_unused_type_parameters)]
fn __action3<
    's,
    T,
>(
    name: &'s str,
    seed: &T,
    (_, __0, _): (Loc, Tok, Loc),
    (_, _, _): (Loc, Tok, Loc),
) -> Tok
where
    T: Clone,
    T: std::fmt::Debug,
{
    __0
}

#[allow(unused_variables)]
#[allow(clippy::too_many_arguments, clippy::needless_lifetimes, clippy::just_underscores_and_digits, clippy::extra_unused_type_parameters)]
fn __action4<
    's,
    T,
>(
    name: &'s str,
    seed: &T,
    (_, __0, _): (Loc, Tok, Loc),
) -> Tok
where
    T: Clone,
    T: std::fmt::Debug,
{
    __0
}

#[allow(unused_variables)]
#[allow(clippy::too_many_arguments, clippy::needless_lifetimes, clippy::just_underscores_and_digits, clippy::extra_unused_type_parameters)]
fn __action5<
    's,
    T,
>(
    name: &'s str,
    seed: &T,
    (_, _, _): (Loc, Tok, Loc),
    (_, __0, _): (Loc, Tok, Loc),
) -> Tok
where
    T: Clone,
    T: std::fmt::Debug,
{
    __0
}

#[allow(unused_variables)]
#[allow(clippy::needless_lifetimes, clippy::clone_on_copy)]
fn __action6<
    's,
    T,
>(
    name: &'s str,
    seed: &T,
    __lookbehind: &Loc,
    __lookahead: &Loc,
) -> Loc
where
    T: Clone,
    T: std::fmt::Debug,
{
    __lookbehind.clone()
}

#[allow(unused_variables)]
#[allow(clippy::too_many_arguments, clippy::needless_lifetimes, clippy::just_underscores_and_digits, clippy::extra_unused_type_parameters)]
fn __action7<
    's,
    T,
>(
    name: &'s str,
    seed: &T,
    __lookbehind: &Loc,
    __lookahead: &Loc,
) -> alloc::vec::Vec<usize>
where
    T: Clone,
    T: std::fmt::Debug,
{
    alloc::vec![]
}

#[allow(unused_variables)]
#[allow(clippy::too_many_arguments, clippy::needless_lifetimes, clippy::just_underscores_and_digits, clippy::extra_unused_type_parameters)]
fn __action8<
    's,
    T,
>(
    name: &'s str,
    seed: &T,
    (_, v, _): (Loc, alloc::vec::Vec<usize>, Loc),
) -> alloc::vec::Vec<usize>
where
    T: Clone,
    T: std::fmt::Debug,
{
    v
}

#[allow(unused_variables)]
#[allow(clippy::needless_lifetimes, clippy::clone_on_copy)]
fn __action9<
    's,
    T,
>(
    name: &'s str,
    seed: &T,
    __lookbehind: &Loc,
    __lookahead: &Loc,
) -> Loc
where
    T: Clone,
    T: std::fmt::Debug,
{
    __lookahead.clone()
}

#[allow(unused_variables)]
#[allow(clippy::too_many_arguments, clippy::needless_lifetimes, clippy::just_underscores_and_digits, clippy::extra_unused_type_parameters)]
fn __action10<
    's,
    T,
>(
    name: &'s str,
    seed: &T,
    (_, __0, _): (Loc, usize, Loc),
) -> alloc::vec::Vec<usize>
where
    T: Clone,
    T: std::fmt::Debug,
{
    alloc::vec![__0]
}

#[allow(unused_variables)]
#[allow(clippy::too_many_arguments, clippy::needless_lifetimes, clippy::just_underscores_and_digits, clippy::extra_unused_type_parameters)]
fn __action11<
    's,
    T,
>(
    name: &'s str,
    seed: &T,
    (_, v, _): (Loc, alloc::vec::Vec<usize>, Loc),
    (_, e, _): (Loc, usize, Loc),
) -> alloc::vec::Vec<usize>
where
    T: Clone,
    T: std::fmt::Debug,
{
    { let mut v = v; v.push(e); v }
}

#[allow(unused_variables)]
#[allow(clippy::too_many_arguments, clippy::needless_lifetimes,
    clippy::just_underscores_and_digits, clippy::clone_on_copy, clippy::unit_arg)]
fn __action12<
    's,
    T,
>(
    name: &'s str,
    seed: &T,
    __0: (Loc, Tok, Loc),
    __1: (Loc, Tok, Loc),
) -> Tok
where
    T: Clone,
    T: std::fmt::Debug,
{
    let __start0 = __0.0.clone();
    let __end0 = __1.2.clone();
    let __temp0 = __action5::<
    T,
    >(
        name,
        seed,
        __0,
        __1,
    );
    let __temp0 = (__start0, __temp0, __end0);
    __action4::<
    T,
    >(
        name,
        seed,
        __temp0,
    )
}

#[allow(unused_variables)]
#[allow(clippy::too_many_arguments, clippy::needless_lifetimes,
    clippy::just_underscores_and_digits, clippy::clone_on_copy, clippy::unit_arg)]
fn __action13<
    's,
    T,
>(
    name: &'s str,
    seed: &T,
    __0: (Loc, alloc::vec::Vec<usize>, Loc),
    __1: (Loc, Loc, Loc),
) -> Ast<'s, (usize, T)>
where
    T: Clone,
    T: std::fmt::Debug,
{
    let __start0 = __0.0.clone();
    let __end0 = __0.0.clone();
    let __temp0 = __action9::<
    T,
    >(
        name,
        seed,
        &__start0,
        &__end0,
    );
    let __temp0 = (__start0, __temp0, __end0);
    __action1::<
    T,
    >(
        name,
        seed,
        __temp0,
        __0,
        __1,
    )
}

#[allow(unused_variables)]
#[allow(clippy::too_many_arguments, clippy::needless_lifetimes,
    clippy::just_underscores_and_digits, clippy::clone_on_copy, clippy::unit_arg)]
fn __action14<
    's,
    T,
>(
    name: &'s str,
    seed: &T,
    __0: (Loc, alloc::vec::Vec<usize>, Loc),
) -> Ast<'s, (usize, T)>
where
    T: Clone,
    T: std::fmt::Debug,
{
    let __start0 = __0.2.clone();
    let __end0 = __0.2.clone();
    let __temp0 = __action6::<
    T,
    >(
        name,
        seed,
        &__start0,
        &__end0,
    );
    let __temp0 = (__start0, __temp0, __end0);
    __action13::<
    T,
    >(
        name,
        seed,
        __0,
        __temp0,
    )
}

#[allow(unused_variables)]
#[allow(clippy::too_many_arguments, clippy::needless_lifetimes,
    clippy::just_underscores_and_digits, clippy::clone_on_copy, clippy::unit_arg)]
fn __action15<
    's,
    T,
>(
    name: &'s str,
    seed: &T,
    __lookbehind: &Loc,
    __lookahead: &Loc,
) -> Ast<'s, (usize, T)>
where
    T: Clone,
    T: std::fmt::Debug,
{
    let __start0 = __lookbehind.clone();
    let __end0 = __lookahead.clone();
    let __temp0 = __action7::<
    T,
    >(
        name,
        seed,
        &__start0,
        &__end0,
    );
    let __temp0 = (__start0, __temp0, __end0);
    __action14::<
    T,
    >(
        name,
        seed,
        __temp0,
    )
}

#[allow(unused_variables)]
#[allow(clippy::too_many_arguments, clippy::needless_lifetimes,
    clippy::just_underscores_and_digits, clippy::clone_on_copy, clippy::unit_arg)]
fn __action16<
    's,
    T,
>(
    name: &'s str,
    seed: &T,
    __0: (Loc, alloc::vec::Vec<usize>, Loc),
) -> Ast<'s, (usize, T)>
where
    T: Clone,
    T: std::fmt::Debug,
{
    let __start0 = __0.0.clone();
    let __end0 = __0.2.clone();
    let __temp0 = __action8::<
    T,
    >(
        name,
        seed,
        __0,
    );
    let __temp0 = (__start0, __temp0, __end0);
    __action14::<
    T,
    >(
        name,
        seed,
        __temp0,
    )
}

#[allow(clippy::type_complexity, dead_code)]
pub trait __ToTriple<'s, T, >
where T: Clone,T: std::fmt::Debug
{
    fn to_triple(self) -> Result<(Loc,Tok,Loc), __lalrpop_util::ParseError<Loc, Tok, String>>;
}

impl<'s, T, > __ToTriple<'s, T, > for (Loc, Tok, Loc)
where T: Clone,T: std::fmt::Debug
{
    fn to_triple(self) -> Result<(Loc,Tok,Loc), __lalrpop_util::ParseError<Loc, Tok, String>> {
        Ok(self)
    }
}
impl<'s, T, > __ToTriple<'s, T, > for Result<(Loc, Tok, Loc), String>
where T: Clone,T: std::fmt::Debug
{
    fn to_triple(self) -> Result<(Loc,Tok,Loc), __lalrpop_util::ParseError<Loc, Tok, String>> {
        self.map_err(|error| __lalrpop_util::ParseError::User { error })
    }
}
