// auto-generated: "lalrpop 0.23.1"
// sha3: d545b6ad8f8d0ff053f39c6aac7d797cd21de07d73eadd080b26e802714f37c4
use crate::support::*;
#[allow(unused_extern_crates)]
extern crate lalrpop_util as __lalrpop_util;
#[allow(unused_imports)]
use self::__lalrpop_util::state_machine as __state_machine;
#[allow(unused_extern_crates)]
extern crate alloc;

#[rustfmt::skip]
#[allow(explicit_outlives_requirements, non_snake_case, non_camel_case_types, unused_mut, unused_variables, unused_imports, unused_parens, clippy::needless_lifetimes, clippy::type_complexity, clippy::needless_return, clippy::too_many_arguments, clippy::match_single_binding, clippy::clone_on_copy, clippy::unit_arg)]
mod __parse__One {

    use crate::support::*;
    #[allow(unused_extern_crates)]
    extern crate lalrpop_util as __lalrpop_util;
    #[allow(unused_imports)]
    use self::__lalrpop_util::state_machine as __state_machine;
    #[allow(unused_extern_crates)]
    extern crate alloc;
    use super::__ToTriple;
    pub struct OneParser {
        _priv: (),
    }

    impl Default for OneParser { fn default() -> Self { Self::new() } }
    impl OneParser {
        pub fn new() -> OneParser {
            OneParser {
                _priv: (),
            }
        }

        #[allow(dead_code)]
        pub fn parse<
            T,
            F,
            __TOKEN: __ToTriple<T, F, >,
            __TOKENS: IntoIterator<Item=__TOKEN>,
        >(
            &self,
            make: &F,
            __tokens0: __TOKENS,
        ) -> Result<Option<T>, __lalrpop_util::ParseError<Loc, Tok, String>>
        where
            F: Fn(usize) -> T,
            T: Clone,
            T: std::fmt::Debug,
        {
            let __tokens = __tokens0.into_iter();
            let mut __tokens = __tokens.map(|t| __ToTriple::to_triple(t));
            let __lookahead = match __tokens.next() {
                Some(Ok(v)) => Some(v),
                Some(Err(e)) => return Err(e),
                None => None,
            };
            match __state0(make, &mut __tokens, __lookahead, core::marker::PhantomData::<(T, F)>)? {
                (Some(__lookahead), _) => {
                    Err(__lalrpop_util::ParseError::ExtraToken { token: __lookahead })
                }
                (None, __Nonterminal::____One((_, __nt, _))) => {
                    Ok(__nt)
                }
                _ => unreachable!(),
            }
        }
    }

    #[allow(dead_code)]
    enum __Nonterminal<T>
     where T: Clone, T: std::fmt::Debug
     {
        _28_22c_22_20_3cN2_3e_29((Loc, usize, Loc)),
        _28_22c_22_20_3cN2_3e_29_2a((Loc, alloc::vec::Vec<usize>, Loc)),
        _28_22c_22_20_3cN2_3e_29_2b((Loc, alloc::vec::Vec<usize>, Loc)),
        _40L((Loc, Loc, Loc)),
        _40R((Loc, Loc, Loc)),
        Item((Loc, usize, Loc)),
        Item_2a((Loc, alloc::vec::Vec<usize>, Loc)),
        Item_2b((Loc, alloc::vec::Vec<usize>, Loc)),
        Item_3f((Loc, Option<usize>, Loc)),
        N0((Loc, Tok, Loc)),
        N1((Loc, (usize, Vec<usize>), Loc)),
        N2((Loc, usize, Loc)),
        N3((Loc, usize, Loc)),
        N4((Loc, Tok, Loc)),
        N5((Loc, Tok, Loc)),
        One((Loc, Option<T>, Loc)),
        S((Loc, Vec<T>, Loc)),
        ____One((Loc, Option<T>, Loc)),
        ____S((Loc, Vec<T>, Loc)),
    }

    fn __state0<
        T,
        F,
        __TOKENS: Iterator<Item=Result<(Loc, Tok, Loc),__lalrpop_util::ParseError<Loc, Tok, String>>>,
    >(
        make: &F,
        __tokens: &mut __TOKENS,
        __lookahead: Option<(Loc, Tok, Loc)>,
        _: core::marker::PhantomData<(T, F)>,
    ) -> Result<(Option<(Loc, Tok, Loc)>, __Nonterminal<T>), __lalrpop_util::ParseError<Loc, Tok, String>>
    where
        F: Fn(usize) -> T,
        T: Clone,
        T: std::fmt::Debug,
    {
        let mut __result: (Option<(Loc, Tok, Loc)>, __Nonterminal<T>);
        match __lookahead {
            Some((__loc1, __tok @ Tok::A, __loc2)) => {
                let __sym0 = (__loc1, (__tok), __loc2);
                __result = __state5(make, __tokens, __sym0, core::marker::PhantomData::<(T, F)>)?;
            }
            None => {
                let __start: Loc = __lookahead.as_ref().map(|o| o.0.clone()).unwrap_or_default();
                let __end = __start.clone();
                let __nt = super::__action34::<T, F>(make, &__start, &__end);
                let __nt = __Nonterminal::One((
                    __start,
                    __nt,
                    __end,
                ));
                __result = (__lookahead, __nt);
            }
            _ => {
                #[allow(clippy::needless_raw_string_hashes)]
                let __expected = alloc::vec![
                    r###""a""###.to_string(),
                ];
                return Err(
                    match __lookahead {
                        Some(__token) => {
                            __lalrpop_util::ParseError::UnrecognizedToken {
                                token: __token,
                                expected: __expected,
                            }
                        }
                        None => {
                            let __location = Default::default();
                            __lalrpop_util::ParseError::UnrecognizedEof {
                                location: __location,
                                expected: __expected,
                            }
                        }
                    }
                )
            }
        }
        #[allow(clippy::never_loop)]
        loop {
            let (__lookahead, __nt) = __result;
            match __nt {
                __Nonterminal::Item(__sym0) => {
                    __result = __state1(make, __tokens, __lookahead, __sym0, core::marker::PhantomData::<(T, F)>)?;
                }
                __Nonterminal::N0(__sym0) => {
                    __result = __state2(make, __tokens, __lookahead, __sym0, core::marker::PhantomData::<(T, F)>)?;
                }
                __Nonterminal::N5(__sym0) => {
                    __result = __state3(make, __tokens, __lookahead, __sym0, core::marker::PhantomData::<(T, F)>)?;
                }
                __Nonterminal::One(__sym0) => {
                    __result = __state4(make, __tokens, __lookahead, __sym0, core::marker::PhantomData::<(T, F)>)?;
                }
                _ => {
                    return Ok((__lookahead, __nt));
                }
            }
        }
    }

    fn __state1<
        T,
        F,
        __TOKENS: Iterator<Item=Result<(Loc, Tok, Loc),__lalrpop_util::ParseError<Loc, Tok, String>>>,
    >(
        make: &F,
        __tokens: &mut __TOKENS,
        __lookahead: Option<(Loc, Tok, Loc)>,
        __sym0: (Loc, usize, Loc),
        _: core::marker::PhantomData<(T, F)>,
    ) -> Result<(Option<(Loc, Tok, Loc)>, __Nonterminal<T>), __lalrpop_util::ParseError<Loc, Tok, String>>
    where
        F: Fn(usize) -> T,
        T: Clone,
        T: std::fmt::Debug,
    {
        let mut __result: (Option<(Loc, Tok, Loc)>, __Nonterminal<T>);
        match __lookahead {
            None => {
                let __start = __sym0.0.clone();
                let __end = __sym0.2.clone();
                let __nt = super::__action33::<T, F>(make, __sym0);
                let __nt = __Nonterminal::One((
                    __start,
                    __nt,
                    __end,
                ));
                __result = (__lookahead, __nt);
                return Ok(__result);
            }
            _ => {
                #[allow(clippy::needless_raw_string_hashes)]
                let __expected = alloc::vec![
                ];
                return Err(
                    match __lookahead {
                        Some(__token) => {
                            __lalrpop_util::ParseError::UnrecognizedToken {
                                token: __token,
                                expected: __expected,
                            }
                        }
                        None => {
                            let __location = __sym0.2.clone();
                            __lalrpop_util::ParseError::UnrecognizedEof {
                                location: __location,
                                expected: __expected,
                            }
                        }
                    }
                )
            }
        }
    }

    fn __state2<
        T,
        F,
        __TOKENS: Iterator<Item=Result<(Loc, Tok, Loc),__lalrpop_util::ParseError<Loc, Tok, String>>>,
    >(
        make: &F,
        __tokens: &mut __TOKENS,
        __lookahead: Option<(Loc, Tok, Loc)>,
        __sym0: (Loc, Tok, Loc),
        _: core::marker::PhantomData<(T, F)>,
    ) -> Result<(Option<(Loc, Tok, Loc)>, __Nonterminal<T>), __lalrpop_util::ParseError<Loc, Tok, String>>
    where
        F: Fn(usize) -> T,
        T: Clone,
        T: std::fmt::Debug,
    {
        let mut __result: (Option<(Loc, Tok, Loc)>, __Nonterminal<T>);
        match __lookahead {
            Some((__loc1, __tok @ Tok::Comma, __loc2)) => {
                let __sym1 = (__loc1, (__tok), __loc2);
                __result = __state6(make, __tokens, __sym0, __sym1, core::marker::PhantomData::<(T, F)>)?;
                return Ok(__result);
            }
            _ => {
                #[allow(clippy::needless_raw_string_hashes)]
                let __expected = alloc::vec![
                    r###"",""###.to_string(),
                ];
                return Err(
                    match __lookahead {
                        Some(__token) => {
                            __lalrpop_util::ParseError::UnrecognizedToken {
                                token: __token,
                                expected: __expected,
                            }
                        }
                        None => {
                            let __location = __sym0.2.clone();
                            __lalrpop_util::ParseError::UnrecognizedEof {
                                location: __location,
                                expected: __expected,
                            }
                        }
                    }
                )
            }
        }
    }

    fn __state3<
        T,
        F,
        __TOKENS: Iterator<Item=Result<(Loc, Tok, Loc),__lalrpop_util::ParseError<Loc, Tok, String>>>,
    >(
        make: &F,
        __tokens: &mut __TOKENS,
        __lookahead: Option<(Loc, Tok, Loc)>,
        __sym0: (Loc, Tok, Loc),
        _: core::marker::PhantomData<(T, F)>,
    ) -> Result<(Option<(Loc, Tok, Loc)>, __Nonterminal<T>), __lalrpop_util::ParseError<Loc, Tok, String>>
    where
        F: Fn(usize) -> T,
        T: Clone,
        T: std::fmt::Debug,
    {
        let mut __result: (Option<(Loc, Tok, Loc)>, __Nonterminal<T>);
        match __lookahead {
            Some((__loc1, __tok @ Tok::C, __loc2)) => {
                let __sym1 = (__loc1, (__tok), __loc2);
                __result = __state7(make, __tokens, __sym0, __sym1, core::marker::PhantomData::<(T, F)>)?;
                return Ok(__result);
            }
            _ => {
                #[allow(clippy::needless_raw_string_hashes)]
                let __expected = alloc::vec![
                    r###""c""###.to_string(),
                ];
                return Err(
                    match __lookahead {
                        Some(__token) => {
                            __lalrpop_util::ParseError::UnrecognizedToken {
                                token: __token,
                                expected: __expected,
                            }
                        }
                        None => {
                            let __location = __sym0.2.clone();
                            __lalrpop_util::ParseError::UnrecognizedEof {
                                location: __location,
                                expected: __expected,
                            }
                        }
                    }
                )
            }
        }
    }

    fn __state4<
        T,
        F,
        __TOKENS: Iterator<Item=Result<(Loc, Tok, Loc),__lalrpop_util::ParseError<Loc, Tok, String>>>,
    >(
        make: &F,
        __tokens: &mut __TOKENS,
        __lookahead: Option<(Loc, Tok, Loc)>,
        __sym0: (Loc, Option<T>, Loc),
        _: core::marker::PhantomData<(T, F)>,
    ) -> Result<(Option<(Loc, Tok, Loc)>, __Nonterminal<T>), __lalrpop_util::ParseError<Loc, Tok, String>>
    where
        F: Fn(usize) -> T,
        T: Clone,
        T: std::fmt::Debug,
    {
        let mut __result: (Option<(Loc, Tok, Loc)>, __Nonterminal<T>);
        match __lookahead {
            None => {
                let __start = __sym0.0.clone();
                let __end = __sym0.2.clone();
                let __nt = super::__action1::<T, F>(make, __sym0);
                let __nt = __Nonterminal::____One((
                    __start,
                    __nt,
                    __end,
                ));
                __result = (__lookahead, __nt);
                return Ok(__result);
            }
            _ => {
                #[allow(clippy::needless_raw_string_hashes)]
                let __expected = alloc::vec![
                ];
                return Err(
                    match __lookahead {
                        Some(__token) => {
                            __lalrpop_util::ParseError::UnrecognizedToken {
                                token: __token,
                                expected: __expected,
                            }
                        }
                        None => {
                            let __location = __sym0.2.clone();
                            __lalrpop_util::ParseError::UnrecognizedEof {
                                location: __location,
                                expected: __expected,
                            }
                        }
                    }
                )
            }
        }
    }

    fn __state5<
        T,
        F,
        __TOKENS: Iterator<Item=Result<(Loc, Tok, Loc),__lalrpop_util::ParseError<Loc, Tok, String>>>,
    >(
        make: &F,
        __tokens: &mut __TOKENS,
        __sym0: (Loc, Tok, Loc),
        _: core::marker::PhantomData<(T, F)>,
    ) -> Result<(Option<(Loc, Tok, Loc)>, __Nonterminal<T>), __lalrpop_util::ParseError<Loc, Tok, String>>
    where
        F: Fn(usize) -> T,
        T: Clone,
        T: std::fmt::Debug,
    {
        let mut __result: (Option<(Loc, Tok, Loc)>, __Nonterminal<T>);
        let __lookahead = match __tokens.next() {
            Some(Ok(v)) => Some(v),
            Some(Err(e)) => return Err(e),
            None => None,
        };
        match __lookahead {
            Some((__loc1, __tok @ Tok::B, __loc2)) => {
                let __sym1 = (__loc1, (__tok), __loc2);
                __result = __state8(make, __tokens, __sym0, __sym1, core::marker::PhantomData::<(T, F)>)?;
                return Ok(__result);
            }
            _ => {
                #[allow(clippy::needless_raw_string_hashes)]
                let __expected = alloc::vec![
                    r###""b""###.to_string(),
                ];
                return Err(
                    match __lookahead {
                        Some(__token) => {
                            __lalrpop_util::ParseError::UnrecognizedToken {
                                token: __token,
                                expected: __expected,
                            }
                        }
                        None => {
                            let __location = __sym0.2.clone();
                            __lalrpop_util::ParseError::UnrecognizedEof {
                                location: __location,
                                expected: __expected,
                            }
                        }
                    }
                )
            }
        }
    }

    fn __state6<
        T,
        F,
        __TOKENS: Iterator<Item=Result<(Loc, Tok, Loc),__lalrpop_util::ParseError<Loc, Tok, String>>>,
    >(
        make: &F,
        __tokens: &mut __TOKENS,
        __sym0: (Loc, Tok, Loc),
        __sym1: (Loc, Tok, Loc),
        _: core::marker::PhantomData<(T, F)>,
    ) -> Result<(Option<(Loc, Tok, Loc)>, __Nonterminal<T>), __lalrpop_util::ParseError<Loc, Tok, String>>
    where
        F: Fn(usize) -> T,
        T: Clone,
        T: std::fmt::Debug,
    {
        let mut __result: (Option<(Loc, Tok, Loc)>, __Nonterminal<T>);
        let __lookahead = match __tokens.next() {
            Some(Ok(v)) => Some(v),
            Some(Err(e)) => return Err(e),
            None => None,
        };
        match __lookahead {
            None => {
                let __start = __sym0.0.clone();
                let __end = __sym1.2.clone();
                let __nt = super::__action4::<T, F>(make, __sym0, __sym1);
                let __nt = __Nonterminal::Item((
                    __start,
                    __nt,
                    __end,
                ));
                __result = (__lookahead, __nt);
                return Ok(__result);
            }
            _ => {
                #[allow(clippy::needless_raw_string_hashes)]
                let __expected = alloc::vec![
                ];
                return Err(
                    match __lookahead {
                        Some(__token) => {
                            __lalrpop_util::ParseError::UnrecognizedToken {
                                token: __token,
                                expected: __expected,
                            }
                        }
                        None => {
                            let __location = __sym1.2.clone();
                            __lalrpop_util::ParseError::UnrecognizedEof {
                                location: __location,
                                expected: __expected,
                            }
                        }
                    }
                )
            }
        }
    }

    fn __state7<
        T,
        F,
        __TOKENS: Iterator<Item=Result<(Loc, Tok, Loc),__lalrpop_util::ParseError<Loc, Tok, String>>>,
    >(
        make: &F,
        __tokens: &mut __TOKENS,
        __sym0: (Loc, Tok, Loc),
        __sym1: (Loc, Tok, Loc),
        _: core::marker::PhantomData<(T, F)>,
    ) -> Result<(Option<(Loc, Tok, Loc)>, __Nonterminal<T>), __lalrpop_util::ParseError<Loc, Tok, String>>
    where
        F: Fn(usize) -> T,
        T: Clone,
        T: std::fmt::Debug,
    {
        let mut __result: (Option<(Loc, Tok, Loc)>, __Nonterminal<T>);
        let __lookahead = match __tokens.next() {
            Some(Ok(v)) => Some(v),
            Some(Err(e)) => return Err(e),
            None => None,
        };
        match __lookahead {
            Some((_, Tok::Comma, _)) => {
                let __start = __sym0.0.clone();
                let __end = __sym1.2.clone();
                let __nt = super::__action5::<T, F>(make, __sym0, __sym1);
                let __nt = __Nonterminal::N0((
                    __start,
                    __nt,
                    __end,
                ));
                __result = (__lookahead, __nt);
                return Ok(__result);
            }
            _ => {
                #[allow(clippy::needless_raw_string_hashes)]
                let __expected = alloc::vec![
                    r###"",""###.to_string(),
                ];
                return Err(
                    match __lookahead {
                        Some(__token) => {
                            __lalrpop_util::ParseError::UnrecognizedToken {
                                token: __token,
                                expected: __expected,
                            }
                        }
                        None => {
                            let __location = __sym1.2.clone();
                            __lalrpop_util::ParseError::UnrecognizedEof {
                                location: __location,
                                expected: __expected,
                            }
                        }
                    }
                )
            }
        }
    }

    fn __state8<
        T,
        F,
        __TOKENS: Iterator<Item=Result<(Loc, Tok, Loc),__lalrpop_util::ParseError<Loc, Tok, String>>>,
    >(
        make: &F,
        __tokens: &mut __TOKENS,
        __sym0: (Loc, Tok, Loc),
        __sym1: (Loc, Tok, Loc),
        _: core::marker::PhantomData<(T, F)>,
    ) -> Result<(Option<(Loc, Tok, Loc)>, __Nonterminal<T>), __lalrpop_util::ParseError<Loc, Tok, String>>
    where
        F: Fn(usize) -> T,
        T: Clone,
        T: std::fmt::Debug,
    {
        let mut __result: (Option<(Loc, Tok, Loc)>, __Nonterminal<T>);
        let __lookahead = match __tokens.next() {
            Some(Ok(v)) => Some(v),
            Some(Err(e)) => return Err(e),
            None => None,
        };
        match __lookahead {
            Some((_, Tok::C, _)) => {
                let __start = __sym0.0.clone();
                let __end = __sym1.2.clone();
                let __nt = super::__action11::<T, F>(make, __sym0, __sym1);
                let __nt = __Nonterminal::N5((
                    __start,
                    __nt,
                    __end,
                ));
                __result = (__lookahead, __nt);
                return Ok(__result);
            }
            _ => {
                #[allow(clippy::needless_raw_string_hashes)]
                let __expected = alloc::vec![
                    r###""c""###.to_string(),
                ];
                return Err(
                    match __lookahead {
                        Some(__token) => {
                            __lalrpop_util::ParseError::UnrecognizedToken {
                                token: __token,
                                expected: __expected,
                            }
                        }
                        None => {
                            let __location = __sym1.2.clone();
                            __lalrpop_util::ParseError::UnrecognizedEof {
                                location: __location,
                                expected: __expected,
                            }
                        }
                    }
                )
            }
        }
    }
}
#[allow(unused_imports)]
pub use self::__parse__One::OneParser;

#[rustfmt::skip]
#[allow(explicit_outlives_requirements, non_snake_case, non_camel_case_types, unused_mut, unused_variables, unused_imports, unused_parens, clippy::needless_lifetimes, clippy::type_complexity, clippy::needless_return, clippy::too_many_arguments, clippy::match_single_binding, clippy::clone_on_copy, clippy::unit_arg)]
mod __parse__S {

    use crate::support::*;
    #[allow(unused_extern_crates)]
    extern crate lalrpop_util as __lalrpop_util;
    #[allow(unused_imports)]
    use self::__lalrpop_util::state_machine as __state_machine;
    #[allow(unused_extern_crates)]
    extern crate alloc;
    use super::__ToTriple;
    pub struct SParser {
        _priv: (),
    }

    impl Default for SParser { fn default() -> Self { Self::new() } }
    impl SParser {
        pub fn new() -> SParser {
            SParser {
                _priv: (),
            }
        }

        #[allow(dead_code)]
        pub fn parse<
            T,
            F,
            __TOKEN: __ToTriple<T, F, >,
            __TOKENS: IntoIterator<Item=__TOKEN>,
        >(
            &self,
            make: &F,
            __tokens0: __TOKENS,
        ) -> Result<Vec<T>, __lalrpop_util::ParseError<Loc, Tok, String>>
        where
            F: Fn(usize) -> T,
            T: Clone,
            T: std::fmt::Debug,
        {
            let __tokens = __tokens0.into_iter();
            let mut __tokens = __tokens.map(|t| __ToTriple::to_triple(t));
            let __lookahead = match __tokens.next() {
                Some(Ok(v)) => Some(v),
                Some(Err(e)) => return Err(e),
                None => None,
            };
            match __state0(make, &mut __tokens, __lookahead, core::marker::PhantomData::<(T, F)>)? {
                (Some(__lookahead), _) => {
                    Err(__lalrpop_util::ParseError::ExtraToken { token: __lookahead })
                }
                (None, __Nonterminal::____S((_, __nt, _))) => {
                    Ok(__nt)
                }
                _ => unreachable!(),
            }
        }
    }

    #[allow(dead_code)]
    enum __Nonterminal<T>
     where T: Clone, T: std::fmt::Debug
     {
        _28_22c_22_20_3cN2_3e_29((Loc, usize, Loc)),
        _28_22c_22_20_3cN2_3e_29_2a((Loc, alloc::vec::Vec<usize>, Loc)),
        _28_22c_22_20_3cN2_3e_29_2b((Loc, alloc::vec::Vec<usize>, Loc)),
        _40L((Loc, Loc, Loc)),
        _40R((Loc, Loc, Loc)),
        Item((Loc, usize, Loc)),
        Item_2a((Loc, alloc::vec::Vec<usize>, Loc)),
        Item_2b((Loc, alloc::vec::Vec<usize>, Loc)),
        Item_3f((Loc, Option<usize>, Loc)),
        N0((Loc, Tok, Loc)),
        N1((Loc, (usize, Vec<usize>), Loc)),
        N2((Loc, usize, Loc)),
        N3((Loc, usize, Loc)),
        N4((Loc, Tok, Loc)),
        N5((Loc, Tok, Loc)),
        One((Loc, Option<T>, Loc)),
        S((Loc, Vec<T>, Loc)),
        ____One((Loc, Option<T>, Loc)),
        ____S((Loc, Vec<T>, Loc)),
    }

    fn __state0<
        T,
        F,
        __TOKENS: Iterator<Item=Result<(Loc, Tok, Loc),__lalrpop_util::ParseError<Loc, Tok, String>>>,
    >(
        make: &F,
        __tokens: &mut __TOKENS,
        __lookahead: Option<(Loc, Tok, Loc)>,
        _: core::marker::PhantomData<(T, F)>,
    ) -> Result<(Option<(Loc, Tok, Loc)>, __Nonterminal<T>), __lalrpop_util::ParseError<Loc, Tok, String>>
    where
        F: Fn(usize) -> T,
        T: Clone,
        T: std::fmt::Debug,
    {
        let mut __result: (Option<(Loc, Tok, Loc)>, __Nonterminal<T>);
        match __lookahead {
            Some((__loc1, __tok @ Tok::A, __loc2)) => {
                let __sym0 = (__loc1, (__tok), __loc2);
                __result = __state6(make, __tokens, __sym0, core::marker::PhantomData::<(T, F)>)?;
            }
            None => {
                let __start: Loc = __lookahead.as_ref().map(|o| o.0.clone()).unwrap_or_default();
                let __end = __start.clone();
                let __nt = super::__action31::<T, F>(make, &__start, &__end);
                let __nt = __Nonterminal::S((
                    __start,
                    __nt,
                    __end,
                ));
                __result = (__lookahead, __nt);
            }
            _ => {
                #[allow(clippy::needless_raw_string_hashes)]
                let __expected = alloc::vec![
                    r###""a""###.to_string(),
                ];
                return Err(
                    match __lookahead {
                        Some(__token) => {
                            __lalrpop_util::ParseError::UnrecognizedToken {
                                token: __token,
                                expected: __expected,
                            }
                        }
                        None => {
                            let __location = Default::default();
                            __lalrpop_util::ParseError::UnrecognizedEof {
                                location: __location,
                                expected: __expected,
                            }
                        }
                    }
                )
            }
        }
        #[allow(clippy::never_loop)]
        loop {
            let (__lookahead, __nt) = __result;
            match __nt {
                __Nonterminal::Item(__sym0) => {
                    __result = __state2(make, __tokens, __lookahead, __sym0, core::marker::PhantomData::<(T, F)>)?;
                }
                __Nonterminal::Item_2b(__sym0) => {
                    __result = __state1(make, __tokens, __lookahead, __sym0, core::marker::PhantomData::<(T, F)>)?;
                }
                __Nonterminal::N0(__sym0) => {
                    __result = __state3(make, __tokens, __lookahead, __sym0, core::marker::PhantomData::<(T, F)>)?;
                }
                __Nonterminal::N5(__sym0) => {
                    __result = __state4(make, __tokens, __lookahead, __sym0, core::marker::PhantomData::<(T, F)>)?;
                }
                __Nonterminal::S(__sym0) => {
                    __result = __state5(make, __tokens, __lookahead, __sym0, core::marker::PhantomData::<(T, F)>)?;
                }
                _ => {
                    return Ok((__lookahead, __nt));
                }
            }
        }
    }

    fn __state1<
        T,
        F,
        __TOKENS: Iterator<Item=Result<(Loc, Tok, Loc),__lalrpop_util::ParseError<Loc, Tok, String>>>,
    >(
        make: &F,
        __tokens: &mut __TOKENS,
        __lookahead: Option<(Loc, Tok, Loc)>,
        __sym0: (Loc, alloc::vec::Vec<usize>, Loc),
        _: core::marker::PhantomData<(T, F)>,
    ) -> Result<(Option<(Loc, Tok, Loc)>, __Nonterminal<T>), __lalrpop_util::ParseError<Loc, Tok, String>>
    where
        F: Fn(usize) -> T,
        T: Clone,
        T: std::fmt::Debug,
    {
        let mut __result: (Option<(Loc, Tok, Loc)>, __Nonterminal<T>);
        match __lookahead {
            Some((__loc1, __tok @ Tok::A, __loc2)) => {
                let __sym1 = (__loc1, (__tok), __loc2);
                __result = __state6(make, __tokens, __sym1, core::marker::PhantomData::<(T, F)>)?;
            }
            None => {
                let __start = __sym0.0.clone();
                let __end = __sym0.2.clone();
                let __nt = super::__action32::<T, F>(make, __sym0);
                let __nt = __Nonterminal::S((
                    __start,
                    __nt,
                    __end,
                ));
                __result = (__lookahead, __nt);
                return Ok(__result);
            }
            _ => {
                #[allow(clippy::needless_raw_string_hashes)]
                let __expected = alloc::vec![
                    r###""a""###.to_string(),
                ];
                return Err(
                    match __lookahead {
                        Some(__token) => {
                            __lalrpop_util::ParseError::UnrecognizedToken {
                                token: __token,
                                expected: __expected,
                            }
                        }
                        None => {
                            let __location = __sym0.2.clone();
                            __lalrpop_util::ParseError::UnrecognizedEof {
                                location: __location,
                                expected: __expected,
                            }
                        }
                    }
                )
            }
        }
        #[allow(clippy::never_loop)]
        loop {
            let (__lookahead, __nt) = __result;
            match __nt {
                __Nonterminal::Item(__sym1) => {
                    __result = __state7(make, __tokens, __lookahead, __sym0, __sym1, core::marker::PhantomData::<(T, F)>)?;
                    return Ok(__result);
                }
                __Nonterminal::N0(__sym1) => {
                    __result = __state3(make, __tokens, __lookahead, __sym1, core::marker::PhantomData::<(T, F)>)?;
                }
                __Nonterminal::N5(__sym1) => {
                    __result = __state4(make, __tokens, __lookahead, __sym1, core::marker::PhantomData::<(T, F)>)?;
                }
                _ => {
                    return Ok((__lookahead, __nt));
                }
            }
        }
    }

    fn __state2<
        T,
        F,
        __TOKENS: Iterator<Item=Result<(Loc, Tok, Loc),__lalrpop_util::ParseError<Loc, Tok, String>>>,
    >(
        make: &F,
        __tokens: &mut __TOKENS,
        __lookahead: Option<(Loc, Tok, Loc)>,
        __sym0: (Loc, usize, Loc),
        _: core::marker::PhantomData<(T, F)>,
    ) -> Result<(Option<(Loc, Tok, Loc)>, __Nonterminal<T>), __lalrpop_util::ParseError<Loc, Tok, String>>
    where
        F: Fn(usize) -> T,
        T: Clone,
        T: std::fmt::Debug,
    {
        let mut __result: (Option<(Loc, Tok, Loc)>, __Nonterminal<T>);
        match __lookahead {
            Some((_, Tok::A, _)) |
            None => {
                let __start = __sym0.0.clone();
                let __end = __sym0.2.clone();
                let __nt = super::__action21::<T, F>(make, __sym0);
                let __nt = __Nonterminal::Item_2b((
                    __start,
                    __nt,
                    __end,
                ));
                __result = (__lookahead, __nt);
                return Ok(__result);
            }
            _ => {
                #[allow(clippy::needless_raw_string_hashes)]
                let __expected = alloc::vec![
                    r###""a""###.to_string(),
                ];
                return Err(
                    match __lookahead {
                        Some(__token) => {
                            __lalrpop_util::ParseError::UnrecognizedToken {
                                token: __token,
                                expected: __expected,
                            }
                        }
                        None => {
                            let __location = __sym0.2.clone();
                            __lalrpop_util::ParseError::UnrecognizedEof {
                                location: __location,
                                expected: __expected,
                            }
                        }
                    }
                )
            }
        }
    }

    fn __state3<
        T,
        F,
        __TOKENS: Iterator<Item=Result<(Loc, Tok, Loc),__lalrpop_util::ParseError<Loc, Tok, String>>>,
    >(
        make: &F,
        __tokens: &mut __TOKENS,
        __lookahead: Option<(Loc, Tok, Loc)>,
        __sym0: (Loc, Tok, Loc),
        _: core::marker::PhantomData<(T, F)>,
    ) -> Result<(Option<(Loc, Tok, Loc)>, __Nonterminal<T>), __lalrpop_util::ParseError<Loc, Tok, String>>
    where
        F: Fn(usize) -> T,
        T: Clone,
        T: std::fmt::Debug,
    {
        let mut __result: (Option<(Loc, Tok, Loc)>, __Nonterminal<T>);
        match __lookahead {
            Some((__loc1, __tok @ Tok::Comma, __loc2)) => {
                let __sym1 = (__loc1, (__tok), __loc2);
                __result = __state8(make, __tokens, __sym0, __sym1, core::marker::PhantomData::<(T, F)>)?;
                return Ok(__result);
            }
            _ => {
                #[allow(clippy::needless_raw_string_hashes)]
                let __expected = alloc::vec![
                    r###"",""###.to_string(),
                ];
                return Err(
                    match __lookahead {
                        Some(__token) => {
                            __lalrpop_util::ParseError::UnrecognizedToken {
                                token: __token,
                                expected: __expected,
                            }
                        }
                        None => {
                            let __location = __sym0.2.clone();
                            __lalrpop_util::ParseError::UnrecognizedEof {
                                location: __location,
                                expected: __expected,
                            }
                        }
                    }
                )
            }
        }
    }

    fn __state4<
        T,
        F,
        __TOKENS: Iterator<Item=Result<(Loc, Tok, Loc),__lalrpop_util::ParseError<Loc, Tok, String>>>,
    >(
        make: &F,
        __tokens: &mut __TOKENS,
        __lookahead: Option<(Loc, Tok, Loc)>,
        __sym0: (Loc, Tok, Loc),
        _: core::marker::PhantomData<(T, F)>,
    ) -> Result<(Option<(Loc, Tok, Loc)>, __Nonterminal<T>), __lalrpop_util::ParseError<Loc, Tok, String>>
    where
        F: Fn(usize) -> T,
        T: Clone,
        T: std::fmt::Debug,
    {
        let mut __result: (Option<(Loc, Tok, Loc)>, __Nonterminal<T>);
        match __lookahead {
            Some((__loc1, __tok @ Tok::C, __loc2)) => {
                let __sym1 = (__loc1, (__tok), __loc2);
                __result = __state9(make, __tokens, __sym0, __sym1, core::marker::PhantomData::<(T, F)>)?;
                return Ok(__result);
            }
            _ => {
                #[allow(clippy::needless_raw_string_hashes)]
                let __expected = alloc::vec![
                    r###""c""###.to_string(),
                ];
                return Err(
                    match __lookahead {
                        Some(__token) => {
                            __lalrpop_util::ParseError::UnrecognizedToken {
                                token: __token,
                                expected: __expected,
                            }
                        }
                        None => {
                            let __location = __sym0.2.clone();
                            __lalrpop_util::ParseError::UnrecognizedEof {
                                location: __location,
                                expected: __expected,
                            }
                        }
                    }
                )
            }
        }
    }

    fn __state5<
        T,
        F,
        __TOKENS: Iterator<Item=Result<(Loc, Tok, Loc),__lalrpop_util::ParseError<Loc, Tok, String>>>,
    >(
        make: &F,
        __tokens: &mut __TOKENS,
        __lookahead: Option<(Loc, Tok, Loc)>,
        __sym0: (Loc, Vec<T>, Loc),
        _: core::marker::PhantomData<(T, F)>,
    ) -> Result<(Option<(Loc, Tok, Loc)>, __Nonterminal<T>), __lalrpop_util::ParseError<Loc, Tok, String>>
    where
        F: Fn(usize) -> T,
        T: Clone,
        T: std::fmt::Debug,
    {
        let mut __result: (Option<(Loc, Tok, Loc)>, __Nonterminal<T>);
        match __lookahead {
            None => {
                let __start = __sym0.0.clone();
                let __end = __sym0.2.clone();
                let __nt = super::__action0::<T, F>(make, __sym0);
                let __nt = __Nonterminal::____S((
                    __start,
                    __nt,
                    __end,
                ));
                __result = (__lookahead, __nt);
                return Ok(__result);
            }
            _ => {
                #[allow(clippy::needless_raw_string_hashes)]
                let __expected = alloc::vec![
                ];
                return Err(
                    match __lookahead {
                        Some(__token) => {
                            __lalrpop_util::ParseError::UnrecognizedToken {
                                token: __token,
                                expected: __expected,
                            }
                        }
                        None => {
                            let __location = __sym0.2.clone();
                            __lalrpop_util::ParseError::UnrecognizedEof {
                                location: __location,
                                expected: __expected,
                            }
                        }
                    }
                )
            }
        }
    }

    fn __state6<
        T,
        F,
        __TOKENS: Iterator<Item=Result<(Loc, Tok, Loc),__lalrpop_util::ParseError<Loc, Tok, String>>>,
    >(
        make: &F,
        __tokens: &mut __TOKENS,
        __sym0: (Loc, Tok, Loc),
        _: core::marker::PhantomData<(T, F)>,
    ) -> Result<(Option<(Loc, Tok, Loc)>, __Nonterminal<T>), __lalrpop_util::ParseError<Loc, Tok, String>>
    where
        F: Fn(usize) -> T,
        T: Clone,
        T: std::fmt::Debug,
    {
        let mut __result: (Option<(Loc, Tok, Loc)>, __Nonterminal<T>);
        let __lookahead = match __tokens.next() {
            Some(Ok(v)) => Some(v),
            Some(Err(e)) => return Err(e),
            None => None,
        };
        match __lookahead {
            Some((__loc1, __tok @ Tok::B, __loc2)) => {
                let __sym1 = (__loc1, (__tok), __loc2);
                __result = __state10(make, __tokens, __sym0, __sym1, core::marker::PhantomData::<(T, F)>)?;
                return Ok(__result);
            }
            _ => {
                #[allow(clippy::needless_raw_string_hashes)]
                let __expected = alloc::vec![
                    r###""b""###.to_string(),
                ];
                return Err(
                    match __lookahead {
                        Some(__token) => {
                            __lalrpop_util::ParseError::UnrecognizedToken {
                                token: __token,
                                expected: __expected,
                            }
                        }
                        None => {
                            let __location = __sym0.2.clone();
                            __lalrpop_util::ParseError::UnrecognizedEof {
                                location: __location,
                                expected: __expected,
                            }
                        }
                    }
                )
            }
        }
    }

    fn __state7<
        T,
        F,
        __TOKENS: Iterator<Item=Result<(Loc, Tok, Loc),__lalrpop_util::ParseError<Loc, Tok, String>>>,
    >(
        make: &F,
        __tokens: &mut __TOKENS,
        __lookahead: Option<(Loc, Tok, Loc)>,
        __sym0: (Loc, alloc::vec::Vec<usize>, Loc),
        __sym1: (Loc, usize, Loc),
        _: core::marker::PhantomData<(T, F)>,
    ) -> Result<(Option<(Loc, Tok, Loc)>, __Nonterminal<T>), __lalrpop_util::ParseError<Loc, Tok, String>>
    where
        F: Fn(usize) -> T,
        T: Clone,
        T: std::fmt::Debug,
    {
        let mut __result: (Option<(Loc, Tok, Loc)>, __Nonterminal<T>);
        match __lookahead {
            Some((_, Tok::A, _)) |
            None => {
                let __start = __sym0.0.clone();
                let __end = __sym1.2.clone();
                let __nt = super::__action22::<T, F>(make, __sym0, __sym1);
                let __nt = __Nonterminal::Item_2b((
                    __start,
                    __nt,
                    __end,
                ));
                __result = (__lookahead, __nt);
                return Ok(__result);
            }
            _ => {
                #[allow(clippy::needless_raw_string_hashes)]
                let __expected = alloc::vec![
                    r###""a""###.to_string(),
                ];
                return Err(
                    match __lookahead {
                        Some(__token) => {
                            __lalrpop_util::ParseError::UnrecognizedToken {
                                token: __token,
                                expected: __expected,
                            }
                        }
                        None => {
                            let __location = __sym1.2.clone();
                            __lalrpop_util::ParseError::UnrecognizedEof {
                                location: __location,
                                expected: __expected,
                            }
                        }
                    }
                )
            }
        }
    }

    fn __state8<
        T,
        F,
        __TOKENS: Iterator<Item=Result<(Loc, Tok, Loc),__lalrpop_util::ParseError<Loc, Tok, String>>>,
    >(
        make: &F,
        __tokens: &mut __TOKENS,
        __sym0: (Loc, Tok, Loc),
        __sym1: (Loc, Tok, Loc),
        _: core::marker::PhantomData<(T, F)>,
    ) -> Result<(Option<(Loc, Tok, Loc)>, __Nonterminal<T>), __lalrpop_util::ParseError<Loc, Tok, String>>
    where
        F: Fn(usize) -> T,
        T: Clone,
        T: std::fmt::Debug,
    {
        let mut __result: (Option<(Loc, Tok, Loc)>, __Nonterminal<T>);
        let __lookahead = match __tokens.next() {
            Some(Ok(v)) => Some(v),
            Some(Err(e)) => return Err(e),
            None => None,
        };
        match __lookahead {
            Some((_, Tok::A, _)) |
            None => {
                let __start = __sym0.0.clone();
                let __end = __sym1.2.clone();
                let __nt = super::__action4::<T, F>(make, __sym0, __sym1);
                let __nt = __Nonterminal::Item((
                    __start,
                    __nt,
                    __end,
                ));
                __result = (__lookahead, __nt);
                return Ok(__result);
            }
            _ => {
                #[allow(clippy::needless_raw_string_hashes)]
                let __expected = alloc::vec![
                    r###""a""###.to_string(),
                ];
                return Err(
                    match __lookahead {
                        Some(__token) => {
                            __lalrpop_util::ParseError::UnrecognizedToken {
                                token: __token,
                                expected: __expected,
                            }
                        }
                        None => {
                            let __location = __sym1.2.clone();
                            __lalrpop_util::ParseError::UnrecognizedEof {
                                location: __location,
                                expected: __expected,
                            }
                        }
                    }
                )
            }
        }
    }

    fn __state9<
        T,
        F,
        __TOKENS: Iterator<Item=Result<(Loc, Tok, Loc),__lalrpop_util::ParseError<Loc, Tok, String>>>,
    >(
        make: &F,
        __tokens: &mut __TOKENS,
        __sym0: (Loc, Tok, Loc),
        __sym1: (Loc, Tok, Loc),
        _: core::marker::PhantomData<(T, F)>,
    ) -> Result<(Option<(Loc, Tok, Loc)>, __Nonterminal<T>), __lalrpop_util::ParseError<Loc, Tok, String>>
    where
        F: Fn(usize) -> T,
        T: Clone,
        T: std::fmt::Debug,
    {
        let mut __result: (Option<(Loc, Tok, Loc)>, __Nonterminal<T>);
        let __lookahead = match __tokens.next() {
            Some(Ok(v)) => Some(v),
            Some(Err(e)) => return Err(e),
            None => None,
        };
        match __lookahead {
            Some((_, Tok::Comma, _)) => {
                let __start = __sym0.0.clone();
                let __end = __sym1.2.clone();
                let __nt = super::__action5::<T, F>(make, __sym0, __sym1);
                let __nt = __Nonterminal::N0((
                    __start,
                    __nt,
                    __end,
                ));
                __result = (__lookahead, __nt);
                return Ok(__result);
            }
            _ => {
                #[allow(clippy::needless_raw_string_hashes)]
                let __expected = alloc::vec![
                    r###"",""###.to_string(),
                ];
                return Err(
                    match __lookahead {
                        Some(__token) => {
                            __lalrpop_util::ParseError::UnrecognizedToken {
                                token: __token,
                                expected: __expected,
                            }
                        }
                        None => {
                            let __location = __sym1.2.clone();
                            __lalrpop_util::ParseError::UnrecognizedEof {
                                location: __location,
                                expected: __expected,
                            }
                        }
                    }
                )
            }
        }
    }

    fn __state10<
        T,
        F,
        __TOKENS: Iterator<Item=Result<(Loc, Tok, Loc),__lalrpop_util::ParseError<Loc, Tok, String>>>,
    >(
        make: &F,
        __tokens: &mut __TOKENS,
        __sym0: (Loc, Tok, Loc),
        __sym1: (Loc, Tok, Loc),
        _: core::marker::PhantomData<(T, F)>,
    ) -> Result<(Option<(Loc, Tok, Loc)>, __Nonterminal<T>), __lalrpop_util::ParseError<Loc, Tok, String>>
    where
        F: Fn(usize) -> T,
        T: Clone,
        T: std::fmt::Debug,
    {
        let mut __result: (Option<(Loc, Tok, Loc)>, __Nonterminal<T>);
        let __lookahead = match __tokens.next() {
            Some(Ok(v)) => Some(v),
            Some(Err(e)) => return Err(e),
            None => None,
        };
        match __lookahead {
            Some((_, Tok::C, _)) => {
                let __start = __sym0.0.clone();
                let __end = __sym1.2.clone();
                let __nt = super::__action11::<T, F>(make, __sym0, __sym1);
                let __nt = __Nonterminal::N5((
                    __start,
                    __nt,
                    __end,
                ));
                __result = (__lookahead, __nt);
                return Ok(__result);
            }
            _ => {
                #[allow(clippy::needless_raw_string_hashes)]
                let __expected = alloc::vec![
                    r###""c""###.to_string(),
                ];
                return Err(
                    match __lookahead {
                        Some(__token) => {
                            __lalrpop_util::ParseError::UnrecognizedToken {
                                token: __token,
                                expected: __expected,
                            }
                        }
                        None => {
                            let __location = __sym1.2.clone();
                            __lalrpop_util::ParseError::UnrecognizedEof {
                                location: __location,
                                expected: __expected,
                            }
                        }
                    }
                )
            }
        }
    }
}
#[allow(unused_imports)]
pub use self::__parse__S::SParser;

#[allow(unused_variables)]
#[allow(clippy::too_many_arguments, clippy::needless_lifetimes, clippy::just_underscores_and_digits, clippy::extra_unused_type_parameters)]
fn __action0<
    T,
    F,
>(
    make: &F,
    (_, __0, _): (Loc, Vec<T>, Loc),
) -> Vec<T>
where
    F: Fn(usize) -> T,
    T: Clone,
    T: std::fmt::Debug,
{
    __0
}

#[allow(unused_variables)]
#[allow(clippy::too_many_arguments, clippy::needless_lifetimes, clippy::just_underscores_and_digits, clippy::extra_unused_type_parameters)]
fn __action1<
    T,
    F,
>(
    make: &F,
    (_, __0, _): (Loc, Option<T>, Loc),
) -> Option<T>
where
    F: Fn(usize) -> T,
    T: Clone,
    T: std::fmt::Debug,
{
    __0
}

#[allow(unused_variables)]
#[allow(clippy::too_many_arguments, clippy::needless_lifetimes, clippy::just_underscores_and_digits, clippy::extra_unused_type_parameters)]
fn __action2<
    T,
    F,
>(
    make: &F,
    (_, l, _): (Loc, Loc, Loc),
    (_, xs, _): (Loc, alloc::vec::Vec<usize>, Loc),
    (_, r, _): (Loc, Loc, Loc),
) -> Vec<T>
where
    F: Fn(usize) -> T,
    T: Clone,
    T: std::fmt::Debug,
{
    { let _ = (&l, &r); xs.into_iter().map(|x| make(x)).collect() }
}

#[allow(unused_variables)]
#[allow(clippy::too_many_arguments, clippy::needless_lifetimes, clippy::just_underscores_and_digits, clippy::extra_unused_type_parameters)]
fn __action3<
    T,
    F,
>(
    make: &F,
    (_, x, _): (Loc, Option<usize>, Loc),
) -> Option<T>
where
    F: Fn(usize) -> T,
    T: Clone,
    T: std::fmt::Debug,
{
    x.map(|v| make(v))
}

#[allow(unused_variables)]
#[allow(clippy::too_many_arguments, clippy::needless_lifetimes, clippy::just_underscores_and_digits, clippy::extra_unused_type_parameters)]
fn __action4<
    T,
    F,
>(
    make: &F,
    (_, x, _): (Loc, Tok, Loc),
    (_, _, _): (Loc, Tok, Loc),
) -> usize
where
    F: Fn(usize) -> T,
    T: Clone,
    T: std::fmt::Debug,
{
    sz(&x)
}

#[allow(unused_variables)]
#[allow(clippy::too_many_arguments, clippy::needless_lifetimes, clippy::just_underscores_and_digits, clippy::extra_unused_type_parameters)]
fn __action5<
    T,
    F,
>(
    make: &F,
    (_, __0, _): (Loc, Tok, Loc),
    (_, _, _): (Loc, Tok, Loc),
) -> Tok
where
    F: Fn(usize) -> T,
    T: Clone,
    T: std::fmt::Debug,
{
    __0
}

#[allow(unused_variables)]
#[allow(clippy::too_many_arguments, clippy::needless_lifetimes, clippy::just_underscores_and_digits, clippy::extra_unused_type_parameters)]
fn __action6<
    T,
    F,
>(
    make: &F,
    (_, v, _): (Loc, alloc::vec::Vec<usize>, Loc),
) -> (usize, Vec<usize>)
where
    F: Fn(usize) -> T,
    T: Clone,
    T: std::fmt::Debug,
{
    (v.len(), v.iter().map(sz).collect())
}

#[allow(unused_variables)]
#[allow(clippy::too_many_arguments, clippy::needless_lifetimes, clippy::just_underscores_and_digits, clippy::extra_unused_type_parameters)]
fn __action7<
    T,
    F,
>(
    make: &F,
    (_, __0, _): (Loc, usize, Loc),
    (_, _, _): (Loc, Tok, Loc),
) -> usize
where
    F: Fn(usize) -> T,
    T: Clone,
    T: std::fmt::Debug,
{
    __0
}

#[allow(unused_variables)]
#[allow(clippy::too_many_arguments, clippy::needless_lifetimes, clippy::just_underscores_and_digits, clippy::extra_unused_type_parameters)]
fn __action8<
    T,
    F,
>(
    make: &F,
    (_, x, _): (Loc, Tok, Loc),
    (_, _, _): (Loc, Tok, Loc),
    (_, y, _): (Loc, Tok, Loc),
) -> usize
where
    F: Fn(usize) -> T,
    T: Clone,
    T: std::fmt::Debug,
{
    sz(&x) + sz(&y)
}

#[allow(unused_variables)]
#[allow(clippy::too_many_arguments, clippy::needless_lifetimes, clippy::just_underscores_and_digits, clippy::extra_unused_type_parameters)]
fn __action9<
    T,
    F,
>(
    make: &F,
    (_, _, _): (Loc, Tok, Loc),
    (_, n, _): (Loc, usize, Loc),
    (_, _, _): (Loc, Tok, Loc),
) -> usize
where
    F: Fn(usize) -> T,
    T: Clone,
    T: std::fmt::Debug,
{
    n + 1
}

#[allow(unused_variables)]
#[allow(clippy::too_many_arguments, clippy::needless_lifetimes, clippy::just_underscores_and_digits, clippy::extra_unused_type_parameters)]
fn __action10<
    T,
    F,
>(
    make: &F,
    (_, __0, _): (Loc, Tok, Loc),
    (_, _, _): (Loc, Tok, Loc),
) -> Tok
where
    F: Fn(usize) -> T,
    T: Clone,
    T: std::fmt::Debug,
{
    __0
}

#[allow(unused_variables)]
#[allow(clippy::too_many_arguments, clippy::needless_lifetimes, clippy::just_underscores_and_digits, clippy::extra_unused_type_parameters)]
fn __action11<
    T,
    F,
>(
    make: &F,
    (_, __0, _): (Loc, Tok, Loc),
    (_, _, _): (Loc, Tok, Loc),
) -> Tok
where
    F: Fn(usize) -> T,
    T: Clone,
    T: std::fmt::Debug,
{
    __0
}

#[allow(unused_variables)]
#[allow(clippy::too_many_arguments, clippy::needless_lifetimes, clippy::just_underscores_and_digits, clippy::extra_unused_type_parameters)]
fn __action12<
    T,
    F,
>(
    make: &F,
    __lookbehind: &Loc,
    __lookahead: &Loc,
) -> alloc::vec::Vec<usize>
where
    F: Fn(usize) -> T,
    T: Clone,
    T: std::fmt::Debug,
{
    alloc::vec![]
}

#[allow(unused_variables)]
#[allow(clippy::too_many_arguments, clippy::needless_lifetimes, clippy::just_underscores_and_digits, clippy::extra_unused_type_parameters)]
fn __action13<
    T,
    F,
>(
    make: &F,
    (_, v, _): (Loc, alloc::vec::Vec<usize>, Loc),
) -> alloc::vec::Vec<usize>
where
    F: Fn(usize) -> T,
    T: Clone,
    T: std::fmt::Debug,
{
    v
}

#[allow(unused_variables)]
#[allow(clippy::too_many_arguments, clippy::needless_lifetimes, clippy::just_underscores_and_digits, clippy::extra_unused_type_parameters)]
fn __action14<
    T,
    F,
>(
    make: &F,
    (_, _, _): (Loc, Tok, Loc),
    (_, __0, _): (Loc, usize, Loc),
) -> usize
where
    F: Fn(usize) -> T,
    T: Clone,
    T: std::fmt::Debug,
{
    __0
}

#[allow(unused_variables)]
#[allow(clippy::too_many_arguments, clippy::needless_lifetimes, clippy::just_underscores_and_digits, clippy::extra_unused_type_parameters)]
fn __action15<
    T,
    F,
>(
    make: &F,
    (_, __0, _): (Loc, usize, Loc),
) -> Option<usize>
where
    F: Fn(usize) -> T,
    T: Clone,
    T: std::fmt::Debug,
{
    Some(__0)
}

#[allow(unused_variables)]
#[allow(clippy::too_many_arguments, clippy::needless_lifetimes, clippy::just_underscores_and_digits, clippy::extra_unused_type_parameters)]
fn __action16<
    T,
    F,
>(
    make: &F,
    __lookbehind: &Loc,
    __lookahead: &Loc,
) -> Option<usize>
where
    F: Fn(usize) -> T,
    T: Clone,
    T: std::fmt::Debug,
{
    None
}

#[allow(unused_variables)]
#[allow(clippy::needless_lifetimes, clippy::clone_on_copy)]
fn __action17<
    T,
    F,
>(
    make: &F,
    __lookbehind: &Loc,
    __lookahead: &Loc,
) -> Loc
where
    F: Fn(usize) -> T,
    T: Clone,
    T: std::fmt::Debug,
{
    __lookbehind.clone()
}

#[allow(unused_variables)]
#[allow(clippy::too_many_arguments, clippy::needless_lifetimes, clippy::just_underscores_and_digits, clippy::extra_unused_type_parameters)]
fn __action18<
    T,
    F,
>(
    make: &F,
    __lookbehind: &Loc,
    __lookahead: &Loc,
) -> alloc::vec::Vec<usize>
where
    F: Fn(usize) -> T,
    T: Clone,
    T: std::fmt::Debug,
{
    alloc::vec![]
}

#[allow(unused_variables)]
#[allow(clippy::too_many_arguments, clippy::needless_lifetimes, clippy::just_underscores_and_digits, clippy::extra_unused_type_parameters)]
fn __action19<
    T,
    F,
>(
    make: &F,
    (_, v, _): (Loc, alloc::vec::Vec<usize>, Loc),
) -> alloc::vec::Vec<usize>
where
    F: Fn(usize) -> T,
    T: Clone,
    T: std::fmt::Debug,
{
    v
}

#[allow(unused_variables)]
#[allow(clippy::needless_lifetimes, clippy::clone_on_copy)]
fn __action20<
    T,
    F,
>(
    make: &F,
    __lookbehind: &Loc,
    __lookahead: &Loc,
) -> Loc
where
    F: Fn(usize) -> T,
    T: Clone,
    T: std::fmt::Debug,
{
    __lookahead.clone()
}

#[allow(unused_variables)]
#[allow(clippy::too_many_arguments, clippy::needless_lifetimes, clippy::just_underscores_and_digits, clippy::extra_unused_type_parameters)]
fn __action21<
    T,
    F,
>(
    make: &F,
    (_, __0, _): (Loc, usize, Loc),
) -> alloc::vec::Vec<usize>
where
    F: Fn(usize) -> T,
    T: Clone,
    T: std::fmt::Debug,
{
    alloc::vec![__0]
}

#[allow(unused_variables)]
#[allow(clippy::too_many_arguments, clippy::needless_lifetimes, clippy::just_underscores_and_digits, clippy::extra_unused_type_parameters)]
fn __action22<
    T,
    F,
>(
    make: &F,
    (_, v, _): (Loc, alloc::vec::Vec<usize>, Loc),
    (_, e, _): (Loc, usize, Loc),
) -> alloc::vec::Vec<usize>
where
    F: Fn(usize) -> T,
    T: Clone,
    T: std::fmt::Debug,
{
    { let mut v = v; v.push(e); v }
}

#[allow(unused_variables)]
#[allow(clippy::too_many_arguments, clippy::needless_lifetimes, clippy::just_underscores_and_digits, clippy::extra_unused_type_parameters)]
fn __action23<
    T,
    F,
>(
    make: &F,
    (_, __0, _): (Loc, usize, Loc),
) -> alloc::vec::Vec<usize>
where
    F: Fn(usize) -> T,
    T: Clone,
    T: std::fmt::Debug,
{
    alloc::vec![__0]
}

#[allow(unused_variables)]
#[allow(clippy::too_many_arguments, clippy::needless_lifetimes, clippy::just_underscores_and_digits, clippy::extra_unused_type_parameters)]
fn __action24<
    T,
    F,
>(
    make: &F,
    (_, v, _): (Loc, alloc::vec::Vec<usize>, Loc),
    (_, e, _): (Loc, usize, Loc),
) -> alloc::vec::Vec<usize>
where
    F: Fn(usize) -> T,
    T: Clone,
    T: std::fmt::Debug,
{
    { let mut v = v; v.push(e); v }
}

#[allow(unused_variables)]
#[allow(clippy::too_many_arguments, clippy::needless_lifetimes,
    clippy::just_underscores_and_digits, clippy::clone_on_copy, clippy::unit_arg)]
fn __action25<
    T,
    F,
>(
    make: &F,
    __0: (Loc, Tok, Loc),
    __1: (Loc, usize, Loc),
) -> alloc::vec::Vec<usize>
where
    F: Fn(usize) -> T,
    T: Clone,
    T: std::fmt::Debug,
{
    let __start0 = __0.0.clone();
    let __end0 = __1.2.clone();
    let __temp0 = __action14::<
    T,
    F,
    >(
        make,
        __0,
        __1,
    );
    let __temp0 = (__start0, __temp0, __end0);
    __action23::<
    T,
    F,
    >(
        make,
        __temp0,
    )
}

#[allow(unused_variables)]
#[allow(clippy::too_many_arguments, clippy::needless_lifetimes,
    clippy::just_underscores_and_digits, clippy::clone_on_copy, clippy::unit_arg)]
fn __action26<
    T,
    F,
>(
    make: &F,
    __0: (Loc, alloc::vec::Vec<usize>, Loc),
    __1: (Loc, Tok, Loc),
    __2: (Loc, usize, Loc),
) -> alloc::vec::Vec<usize>
where
    F: Fn(usize) -> T,
    T: Clone,
    T: std::fmt::Debug,
{
    let __start0 = __1.0.clone();
    let __end0 = __2.2.clone();
    let __temp0 = __action14::<
    T,
    F,
    >(
        make,
        __1,
        __2,
    );
    let __temp0 = (__start0, __temp0, __end0);
    __action24::<
    T,
    F,
    >(
        make,
        __0,
        __temp0,
    )
}

#[allow(unused_variables)]
#[allow(clippy::too_many_arguments, clippy::needless_lifetimes,
    clippy::just_underscores_and_digits, clippy::clone_on_copy, clippy::unit_arg)]
fn __action27<
    T,
    F,
>(
    make: &F,
    __lookbehind: &Loc,
    __lookahead: &Loc,
) -> (usize, Vec<usize>)
where
    F: Fn(usize) -> T,
    T: Clone,
    T: std::fmt::Debug,
{
    let __start0 = __lookbehind.clone();
    let __end0 = __lookahead.clone();
    let __temp0 = __action12::<
    T,
    F,
    >(
        make,
        &__start0,
        &__end0,
    );
    let __temp0 = (__start0, __temp0, __end0);
    __action6::<
    T,
    F,
    >(
        make,
        __temp0,
    )
}

#[allow(unused_variables)]
#[allow(clippy::too_many_arguments, clippy::needless_lifetimes,
    clippy::just_underscores_and_digits, clippy::clone_on_copy, clippy::unit_arg)]
fn __action28<
    T,
    F,
>(
    make: &F,
    __0: (Loc, alloc::vec::Vec<usize>, Loc),
) -> (usize, Vec<usize>)
where
    F: Fn(usize) -> T,
    T: Clone,
    T: std::fmt::Debug,
{
    let __start0 = __0.0.clone();
    let __end0 = __0.2.clone();
    let __temp0 = __action13::<
    T,
    F,
    >(
        make,
        __0,
    );
    let __temp0 = (__start0, __temp0, __end0);
    __action6::<
    T,
    F,
    >(
        make,
        __temp0,
    )
}

#[allow(unused_variables)]
#[allow(clippy::too_many_arguments, clippy::needless_lifetimes,
    clippy::just_underscores_and_digits, clippy::clone_on_copy, clippy::unit_arg)]
fn __action29<
    T,
    F,
>(
    make: &F,
    __0: (Loc, alloc::vec::Vec<usize>, Loc),
    __1: (Loc, Loc, Loc),
) -> Vec<T>
where
    F: Fn(usize) -> T,
    T: Clone,
    T: std::fmt::Debug,
{
    let __start0 = __0.0.clone();
    let __end0 = __0.0.clone();
    let __temp0 = __action20::<
    T,
    F,
    >(
        make,
        &__start0,
        &__end0,
    );
    let __temp0 = (__start0, __temp0, __end0);
    __action2::<
    T,
    F,
    >(
        make,
        __temp0,
        __0,
        __1,
    )
}

#[allow(unused_variables)]
#[allow(clippy::too_many_arguments, clippy::needless_lifetimes,
    clippy::just_underscores_and_digits, clippy::clone_on_copy, clippy::unit_arg)]
fn __action30<
    T,
    F,
>(
    make: &F,
    __0: (Loc, alloc::vec::Vec<usize>, Loc),
) -> Vec<T>
where
    F: Fn(usize) -> T,
    T: Clone,
    T: std::fmt::Debug,
{
    let __start0 = __0.2.clone();
    let __end0 = __0.2.clone();
    let __temp0 = __action17::<
    T,
    F,
    >(
        make,
        &__start0,
        &__end0,
    );
    let __temp0 = (__start0, __temp0, __end0);
    __action29::<
    T,
    F,
    >(
        make,
        __0,
        __temp0,
    )
}

#[allow(unused_variables)]
#[allow(clippy::too_many_arguments, clippy::needless_lifetimes,
    clippy::just_underscores_and_digits, clippy::clone_on_copy, clippy::unit_arg)]
fn __action31<
    T,
    F,
>(
    make: &F,
    __lookbehind: &Loc,
    __lookahead: &Loc,
) -> Vec<T>
where
    F: Fn(usize) -> T,
    T: Clone,
    T: std::fmt::Debug,
{
    let __start0 = __lookbehind.clone();
    let __end0 = __lookahead.clone();
    let __temp0 = __action18::<
    T,
    F,
    >(
        make,
        &__start0,
        &__end0,
    );
    let __temp0 = (__start0, __temp0, __end0);
    __action30::<
    T,
    F,
    >(
        make,
        __temp0,
    )
}

#[allow(unused_variables)]
#[allow(clippy::too_many_arguments, clippy::needless_lifetimes,
    clippy::just_underscores_and_digits, clippy::clone_on_copy, clippy::unit_arg)]
fn __action32<
    T,
    F,
>(
    make: &F,
    __0: (Loc, alloc::vec::Vec<usize>, Loc),
) -> Vec<T>
where
    F: Fn(usize) -> T,
    T: Clone,
    T: std::fmt::Debug,
{
    let __start0 = __0.0.clone();
    let __end0 = __0.2.clone();
    let __temp0 = __action19::<
    T,
    F,
    >(
        make,
        __0,
    );
    let __temp0 = (__start0, __temp0, __end0);
    __action30::<
    T,
    F,
    >(
        make,
        __temp0,
    )
}

#[allow(unused_variables)]
#[allow(clippy::too_many_arguments, clippy::needless_lifetimes,
    clippy::just_underscores_and_digits, clippy::clone_on_copy, clippy::unit_arg)]
fn __action33<
    T,
    F,
>(
    make: &F,
    __0: (Loc, usize, Loc),
) -> Option<T>
where
    F: Fn(usize) -> T,
    T: Clone,
    T: std::fmt::Debug,
{
    let __start0 = __0.0.clone();
    let __end0 = __0.2.clone();
    let __temp0 = __action15::<
    T,
    F,
    >(
        make,
        __0,
    );
    let __temp0 = (__start0, __temp0, __end0);
    __action3::<
    T,
    F,
    >(
        make,
        __temp0,
    )
}

#[allow(unused_variables)]
#[allow(clippy::too_many_arguments, clippy::needless_lifetimes,
    clippy::just_underscores_and_digits, clippy::clone_on_copy, clippy::unit_arg)]
fn __action34<
    T,
    F,
>(
    make: &F,
    __lookbehind: &Loc,
    __lookahead: &Loc,
) -> Option<T>
where
    F: Fn(usize) -> T,
    T: Clone,
    T: std::fmt::Debug,
{
    let __start0 = __lookbehind.clone();
    let __end0 = __lookahead.clone();
    let __temp0 = __action16::<
    T,
    F,
    >(
        make,
        &__start0,
        &__end0,
    );
    let __temp0 = (__start0, __temp0, __end0);
    __action3::<
    T,
    F,
    >(
        make,
        __temp0,
    )
}

#[allow(clippy::type_complexity, dead_code)]
pub trait __ToTriple<T, F, >
where F: Fn(usize) -> T,T: Clone,T: std::fmt::Debug
{
    fn to_triple(self) -> Result<(Loc,Tok,Loc), __lalrpop_util::ParseError<Loc, Tok, String>>;
}

impl<T, F, > __ToTriple<T, F, > for (Loc, Tok, Loc)
where F: Fn(usize) -> T,T: Clone,T: std::fmt::Debug
{
    fn to_triple(self) -> Result<(Loc,Tok,Loc), __lalrpop_util::ParseError<Loc, Tok, String>> {
        Ok(self)
    }
}
impl<T, F, > __ToTriple<T, F, > for Result<(Loc, Tok, Loc), String>
where F: Fn(usize) -> T,T: Clone,T: std::fmt::Debug
{
    fn to_triple(self) -> Result<(Loc,Tok,Loc), __lalrpop_util::ParseError<Loc, Tok, String>> {
        self.map_err(|error| __lalrpop_util::ParseError::User { error })
    }
}
