// auto-generated: "lalrpop 0.23.1"
// sha3: f579e2bb50934564c5ce1b60f15fc81634f6cddf73f6ade1f68e9f78881e72db
use crate::support::*;
#[allow(unused_extern_crates)]
extern crate lalrpop_util as __lalrpop_util;
#[allow(unused_imports)]
use self::__lalrpop_util::state_machine as __state_machine;
#[allow(unused_extern_crates)]
extern crate alloc;

#[rustfmt::skip]
#[allow(explicit_outlives_requirements, non_snake_case, non_camel_case_types, unused_mut, unused_variables, unused_imports, unused_parens, clippy::needless_lifetimes, clippy::type_complexity, clippy::needless_return, clippy::too_many_arguments, clippy::match_single_binding, clippy::clone_on_copy, clippy::unit_arg)]
mod __parse__One {

    use crate::support::*;
    #[allow(unused_extern_crates)]
    extern crate lalrpop_util as __lalrpop_util;
    #[allow(unused_imports)]
    use self::__lalrpop_util::state_machine as __state_machine;
    #[allow(unused_extern_crates)]
    extern crate alloc;
    use self::__lalrpop_util::lexer::Token;
    #[allow(dead_code)]
    pub(crate) enum __Symbol<'input, T>
     where T: Clone, T: std::fmt::Debug
     {
        Variant0(&'input str),
        Variant1(usize),
        Variant2(alloc::vec::Vec<usize>),
        Variant3(Option<usize>),
        Variant4((usize, Vec<usize>)),
        Variant5(Option<T>),
        Variant6(Vec<T>),
    }
    const __ACTION: &[i8] = &[
        // State 0
        0, 6, 0, 0, 0,
        // State 1
        0, 0, 0, 0, 0,
        // State 2
        7, 0, 0, 0, 0,
        // State 3
        0, 0, 0, 8, 0,
        // State 4
        0, 0, 0, 0, 0,
        // State 5
        0, 0, 9, 0, 0,
        // State 6
        0, 0, 0, 0, 0,
        // State 7
        -15, 0, 0, 0, 0,
        // State 8
        0, 0, 0, -22, 0,
    ];
    fn __action(state: i8, integer: usize) -> i8 {
        __ACTION[(state as usize) * 5 + integer]
    }
    const __EOF_ACTION: &[i8] = &[
        // State 0
        -24,
        // State 1
        -23,
        // State 2
        0,
        // State 3
        0,
        // State 4
        -27,
        // State 5
        0,
        // State 6
        -8,
        // State 7
        0,
        // State 8
        0,
    ];
    fn __goto(state: i8, nt: usize) -> i8 {
        match nt {
            5 => 1,
            9 => 2,
            14 => 3,
            15 => 4,
            _ => 0,
        }
    }
    #[allow(clippy::needless_raw_string_hashes)]
    const __TERMINAL: &[&str] = &[
        r###"",""###,
        r###""a""###,
        r###""b""###,
        r###""c""###,
        r###""d""###,
    ];
    fn __expected_tokens(__state: i8) -> alloc::vec::Vec<alloc::string::String> {
        __TERMINAL.iter().enumerate().filter_map(|(index, terminal)| {
            let next_state = __action(__state, index);
            if next_state == 0 {
                None
            } else {
                Some(alloc::string::ToString::to_string(terminal))
            }
        }).collect()
    }
    fn __expected_tokens_from_states<
        'input,
        '__3,
        T,
        F,
    >(
        __states: &[i8],
        _: core::marker::PhantomData<(&'input (), T, F)>,
    ) -> alloc::vec::Vec<alloc::string::String>
    where
        F: Fn(usize) -> T,
        T: Clone,
        T: std::fmt::Debug,
        F: '__3,
    {
        __TERMINAL.iter().enumerate().filter_map(|(index, terminal)| {
            if __accepts(None, __states, Some(index), core::marker::PhantomData::<(&(), T, F)>) {
                Some(alloc::string::ToString::to_string(terminal))
            } else {
                None
            }
        }).collect()
    }
    struct __StateMachine<'input, '__3, T, F>
    where F: Fn(usize) -> T, T: Clone, T: std::fmt::Debug, F: '__3
    {
        make: &'__3 F,
        input: &'input str,
        __phantom: core::marker::PhantomData<(&'input (), T, F)>,
    }
    impl<'input, '__3, T, F> __state_machine::ParserDefinition for __StateMachine<'input, '__3, T, F>
    where F: Fn(usize) -> T, T: Clone, T: std::fmt::Debug, F: '__3
    {
        type Location = usize;
        type Error = &'static str;
        type Token = Token<'input>;
        type TokenIndex = usize;
        type Symbol = __Symbol<'input, T>;
        type Success = Option<T>;
        type StateIndex = i8;
        type Action = i8;
        type ReduceIndex = i8;
        type NonterminalIndex = usize;

        #[inline]
        fn start_location(&self) -> Self::Location {
              Default::default()
        }

        #[inline]
        fn start_state(&self) -> Self::StateIndex {
              0
        }

        #[inline]
        fn token_to_index(&self, token: &Self::Token) -> Option<usize> {
            __token_to_integer(token, core::marker::PhantomData::<(&(), T, F)>)
        }

        #[inline]
        fn action(&self, state: i8, integer: usize) -> i8 {
            __action(state, integer)
        }

        #[inline]
        fn error_action(&self, state: i8) -> i8 {
            __action(state, 5 - 1)
        }

        #[inline]
        fn eof_action(&self, state: i8) -> i8 {
            __EOF_ACTION[state as usize]
        }

        #[inline]
        fn goto(&self, state: i8, nt: usize) -> i8 {
            __goto(state, nt)
        }

        fn token_to_symbol(&self, token_index: usize, token: Self::Token) -> Self::Symbol {
            __token_to_symbol(token_index, token, core::marker::PhantomData::<(&(), T, F)>)
        }

        fn expected_tokens(&self, state: i8) -> alloc::vec::Vec<alloc::string::String> {
            __expected_tokens(state)
        }

        fn expected_tokens_from_states(&self, states: &[i8]) -> alloc::vec::Vec<alloc::string::String> {
            __expected_tokens_from_states(states, core::marker::PhantomData::<(&(), T, F)>)
        }

        #[inline]
        fn uses_error_recovery(&self) -> bool {
            false
        }

        #[inline]
        fn error_recovery_symbol(
            &self,
            recovery: __state_machine::ErrorRecovery<Self>,
        ) -> Self::Symbol {
            panic!("error recovery not enabled for this grammar")
        }

        fn reduce(
            &mut self,
            action: i8,
            start_location: Option<&Self::Location>,
            states: &mut alloc::vec::Vec<i8>,
            symbols: &mut alloc::vec::Vec<__state_machine::SymbolTriple<Self>>,
        ) -> Option<__state_machine::ParseResult<Self>> {
            __reduce(
                self.make,
                self.input,
                action,
                start_location,
                states,
                symbols,
                core::marker::PhantomData::<(&(), T, F)>,
            )
        }

        fn simulate_reduce(&self, action: i8) -> __state_machine::SimulatedReduce<Self> {
            __simulate_reduce(action, core::marker::PhantomData::<(&(), T, F)>)
        }
    }
    fn __token_to_integer<
        'input,
        T,
        F,
    >(
        __token: &Token<'input>,
        _: core::marker::PhantomData<(&'input (), T, F)>,
    ) -> Option<usize>
    where
        F: Fn(usize) -> T,
        T: Clone,
        T: std::fmt::Debug,
    {
        #[warn(unused_variables)]
        match __token {
            Token(0, _) if true => Some(0),
            Token(1, _) if true => Some(1),
            Token(2, _) if true => Some(2),
            Token(3, _) if true => Some(3),
            Token(4, _) if true => Some(4),
            _ => None,
        }
    }
    fn __token_to_symbol<
        'input,
        T,
        F,
    >(
        __token_index: usize,
        __token: Token<'input>,
        _: core::marker::PhantomData<(&'input (), T, F)>,
    ) -> __Symbol<'input, T>
    where
        F: Fn(usize) -> T,
        T: Clone,
        T: std::fmt::Debug,
    {
        #[allow(clippy::manual_range_patterns)]match __token_index {
            0 | 1 | 2 | 3 | 4 => match __token {
                Token(0, __tok0) | Token(1, __tok0) | Token(2, __tok0) | Token(3, __tok0) | Token(4, __tok0) if true => __Symbol::Variant0(__tok0),
                _ => unreachable!(),
            },
            _ => unreachable!(),
        }
    }
    fn __simulate_reduce<
        'input,
        '__3,
        T,
        F,
    >(
        __reduce_index: i8,
        _: core::marker::PhantomData<(&'input (), T, F)>,
    ) -> __state_machine::SimulatedReduce<__StateMachine<'input, '__3, T, F>>
    where
        F: Fn(usize) -> T,
        T: Clone,
        T: std::fmt::Debug,
        F: '__3,
    {
        match __reduce_index {
            0 => {
                __state_machine::SimulatedReduce::Reduce {
                    states_to_pop: 2,
                    nonterminal_produced: 0,
                }
            }
            1 => {
                __state_machine::SimulatedReduce::Reduce {
                    states_to_pop: 0,
                    nonterminal_produced: 1,
                }
            }
            2 => {
                __state_machine::SimulatedReduce::Reduce {
                    states_to_pop: 1,
                    nonterminal_produced: 1,
                }
            }
            3 => {
                __state_machine::SimulatedReduce::Reduce {
                    states_to_pop: 2,
                    nonterminal_produced: 2,
                }
            }
            4 => {
                __state_machine::SimulatedReduce::Reduce {
                    states_to_pop: 3,
                    nonterminal_produced: 2,
                }
            }
            5 => {
                __state_machine::SimulatedReduce::Reduce {
                    states_to_pop: 0,
                    nonterminal_produced: 3,
                }
            }
            6 => {
                __state_machine::SimulatedReduce::Reduce {
                    states_to_pop: 0,
                    nonterminal_produced: 4,
                }
            }
            7 => {
                __state_machine::SimulatedReduce::Reduce {
                    states_to_pop: 2,
                    nonterminal_produced: 5,
                }
            }
            8 => {
                __state_machine::SimulatedReduce::Reduce {
                    states_to_pop: 0,
                    nonterminal_produced: 6,
                }
            }
            9 => {
                __state_machine::SimulatedReduce::Reduce {
                    states_to_pop: 1,
                    nonterminal_produced: 6,
                }
            }
            10 => {
                __state_machine::SimulatedReduce::Reduce {
                    states_to_pop: 1,
                    nonterminal_produced: 7,
                }
            }
            11 => {
                __state_machine::SimulatedReduce::Reduce {
                    states_to_pop: 2,
                    nonterminal_produced: 7,
                }
            }
            12 => {
                __state_machine::SimulatedReduce::Reduce {
                    states_to_pop: 1,
                    nonterminal_produced: 8,
                }
            }
            13 => {
                __state_machine::SimulatedReduce::Reduce {
                    states_to_pop: 0,
                    nonterminal_produced: 8,
                }
            }
            14 => {
                __state_machine::SimulatedReduce::Reduce {
                    states_to_pop: 2,
                    nonterminal_produced: 9,
                }
            }
            15 => {
                __state_machine::SimulatedReduce::Reduce {
                    states_to_pop: 0,
                    nonterminal_produced: 10,
                }
            }
            16 => {
                __state_machine::SimulatedReduce::Reduce {
                    states_to_pop: 1,
                    nonterminal_produced: 10,
                }
            }
            17 => {
                __state_machine::SimulatedReduce::Reduce {
                    states_to_pop: 2,
                    nonterminal_produced: 11,
                }
            }
            18 => {
                __state_machine::SimulatedReduce::Reduce {
                    states_to_pop: 3,
                    nonterminal_produced: 12,
                }
            }
            19 => {
                __state_machine::SimulatedReduce::Reduce {
                    states_to_pop: 3,
                    nonterminal_produced: 12,
                }
            }
            20 => {
                __state_machine::SimulatedReduce::Reduce {
                    states_to_pop: 2,
                    nonterminal_produced: 13,
                }
            }
            21 => {
                __state_machine::SimulatedReduce::Reduce {
                    states_to_pop: 2,
                    nonterminal_produced: 14,
                }
            }
            22 => {
                __state_machine::SimulatedReduce::Reduce {
                    states_to_pop: 1,
                    nonterminal_produced: 15,
                }
            }
            23 => {
                __state_machine::SimulatedReduce::Reduce {
                    states_to_pop: 0,
                    nonterminal_produced: 15,
                }
            }
            24 => {
                __state_machine::SimulatedReduce::Reduce {
                    states_to_pop: 0,
                    nonterminal_produced: 16,
                }
            }
            25 => {
                __state_machine::SimulatedReduce::Reduce {
                    states_to_pop: 1,
                    nonterminal_produced: 16,
                }
            }
            26 => __state_machine::SimulatedReduce::Accept,
            27 => {
                __state_machine::SimulatedReduce::Reduce {
                    states_to_pop: 1,
                    nonterminal_produced: 18,
                }
            }
            _ => panic!("invalid reduction index {__reduce_index}")
        }
    }
    pub struct OneParser {
        builder: __lalrpop_util::lexer::MatcherBuilder,
        _priv: (),
    }

    impl Default for OneParser { fn default() -> Self { Self::new() } }
    impl OneParser {
        pub fn new() -> OneParser {
            let __builder = super::__intern_token::new_builder();
            OneParser {
                builder: __builder,
                _priv: (),
            }
        }

        #[allow(dead_code)]
        pub fn parse<
            'input,
            T,
            F,
        >(
            &self,
            make: &F,
            input: &'input str,
        ) -> Result<Option<T>, __lalrpop_util::ParseError<usize, Token<'input>, &'static str>>
        where
            F: Fn(usize) -> T,
            T: Clone,
            T: std::fmt::Debug,
        {
            let mut __tokens = self.builder.matcher(input);
            __state_machine::Parser::drive(
                __StateMachine {
                    make,
                    input,
                    __phantom: core::marker::PhantomData::<(&(), T, F)>,
                },
                __tokens,
            )
        }
    }
    fn __accepts<
        'input,
        '__3,
        T,
        F,
    >(
        __error_state: Option<i8>,
        __states: &[i8],
        __opt_integer: Option<usize>,
        _: core::marker::PhantomData<(&'input (), T, F)>,
    ) -> bool
    where
        F: Fn(usize) -> T,
        T: Clone,
        T: std::fmt::Debug,
        F: '__3,
    {
        let mut __states = __states.to_vec();
        __states.extend(__error_state);
        loop {
            let mut __states_len = __states.len();
            let __top = __states[__states_len - 1];
            let __action = match __opt_integer {
                None => __EOF_ACTION[__top as usize],
                Some(__integer) => __action(__top, __integer),
            };
            if __action == 0 { return false; }
            if __action > 0 { return true; }
            let (__to_pop, __nt) = match __simulate_reduce(-(__action + 1), core::marker::PhantomData::<(&(), T, F)>) {
                __state_machine::SimulatedReduce::Reduce {
                    states_to_pop, nonterminal_produced
                } => (states_to_pop, nonterminal_produced),
                __state_machine::SimulatedReduce::Accept => return true,
            };
            __states_len -= __to_pop;
            __states.truncate(__states_len);
            let __top = __states[__states_len - 1];
            let __next_state = __goto(__top, __nt);
            __states.push(__next_state);
        }
    }
    fn __reduce<
        'input,
        T,
        F,
    >(
        make: &F,
        input: &'input str,
        __action: i8,
        __lookahead_start: Option<&usize>,
        __states: &mut alloc::vec::Vec<i8>,
        __symbols: &mut alloc::vec::Vec<(usize,__Symbol<'input, T>,usize)>,
        _: core::marker::PhantomData<(&'input (), T, F)>,
    ) -> Option<Result<Option<T>,__lalrpop_util::ParseError<usize, Token<'input>, &'static str>>>
    where
        F: Fn(usize) -> T,
        T: Clone,
        T: std::fmt::Debug,
    {
        let (__pop_states, __nonterminal) = match __action {
            0 => {
                __reduce0(make, input, __lookahead_start, __symbols, core::marker::PhantomData::<(&(), T, F)>)
            }
            1 => {
                __reduce1(make, input, __lookahead_start, __symbols, core::marker::PhantomData::<(&(), T, F)>)
            }
            2 => {
                __reduce2(make, input, __lookahead_start, __symbols, core::marker::PhantomData::<(&(), T, F)>)
            }
            3 => {
                __reduce3(make, input, __lookahead_start, __symbols, core::marker::PhantomData::<(&(), T, F)>)
            }
            4 => {
                __reduce4(make, input, __lookahead_start, __symbols, core::marker::PhantomData::<(&(), T, F)>)
            }
            5 => {
                __reduce5(make, input, __lookahead_start, __symbols, core::marker::PhantomData::<(&(), T, F)>)
            }
            6 => {
                __reduce6(make, input, __lookahead_start, __symbols, core::marker::PhantomData::<(&(), T, F)>)
            }
            7 => {
                __reduce7(make, input, __lookahead_start, __symbols, core::marker::PhantomData::<(&(), T, F)>)
            }
            8 => {
                __reduce8(make, input, __lookahead_start, __symbols, core::marker::PhantomData::<(&(), T, F)>)
            }
            9 => {
                __reduce9(make, input, __lookahead_start, __symbols, core::marker::PhantomData::<(&(), T, F)>)
            }
            10 => {
                __reduce10(make, input, __lookahead_start, __symbols, core::marker::PhantomData::<(&(), T, F)>)
            }
            11 => {
                __reduce11(make, input, __lookahead_start, __symbols, core::marker::PhantomData::<(&(), T, F)>)
            }
            12 => {
                __reduce12(make, input, __lookahead_start, __symbols, core::marker::PhantomData::<(&(), T, F)>)
            }
            13 => {
                __reduce13(make, input, __lookahead_start, __symbols, core::marker::PhantomData::<(&(), T, F)>)
            }
            14 => {
                __reduce14(make, input, __lookahead_start, __symbols, core::marker::PhantomData::<(&(), T, F)>)
            }
            15 => {
                __reduce15(make, input, __lookahead_start, __symbols, core::marker::PhantomData::<(&(), T, F)>)
            }
            16 => {
                __reduce16(make, input, __lookahead_start, __symbols, core::marker::PhantomData::<(&(), T, F)>)
            }
            17 => {
                __reduce17(make, input, __lookahead_start, __symbols, core::marker::PhantomData::<(&(), T, F)>)
            }
            18 => {
                __reduce18(make, input, __lookahead_start, __symbols, core::marker::PhantomData::<(&(), T, F)>)
            }
            19 => {
                __reduce19(make, input, __lookahead_start, __symbols, core::marker::PhantomData::<(&(), T, F)>)
            }
            20 => {
                __reduce20(make, input, __lookahead_start, __symbols, core::marker::PhantomData::<(&(), T, F)>)
            }
            21 => {
                __reduce21(make, input, __lookahead_start, __symbols, core::marker::PhantomData::<(&(), T, F)>)
            }
            22 => {
                __reduce22(make, input, __lookahead_start, __symbols, core::marker::PhantomData::<(&(), T, F)>)
            }
            23 => {
                __reduce23(make, input, __lookahead_start, __symbols, core::marker::PhantomData::<(&(), T, F)>)
            }
            24 => {
                __reduce24(make, input, __lookahead_start, __symbols, core::marker::PhantomData::<(&(), T, F)>)
            }
            25 => {
                __reduce25(make, input, __lookahead_start, __symbols, core::marker::PhantomData::<(&(), T, F)>)
            }
            26 => {
                // __One = One => ActionFn(1);
                let __sym0 = __pop_Variant5(__symbols);
                let __start = __sym0.0.clone();
                let __end = __sym0.2.clone();
                let __nt = super::__action1::<T, F>(make, input, __sym0);
                return Some(Ok(__nt));
            }
            27 => {
                __reduce27(make, input, __lookahead_start, __symbols, core::marker::PhantomData::<(&(), T, F)>)
            }
            _ => panic!("invalid action code {__action}")
        };
        let __states_len = __states.len();
        __states.truncate(__states_len - __pop_states);
        let __state = *__states.last().unwrap();
        let __next_state = __goto(__state, __nonterminal);
        __states.push(__next_state);
        None
    }
    #[inline(never)]
    fn __symbol_type_mismatch() -> ! {
        panic!("symbol type mismatch")
    }
    fn __pop_Variant4<
      'input,
      T,
    >(
        __symbols: &mut alloc::vec::Vec<(usize,__Symbol<'input, T>,usize)>
    ) -> (usize, (usize, Vec<usize>), usize)
     where T: Clone, T: std::fmt::Debug
     {
        match __symbols.pop() {
            Some((__l, __Symbol::Variant4(__v), __r)) => (__l, __v, __r),
            _ => __symbol_type_mismatch()
        }
    }
    fn __pop_Variant5<
      'input,
      T,
    >(
        __symbols: &mut alloc::vec::Vec<(usize,__Symbol<'input, T>,usize)>
    ) -> (usize, Option<T>, usize)
     where T: Clone, T: std::fmt::Debug
     {
        match __symbols.pop() {
            Some((__l, __Symbol::Variant5(__v), __r)) => (__l, __v, __r),
            _ => __symbol_type_mismatch()
        }
    }
    fn __pop_Variant3<
      'input,
      T,
    >(
        __symbols: &mut alloc::vec::Vec<(usize,__Symbol<'input, T>,usize)>
    ) -> (usize, Option<usize>, usize)
     where T: Clone, T: std::fmt::Debug
     {
        match __symbols.pop() {
            Some((__l, __Symbol::Variant3(__v), __r)) => (__l, __v, __r),
            _ => __symbol_type_mismatch()
        }
    }
    fn __pop_Variant6<
      'input,
      T,
    >(
        __symbols: &mut alloc::vec::Vec<(usize,__Symbol<'input, T>,usize)>
    ) -> (usize, Vec<T>, usize)
     where T: Clone, T: std::fmt::Debug
     {
        match __symbols.pop() {
            Some((__l, __Symbol::Variant6(__v), __r)) => (__l, __v, __r),
            _ => __symbol_type_mismatch()
        }
    }
    fn __pop_Variant2<
      'input,
      T,
    >(
        __symbols: &mut alloc::vec::Vec<(usize,__Symbol<'input, T>,usize)>
    ) -> (usize, alloc::vec::Vec<usize>, usize)
     where T: Clone, T: std::fmt::Debug
     {
        match __symbols.pop() {
            Some((__l, __Symbol::Variant2(__v), __r)) => (__l, __v, __r),
            _ => __symbol_type_mismatch()
        }
    }
    fn __pop_Variant1<
      'input,
      T,
    >(
        __symbols: &mut alloc::vec::Vec<(usize,__Symbol<'input, T>,usize)>
    ) -> (usize, usize, usize)
     where T: Clone, T: std::fmt::Debug
     {
        match __symbols.pop() {
            Some((__l, __Symbol::Variant1(__v), __r)) => (__l, __v, __r),
            _ => __symbol_type_mismatch()
        }
    }
    fn __pop_Variant0<
      'input,
      T,
    >(
        __symbols: &mut alloc::vec::Vec<(usize,__Symbol<'input, T>,usize)>
    ) -> (usize, &'input str, usize)
     where T: Clone, T: std::fmt::Debug
     {
        match __symbols.pop() {
            Some((__l, __Symbol::Variant0(__v), __r)) => (__l, __v, __r),
            _ => __symbol_type_mismatch()
        }
    }
    fn __reduce0<
        'input,
        T,
        F,
    >(
        make: &F,
        input: &'input str,
        __lookahead_start: Option<&usize>,
        __symbols: &mut alloc::vec::Vec<(usize,__Symbol<'input, T>,usize)>,
        _: core::marker::PhantomData<(&'input (), T, F)>,
    ) -> (usize, usize)
    where
        F: Fn(usize) -> T,
        T: Clone,
        T: std::fmt::Debug,
    {
        // ("c" <N2>) = "c", N2 => ActionFn(14);
        assert!(__symbols.len() >= 2);
        let __sym1 = __pop_Variant1(__symbols);
        let __sym0 = __pop_Variant0(__symbols);
        let __start = __sym0.0.clone();
        let __end = __sym1.2.clone();
        let __nt = super::__action14::<T, F>(make, input, __sym0, __sym1);
        __symbols.push((__start, __Symbol::Variant1(__nt), __end));
        (2, 0)
    }
    fn __reduce1<
        'input,
        T,
        F,
    >(
        make: &F,
        input: &'input str,
        __lookahead_start: Option<&usize>,
        __symbols: &mut alloc::vec::Vec<(usize,__Symbol<'input, T>,usize)>,
        _: core::marker::PhantomData<(&'input (), T, F)>,
    ) -> (usize, usize)
    where
        F: Fn(usize) -> T,
        T: Clone,
        T: std::fmt::Debug,
    {
        // ("c" <N2>)* =  => ActionFn(12);
        let __start = __lookahead_start.cloned().or_else(|| __symbols.last().map(|s| s.2.clone())).unwrap_or_default();
        let __end = __start.clone();
        let __nt = super::__action12::<T, F>(make, input, &__start, &__end);
        __symbols.push((__start, __Symbol::Variant2(__nt), __end));
        (0, 1)
    }
    fn __reduce2<
        'input,
        T,
        F,
    >(
        make: &F,
        input: &'input str,
        __lookahead_start: Option<&usize>,
        __symbols: &mut alloc::vec::Vec<(usize,__Symbol<'input, T>,usize)>,
        _: core::marker::PhantomData<(&'input (), T, F)>,
    ) -> (usize, usize)
    where
        F: Fn(usize) -> T,
        T: Clone,
        T: std::fmt::Debug,
    {
        // ("c" <N2>)* = ("c" <N2>)+ => ActionFn(13);
        let __sym0 = __pop_Variant2(__symbols);
        let __start = __sym0.0.clone();
        let __end = __sym0.2.clone();
        let __nt = super::__action13::<T, F>(make, input, __sym0);
        __symbols.push((__start, __Symbol::Variant2(__nt), __end));
        (1, 1)
    }
    fn __reduce3<
        'input,
        T,
        F,
    >(
        make: &F,
        input: &'input str,
        __lookahead_start: Option<&usize>,
        __symbols: &mut alloc::vec::Vec<(usize,__Symbol<'input, T>,usize)>,
        _: core::marker::PhantomData<(&'input (), T, F)>,
    ) -> (usize, usize)
    where
        F: Fn(usize) -> T,
        T: Clone,
        T: std::fmt::Debug,
    {
        // ("c" <N2>)+ = "c", N2 => ActionFn(25);
        assert!(__symbols.len() >= 2);
        let __sym1 = __pop_Variant1(__symbols);
        let __sym0 = __pop_Variant0(__symbols);
        let __start = __sym0.0.clone();
        let __end = __sym1.2.clone();
        let __nt = super::__action25::<T, F>(make, input, __sym0, __sym1);
        __symbols.push((__start, __Symbol::Variant2(__nt), __end));
        (2, 2)
    }
    fn __reduce4<
        'input,
        T,
        F,
    >(
        make: &F,
        input: &'input str,
        __lookahead_start: Option<&usize>,
        __symbols: &mut alloc::vec::Vec<(usize,__Symbol<'input, T>,usize)>,
        _: core::marker::PhantomData<(&'input (), T, F)>,
    ) -> (usize, usize)
    where
        F: Fn(usize) -> T,
        T: Clone,
        T: std::fmt::Debug,
    {
        // ("c" <N2>)+ = ("c" <N2>)+, "c", N2 => ActionFn(26);
        assert!(__symbols.len() >= 3);
        let __sym2 = __pop_Variant1(__symbols);
        let __sym1 = __pop_Variant0(__symbols);
        let __sym0 = __pop_Variant2(__symbols);
        let __start = __sym0.0.clone();
        let __end = __sym2.2.clone();
        let __nt = super::__action26::<T, F>(make, input, __sym0, __sym1, __sym2);
        __symbols.push((__start, __Symbol::Variant2(__nt), __end));
        (3, 2)
    }
    fn __reduce5<
        'input,
        T,
        F,
    >(
        make: &F,
        input: &'input str,
        __lookahead_start: Option<&usize>,
        __symbols: &mut alloc::vec::Vec<(usize,__Symbol<'input, T>,usize)>,
        _: core::marker::PhantomData<(&'input (), T, F)>,
    ) -> (usize, usize)
    where
        F: Fn(usize) -> T,
        T: Clone,
        T: std::fmt::Debug,
    {
        // @L =  => ActionFn(20);
        let __start = __lookahead_start.cloned().or_else(|| __symbols.last().map(|s| s.2.clone())).unwrap_or_default();
        let __end = __start.clone();
        let __nt = super::__action20::<T, F>(make, input, &__start, &__end);
        __symbols.push((__start, __Symbol::Variant1(__nt), __end));
        (0, 3)
    }
    fn __reduce6<
        'input,
        T,
        F,
    >(
        make: &F,
        input: &'input str,
        __lookahead_start: Option<&usize>,
        __symbols: &mut alloc::vec::Vec<(usize,__Symbol<'input, T>,usize)>,
        _: core::marker::PhantomData<(&'input (), T, F)>,
    ) -> (usize, usize)
    where
        F: Fn(usize) -> T,
        T: Clone,
        T: std::fmt::Debug,
    {
        // @R =  => ActionFn(17);
        let __start = __lookahead_start.cloned().or_else(|| __symbols.last().map(|s| s.2.clone())).unwrap_or_default();
        let __end = __start.clone();
        let __nt = super::__action17::<T, F>(make, input, &__start, &__end);
        __symbols.push((__start, __Symbol::Variant1(__nt), __end));
        (0, 4)
    }
    fn __reduce7<
        'input,
        T,
        F,
    >(
        make: &F,
        input: &'input str,
        __lookahead_start: Option<&usize>,
        __symbols: &mut alloc::vec::Vec<(usize,__Symbol<'input, T>,usize)>,
        _: core::marker::PhantomData<(&'input (), T, F)>,
    ) -> (usize, usize)
    where
        F: Fn(usize) -> T,
        T: Clone,
        T: std::fmt::Debug,
    {
        // Item = N0, "," => ActionFn(4);
        assert!(__symbols.len() >= 2);
        let __sym1 = __pop_Variant0(__symbols);
        let __sym0 = __pop_Variant0(__symbols);
        let __start = __sym0.0.clone();
        let __end = __sym1.2.clone();
        let __nt = super::__action4::<T, F>(make, input, __sym0, __sym1);
        __symbols.push((__start, __Symbol::Variant1(__nt), __end));
        (2, 5)
    }
    fn __reduce8<
        'input,
        T,
        F,
    >(
        make: &F,
        input: &'input str,
        __lookahead_start: Option<&usize>,
        __symbols: &mut alloc::vec::Vec<(usize,__Symbol<'input, T>,usize)>,
        _: core::marker::PhantomData<(&'input (), T, F)>,
    ) -> (usize, usize)
    where
        F: Fn(usize) -> T,
        T: Clone,
        T: std::fmt::Debug,
    {
        // Item* =  => ActionFn(18);
        let __start = __lookahead_start.cloned().or_else(|| __symbols.last().map(|s| s.2.clone())).unwrap_or_default();
        let __end = __start.clone();
        let __nt = super::__action18::<T, F>(make, input, &__start, &__end);
        __symbols.push((__start, __Symbol::Variant2(__nt), __end));
        (0, 6)
    }
    fn __reduce9<
        'input,
        T,
        F,
    >(
        make: &F,
        input: &'input str,
        __lookahead_start: Option<&usize>,
        __symbols: &mut alloc::vec::Vec<(usize,__Symbol<'input, T>,usize)>,
        _: core::marker::PhantomData<(&'input (), T, F)>,
    ) -> (usize, usize)
    where
        F: Fn(usize) -> T,
        T: Clone,
        T: std::fmt::Debug,
    {
        // Item* = Item+ => ActionFn(19);
        let __sym0 = __pop_Variant2(__symbols);
        let __start = __sym0.0.clone();
        let __end = __sym0.2.clone();
        let __nt = super::__action19::<T, F>(make, input, __sym0);
        __symbols.push((__start, __Symbol::Variant2(__nt), __end));
        (1, 6)
    }
    fn __reduce10<
        'input,
        T,
        F,
    >(
        make: &F,
        input: &'input str,
        __lookahead_start: Option<&usize>,
        __symbols: &mut alloc::vec::Vec<(usize,__Symbol<'input, T>,usize)>,
        _: core::marker::PhantomData<(&'input (), T, F)>,
    ) -> (usize, usize)
    where
        F: Fn(usize) -> T,
        T: Clone,
        T: std::fmt::Debug,
    {
        // Item+ = Item => ActionFn(21);
        let __sym0 = __pop_Variant1(__symbols);
        let __start = __sym0.0.clone();
        let __end = __sym0.2.clone();
        let __nt = super::__action21::<T, F>(make, input, __sym0);
        __symbols.push((__start, __Symbol::Variant2(__nt), __end));
        (1, 7)
    }
    fn __reduce11<
        'input,
        T,
        F,
    >(
        make: &F,
        input: &'input str,
        __lookahead_start: Option<&usize>,
        __symbols: &mut alloc::vec::Vec<(usize,__Symbol<'input, T>,usize)>,
        _: core::marker::PhantomData<(&'input (), T, F)>,
    ) -> (usize, usize)
    where
        F: Fn(usize) -> T,
        T: Clone,
        T: std::fmt::Debug,
    {
        // Item+ = Item+, Item => ActionFn(22);
        assert!(__symbols.len() >= 2);
        let __sym1 = __pop_Variant1(__symbols);
        let __sym0 = __pop_Variant2(__symbols);
        let __start = __sym0.0.clone();
        let __end = __sym1.2.clone();
        let __nt = super::__action22::<T, F>(make, input, __sym0, __sym1);
        __symbols.push((__start, __Symbol::Variant2(__nt), __end));
        (2, 7)
    }
    fn __reduce12<
        'input,
        T,
        F,
    >(
        make: &F,
        input: &'input str,
        __lookahead_start: Option<&usize>,
        __symbols: &mut alloc::vec::Vec<(usize,__Symbol<'input, T>,usize)>,
        _: core::marker::PhantomData<(&'input (), T, F)>,
    ) -> (usize, usize)
    where
        F: Fn(usize) -> T,
        T: Clone,
        T: std::fmt::Debug,
    {
        // Item? = Item => ActionFn(15);
        let __sym0 = __pop_Variant1(__symbols);
        let __start = __sym0.0.clone();
        let __end = __sym0.2.clone();
        let __nt = super::__action15::<T, F>(make, input, __sym0);
        __symbols.push((__start, __Symbol::Variant3(__nt), __end));
        (1, 8)
    }
    fn __reduce13<
        'input,
        T,
        F,
    >(
        make: &F,
        input: &'input str,
        __lookahead_start: Option<&usize>,
        __symbols: &mut alloc::vec::Vec<(usize,__Symbol<'input, T>,usize)>,
        _: core::marker::PhantomData<(&'input (), T, F)>,
    ) -> (usize, usize)
    where
        F: Fn(usize) -> T,
        T: Clone,
        T: std::fmt::Debug,
    {
        // Item? =  => ActionFn(16);
        let __start = __lookahead_start.cloned().or_else(|| __symbols.last().map(|s| s.2.clone())).unwrap_or_default();
        let __end = __start.clone();
        let __nt = super::__action16::<T, F>(make, input, &__start, &__end);
        __symbols.push((__start, __Symbol::Variant3(__nt), __end));
        (0, 8)
    }
    fn __reduce14<
        'input,
        T,
        F,
    >(
        make: &F,
        input: &'input str,
        __lookahead_start: Option<&usize>,
        __symbols: &mut alloc::vec::Vec<(usize,__Symbol<'input, T>,usize)>,
        _: core::marker::PhantomData<(&'input (), T, F)>,
    ) -> (usize, usize)
    where
        F: Fn(usize) -> T,
        T: Clone,
        T: std::fmt::Debug,
    {
        // N0 = N5, "c" => ActionFn(5);
        assert!(__symbols.len() >= 2);
        let __sym1 = __pop_Variant0(__symbols);
        let __sym0 = __pop_Variant0(__symbols);
        let __start = __sym0.0.clone();
        let __end = __sym1.2.clone();
        let __nt = super::__action5::<T, F>(make, input, __sym0, __sym1);
        __symbols.push((__start, __Symbol::Variant0(__nt), __end));
        (2, 9)
    }
    fn __reduce15<
        'input,
        T,
        F,
    >(
        make: &F,
        input: &'input str,
        __lookahead_start: Option<&usize>,
        __symbols: &mut alloc::vec::Vec<(usize,__Symbol<'input, T>,usize)>,
        _: core::marker::PhantomData<(&'input (), T, F)>,
    ) -> (usize, usize)
    where
        F: Fn(usize) -> T,
        T: Clone,
        T: std::fmt::Debug,
    {
        // N1 =  => ActionFn(27);
        let __start = __lookahead_start.cloned().or_else(|| __symbols.last().map(|s| s.2.clone())).unwrap_or_default();
        let __end = __start.clone();
        let __nt = super::__action27::<T, F>(make, input, &__start, &__end);
        __symbols.push((__start, __Symbol::Variant4(__nt), __end));
        (0, 10)
    }
    fn __reduce16<
        'input,
        T,
        F,
    >(
        make: &F,
        input: &'input str,
        __lookahead_start: Option<&usize>,
        __symbols: &mut alloc::vec::Vec<(usize,__Symbol<'input, T>,usize)>,
        _: core::marker::PhantomData<(&'input (), T, F)>,
    ) -> (usize, usize)
    where
        F: Fn(usize) -> T,
        T: Clone,
        T: std::fmt::Debug,
    {
        // N1 = ("c" <N2>)+ => ActionFn(28);
        let __sym0 = __pop_Variant2(__symbols);
        let __start = __sym0.0.clone();
        let __end = __sym0.2.clone();
        let __nt = super::__action28::<T, F>(make, input, __sym0);
        __symbols.push((__start, __Symbol::Variant4(__nt), __end));
        (1, 10)
    }
    fn __reduce17<
        'input,
        T,
        F,
    >(
        make: &F,
        input: &'input str,
        __lookahead_start: Option<&usize>,
        __symbols: &mut alloc::vec::Vec<(usize,__Symbol<'input, T>,usize)>,
        _: core::marker::PhantomData<(&'input (), T, F)>,
    ) -> (usize, usize)
    where
        F: Fn(usize) -> T,
        T: Clone,
        T: std::fmt::Debug,
    {
        // N2 = N3, "c" => ActionFn(7);
        assert!(__symbols.len() >= 2);
        let __sym1 = __pop_Variant0(__symbols);
        let __sym0 = __pop_Variant1(__symbols);
        let __start = __sym0.0.clone();
        let __end = __sym1.2.clone();
        let __nt = super::__action7::<T, F>(make, input, __sym0, __sym1);
        __symbols.push((__start, __Symbol::Variant1(__nt), __end));
        (2, 11)
    }
    fn __reduce18<
        'input,
        T,
        F,
    >(
        make: &F,
        input: &'input str,
        __lookahead_start: Option<&usize>,
        __symbols: &mut alloc::vec::Vec<(usize,__Symbol<'input, T>,usize)>,
        _: core::marker::PhantomData<(&'input (), T, F)>,
    ) -> (usize, usize)
    where
        F: Fn(usize) -> T,
        T: Clone,
        T: std::fmt::Debug,
    {
        // N3 = N5, "c", N5 => ActionFn(8);
        assert!(__symbols.len() >= 3);
        let __sym2 = __pop_Variant0(__symbols);
        let __sym1 = __pop_Variant0(__symbols);
        let __sym0 = __pop_Variant0(__symbols);
        let __start = __sym0.0.clone();
        let __end = __sym2.2.clone();
        let __nt = super::__action8::<T, F>(make, input, __sym0, __sym1, __sym2);
        __symbols.push((__start, __Symbol::Variant1(__nt), __end));
        (3, 12)
    }
    fn __reduce19<
        'input,
        T,
        F,
    >(
        make: &F,
        input: &'input str,
        __lookahead_start: Option<&usize>,
        __symbols: &mut alloc::vec::Vec<(usize,__Symbol<'input, T>,usize)>,
        _: core::marker::PhantomData<(&'input (), T, F)>,
    ) -> (usize, usize)
    where
        F: Fn(usize) -> T,
        T: Clone,
        T: std::fmt::Debug,
    {
        // N3 = "d", N3, "d" => ActionFn(9);
        assert!(__symbols.len() >= 3);
        let __sym2 = __pop_Variant0(__symbols);
        let __sym1 = __pop_Variant1(__symbols);
        let __sym0 = __pop_Variant0(__symbols);
        let __start = __sym0.0.clone();
        let __end = __sym2.2.clone();
        let __nt = super::__action9::<T, F>(make, input, __sym0, __sym1, __sym2);
        __symbols.push((__start, __Symbol::Variant1(__nt), __end));
        (3, 12)
    }
    fn __reduce20<
        'input,
        T,
        F,
    >(
        make: &F,
        input: &'input str,
        __lookahead_start: Option<&usize>,
        __symbols: &mut alloc::vec::Vec<(usize,__Symbol<'input, T>,usize)>,
        _: core::marker::PhantomData<(&'input (), T, F)>,
    ) -> (usize, usize)
    where
        F: Fn(usize) -> T,
        T: Clone,
        T: std::fmt::Debug,
    {
        // N4 = N5, "c" => ActionFn(10);
        assert!(__symbols.len() >= 2);
        let __sym1 = __pop_Variant0(__symbols);
        let __sym0 = __pop_Variant0(__symbols);
        let __start = __sym0.0.clone();
        let __end = __sym1.2.clone();
        let __nt = super::__action10::<T, F>(make, input, __sym0, __sym1);
        __symbols.push((__start, __Symbol::Variant0(__nt), __end));
        (2, 13)
    }
    fn __reduce21<
        'input,
        T,
        F,
    >(
        make: &F,
        input: &'input str,
        __lookahead_start: Option<&usize>,
        __symbols: &mut alloc::vec::Vec<(usize,__Symbol<'input, T>,usize)>,
        _: core::marker::PhantomData<(&'input (), T, F)>,
    ) -> (usize, usize)
    where
        F: Fn(usize) -> T,
        T: Clone,
        T: std::fmt::Debug,
    {
        // N5 = "a", "b" => ActionFn(11);
        assert!(__symbols.len() >= 2);
        let __sym1 = __pop_Variant0(__symbols);
        let __sym0 = __pop_Variant0(__symbols);
        let __start = __sym0.0.clone();
        let __end = __sym1.2.clone();
        let __nt = super::__action11::<T, F>(make, input, __sym0, __sym1);
        __symbols.push((__start, __Symbol::Variant0(__nt), __end));
        (2, 14)
    }
    fn __reduce22<
        'input,
        T,
        F,
    >(
        make: &F,
        input: &'input str,
        __lookahead_start: Option<&usize>,
        __symbols: &mut alloc::vec::Vec<(usize,__Symbol<'input, T>,usize)>,
        _: core::marker::PhantomData<(&'input (), T, F)>,
    ) -> (usize, usize)
    where
        F: Fn(usize) -> T,
        T: Clone,
        T: std::fmt::Debug,
    {
        // One = Item => ActionFn(33);
        let __sym0 = __pop_Variant1(__symbols);
        let __start = __sym0.0.clone();
        let __end = __sym0.2.clone();
        let __nt = super::__action33::<T, F>(make, input, __sym0);
        __symbols.push((__start, __Symbol::Variant5(__nt), __end));
        (1, 15)
    }
    fn __reduce23<
        'input,
        T,
        F,
    >(
        make: &F,
        input: &'input str,
        __lookahead_start: Option<&usize>,
        __symbols: &mut alloc::vec::Vec<(usize,__Symbol<'input, T>,usize)>,
        _: core::marker::PhantomData<(&'input (), T, F)>,
    ) -> (usize, usize)
    where
        F: Fn(usize) -> T,
        T: Clone,
        T: std::fmt::Debug,
    {
        // One =  => ActionFn(34);
        let __start = __lookahead_start.cloned().or_else(|| __symbols.last().map(|s| s.2.clone())).unwrap_or_default();
        let __end = __start.clone();
        let __nt = super::__action34::<T, F>(make, input, &__start, &__end);
        __symbols.push((__start, __Symbol::Variant5(__nt), __end));
        (0, 15)
    }
    fn __reduce24<
        'input,
        T,
        F,
    >(
        make: &F,
        input: &'input str,
        __lookahead_start: Option<&usize>,
        __symbols: &mut alloc::vec::Vec<(usize,__Symbol<'input, T>,usize)>,
        _: core::marker::PhantomData<(&'input (), T, F)>,
    ) -> (usize, usize)
    where
        F: Fn(usize) -> T,
        T: Clone,
        T: std::fmt::Debug,
    {
        // S =  => ActionFn(31);
        let __start = __lookahead_start.cloned().or_else(|| __symbols.last().map(|s| s.2.clone())).unwrap_or_default();
        let __end = __start.clone();
        let __nt = super::__action31::<T, F>(make, input, &__start, &__end);
        __symbols.push((__start, __Symbol::Variant6(__nt), __end));
        (0, 16)
    }
    fn __reduce25<
        'input,
        T,
        F,
    >(
        make: &F,
        input: &'input str,
        __lookahead_start: Option<&usize>,
        __symbols: &mut alloc::vec::Vec<(usize,__Symbol<'input, T>,usize)>,
        _: core::marker::PhantomData<(&'input (), T, F)>,
    ) -> (usize, usize)
    where
        F: Fn(usize) -> T,
        T: Clone,
        T: std::fmt::Debug,
    {
        // S = Item+ => ActionFn(32);
        let __sym0 = __pop_Variant2(__symbols);
        let __start = __sym0.0.clone();
        let __end = __sym0.2.clone();
        let __nt = super::__action32::<T, F>(make, input, __sym0);
        __symbols.push((__start, __Symbol::Variant6(__nt), __end));
        (1, 16)
    }
    fn __reduce27<
        'input,
        T,
        F,
    >(
        make: &F,
        input: &'input str,
        __lookahead_start: Option<&usize>,
        __symbols: &mut alloc::vec::Vec<(usize,__Symbol<'input, T>,usize)>,
        _: core::marker::PhantomData<(&'input (), T, F)>,
    ) -> (usize, usize)
    where
        F: Fn(usize) -> T,
        T: Clone,
        T: std::fmt::Debug,
    {
        // __S = S => ActionFn(0);
        let __sym0 = __pop_Variant6(__symbols);
        let __start = __sym0.0.clone();
        let __end = __sym0.2.clone();
        let __nt = super::__action0::<T, F>(make, input, __sym0);
        __symbols.push((__start, __Symbol::Variant6(__nt), __end));
        (1, 18)
    }
}
#[allow(unused_imports)]
pub use self::__parse__One::OneParser;

#[rustfmt::skip]
#[allow(explicit_outlives_requirements, non_snake_case, non_camel_case_types, unused_mut, unused_variables, unused_imports, unused_parens, clippy::needless_lifetimes, clippy::type_complexity, clippy::needless_return, clippy::too_many_arguments, clippy::match_single_binding, clippy::clone_on_copy, clippy::unit_arg)]
mod __parse__S {

    use crate::support::*;
    #[allow(unused_extern_crates)]
    extern crate lalrpop_util as __lalrpop_util;
    #[allow(unused_imports)]
    use self::__lalrpop_util::state_machine as __state_machine;
    #[allow(unused_extern_crates)]
    extern crate alloc;
    use self::__lalrpop_util::lexer::Token;
    #[allow(dead_code)]
    pub(crate) enum __Symbol<'input, T>
     where T: Clone, T: std::fmt::Debug
     {
        Variant0(&'input str),
        Variant1(usize),
        Variant2(alloc::vec::Vec<usize>),
        Variant3(Option<usize>),
        Variant4((usize, Vec<usize>)),
        Variant5(Option<T>),
        Variant6(Vec<T>),
    }
    const __ACTION: &[i8] = &[
        // State 0
        0, 7, 0, 0, 0,
        // State 1
        0, 7, 0, 0, 0,
        // State 2
        0, -11, 0, 0, 0,
        // State 3
        9, 0, 0, 0, 0,
        // State 4
        0, 0, 0, 10, 0,
        // State 5
        0, 0, 0, 0, 0,
        // State 6
        0, 0, 11, 0, 0,
        // State 7
        0, -12, 0, 0, 0,
        // State 8
        0, -8, 0, 0, 0,
        // State 9
        -15, 0, 0, 0, 0,
        // State 10
        0, 0, 0, -22, 0,
    ];
    fn __action(state: i8, integer: usize) -> i8 {
        __ACTION[(state as usize) * 5 + integer]
    }
    const __EOF_ACTION: &[i8] = &[
        // State 0
        -25,
        // State 1
        -26,
        // State 2
        -11,
        // State 3
        0,
        // State 4
        0,
        // State 5
        -28,
        // State 6
        0,
        // State 7
        -12,
        // State 8
        -8,
        // State 9
        0,
        // State 10
        0,
    ];
    fn __goto(state: i8, nt: usize) -> i8 {
        match nt {
            5 => match state {
                1 => 7,
                _ => 2,
            },
            7 => 1,
            9 => 3,
            14 => 4,
            16 => 5,
            _ => 0,
        }
    }
    #[allow(clippy::needless_raw_string_hashes)]
    const __TERMINAL: &[&str] = &[
        r###"",""###,
        r###""a""###,
        r###""b""###,
        r###""c""###,
        r###""d""###,
    ];
    fn __expected_tokens(__state: i8) -> alloc::vec::Vec<alloc::string::String> {
        __TERMINAL.iter().enumerate().filter_map(|(index, terminal)| {
            let next_state = __action(__state, index);
            if next_state == 0 {
                None
            } else {
                Some(alloc::string::ToString::to_string(terminal))
            }
        }).collect()
    }
    fn __expected_tokens_from_states<
        'input,
        '__3,
        T,
        F,
    >(
        __states: &[i8],
        _: core::marker::PhantomData<(&'input (), T, F)>,
    ) -> alloc::vec::Vec<alloc::string::String>
    where
        F: Fn(usize) -> T,
        T: Clone,
        T: std::fmt::Debug,
        F: '__3,
    {
        __TERMINAL.iter().enumerate().filter_map(|(index, terminal)| {
            if __accepts(None, __states, Some(index), core::marker::PhantomData::<(&(), T, F)>) {
                Some(alloc::string::ToString::to_string(terminal))
            } else {
                None
            }
        }).collect()
    }
    struct __StateMachine<'input, '__3, T, F>
    where F: Fn(usize) -> T, T: Clone, T: std::fmt::Debug, F: '__3
    {
        make: &'__3 F,
        input: &'input str,
        __phantom: core::marker::PhantomData<(&'input (), T, F)>,
    }
    impl<'input, '__3, T, F> __state_machine::ParserDefinition for __StateMachine<'input, '__3, T, F>
    where F: Fn(usize) -> T, T: Clone, T: std::fmt::Debug, F: '__3
    {
        type Location = usize;
        type Error = &'static str;
        type Token = Token<'input>;
        type TokenIndex = usize;
        type Symbol = __Symbol<'input, T>;
        type Success = Vec<T>;
        type StateIndex = i8;
        type Action = i8;
        type ReduceIndex = i8;
        type NonterminalIndex = usize;

        #[inline]
        fn start_location(&self) -> Self::Location {
              Default::default()
        }

        #[inline]
        fn start_state(&self) -> Self::StateIndex {
              0
        }

        #[inline]
        fn token_to_index(&self, token: &Self::Token) -> Option<usize> {
            __token_to_integer(token, core::marker::PhantomData::<(&(), T, F)>)
        }

        #[inline]
        fn action(&self, state: i8, integer: usize) -> i8 {
            __action(state, integer)
        }

        #[inline]
        fn error_action(&self, state: i8) -> i8 {
            __action(state, 5 - 1)
        }

        #[inline]
        fn eof_action(&self, state: i8) -> i8 {
            __EOF_ACTION[state as usize]
        }

        #[inline]
        fn goto(&self, state: i8, nt: usize) -> i8 {
            __goto(state, nt)
        }

        fn token_to_symbol(&self, token_index: usize, token: Self::Token) -> Self::Symbol {
            __token_to_symbol(token_index, token, core::marker::PhantomData::<(&(), T, F)>)
        }

        fn expected_tokens(&self, state: i8) -> alloc::vec::Vec<alloc::string::String> {
            __expected_tokens(state)
        }

        fn expected_tokens_from_states(&self, states: &[i8]) -> alloc::vec::Vec<alloc::string::String> {
            __expected_tokens_from_states(states, core::marker::PhantomData::<(&(), T, F)>)
        }

        #[inline]
        fn uses_error_recovery(&self) -> bool {
            false
        }

        #[inline]
        fn error_recovery_symbol(
            &self,
            recovery: __state_machine::ErrorRecovery<Self>,
        ) -> Self::Symbol {
            panic!("error recovery not enabled for this grammar")
        }

        fn reduce(
            &mut self,
            action: i8,
            start_location: Option<&Self::Location>,
            states: &mut alloc::vec::Vec<i8>,
            symbols: &mut alloc::vec::Vec<__state_machine::SymbolTriple<Self>>,
        ) -> Option<__state_machine::ParseResult<Self>> {
            __reduce(
                self.make,
                self.input,
                action,
                start_location,
                states,
                symbols,
                core::marker::PhantomData::<(&(), T, F)>,
            )
        }

        fn simulate_reduce(&self, action: i8) -> __state_machine::SimulatedReduce<Self> {
            __simulate_reduce(action, core::marker::PhantomData::<(&(), T, F)>)
        }
    }
    fn __token_to_integer<
        'input,
        T,
        F,
    >(
        __token: &Token<'input>,
        _: core::marker::PhantomData<(&'input (), T, F)>,
    ) -> Option<usize>
    where
        F: Fn(usize) -> T,
        T: Clone,
        T: std::fmt::Debug,
    {
        #[warn(unused_variables)]
        match __token {
            Token(0, _) if true => Some(0),
            Token(1, _) if true => Some(1),
            Token(2, _) if true => Some(2),
            Token(3, _) if true => Some(3),
            Token(4, _) if true => Some(4),
            _ => None,
        }
    }
    fn __token_to_symbol<
        'input,
        T,
        F,
    >(
        __token_index: usize,
        __token: Token<'input>,
        _: core::marker::PhantomData<(&'input (), T, F)>,
    ) -> __Symbol<'input, T>
    where
        F: Fn(usize) -> T,
        T: Clone,
        T: std::fmt::Debug,
    {
        #[allow(clippy::manual_range_patterns)]match __token_index {
            0 | 1 | 2 | 3 | 4 => match __token {
                Token(0, __tok0) | Token(1, __tok0) | Token(2, __tok0) | Token(3, __tok0) | Token(4, __tok0) if true => __Symbol::Variant0(__tok0),
                _ => unreachable!(),
            },
            _ => unreachable!(),
        }
    }
    fn __simulate_reduce<
        'input,
        '__3,
        T,
        F,
    >(
        __reduce_index: i8,
        _: core::marker::PhantomData<(&'input (), T, F)>,
    ) -> __state_machine::SimulatedReduce<__StateMachine<'input, '__3, T, F>>
    where
        F: Fn(usize) -> T,
        T: Clone,
        T: std::fmt::Debug,
        F: '__3,
    {
        match __reduce_index {
            0 => {
                __state_machine::SimulatedReduce::Reduce {
                    states_to_pop: 2,
                    nonterminal_produced: 0,
                }
            }
            1 => {
                __state_machine::SimulatedReduce::Reduce {
                    states_to_pop: 0,
                    nonterminal_produced: 1,
                }
            }
            2 => {
                __state_machine::SimulatedReduce::Reduce {
                    states_to_pop: 1,
                    nonterminal_produced: 1,
                }
            }
            3 => {
                __state_machine::SimulatedReduce::Reduce {
                    states_to_pop: 2,
                    nonterminal_produced: 2,
                }
            }
            4 => {
                __state_machine::SimulatedReduce::Reduce {
                    states_to_pop: 3,
                    nonterminal_produced: 2,
                }
            }
            5 => {
                __state_machine::SimulatedReduce::Reduce {
                    states_to_pop: 0,
                    nonterminal_produced: 3,
                }
            }
            6 => {
                __state_machine::SimulatedReduce::Reduce {
                    states_to_pop: 0,
                    nonterminal_produced: 4,
                }
            }
            7 => {
                __state_machine::SimulatedReduce::Reduce {
                    states_to_pop: 2,
                    nonterminal_produced: 5,
                }
            }
            8 => {
                __state_machine::SimulatedReduce::Reduce {
                    states_to_pop: 0,
                    nonterminal_produced: 6,
                }
            }
            9 => {
                __state_machine::SimulatedReduce::Reduce {
                    states_to_pop: 1,
                    nonterminal_produced: 6,
                }
            }
            10 => {
                __state_machine::SimulatedReduce::Reduce {
                    states_to_pop: 1,
                    nonterminal_produced: 7,
                }
            }
            11 => {
                __state_machine::SimulatedReduce::Reduce {
                    states_to_pop: 2,
                    nonterminal_produced: 7,
                }
            }
            12 => {
                __state_machine::SimulatedReduce::Reduce {
                    states_to_pop: 1,
                    nonterminal_produced: 8,
                }
            }
            13 => {
                __state_machine::SimulatedReduce::Reduce {
                    states_to_pop: 0,
                    nonterminal_produced: 8,
                }
            }
            14 => {
                __state_machine::SimulatedReduce::Reduce {
                    states_to_pop: 2,
                    nonterminal_produced: 9,
                }
            }
            15 => {
                __state_machine::SimulatedReduce::Reduce {
                    states_to_pop: 0,
                    nonterminal_produced: 10,
                }
            }
            16 => {
                __state_machine::SimulatedReduce::Reduce {
                    states_to_pop: 1,
                    nonterminal_produced: 10,
                }
            }
            17 => {
                __state_machine::SimulatedReduce::Reduce {
                    states_to_pop: 2,
                    nonterminal_produced: 11,
                }
            }
            18 => {
                __state_machine::SimulatedReduce::Reduce {
                    states_to_pop: 3,
                    nonterminal_produced: 12,
                }
            }
            19 => {
                __state_machine::SimulatedReduce::Reduce {
                    states_to_pop: 3,
                    nonterminal_produced: 12,
                }
            }
            20 => {
                __state_machine::SimulatedReduce::Reduce {
                    states_to_pop: 2,
                    nonterminal_produced: 13,
                }
            }
            21 => {
                __state_machine::SimulatedReduce::Reduce {
                    states_to_pop: 2,
                    nonterminal_produced: 14,
                }
            }
            22 => {
                __state_machine::SimulatedReduce::Reduce {
                    states_to_pop: 1,
                    nonterminal_produced: 15,
                }
            }
            23 => {
                __state_machine::SimulatedReduce::Reduce {
                    states_to_pop: 0,
                    nonterminal_produced: 15,
                }
            }
            24 => {
                __state_machine::SimulatedReduce::Reduce {
                    states_to_pop: 0,
                    nonterminal_produced: 16,
                }
            }
            25 => {
                __state_machine::SimulatedReduce::Reduce {
                    states_to_pop: 1,
                    nonterminal_produced: 16,
                }
            }
            26 => {
                __state_machine::SimulatedReduce::Reduce {
                    states_to_pop: 1,
                    nonterminal_produced: 17,
                }
            }
            27 => __state_machine::SimulatedReduce::Accept,
            _ => panic!("invalid reduction index {__reduce_index}")
        }
    }
    pub struct SParser {
        builder: __lalrpop_util::lexer::MatcherBuilder,
        _priv: (),
    }

    impl Default for SParser { fn default() -> Self { Self::new() } }
    impl SParser {
        pub fn new() -> SParser {
            let __builder = super::__intern_token::new_builder();
            SParser {
                builder: __builder,
                _priv: (),
            }
        }

        #[allow(dead_code)]
        pub fn parse<
            'input,
            T,
            F,
        >(
            &self,
            make: &F,
            input: &'input str,
        ) -> Result<Vec<T>, __lalrpop_util::ParseError<usize, Token<'input>, &'static str>>
        where
            F: Fn(usize) -> T,
            T: Clone,
            T: std::fmt::Debug,
        {
            let mut __tokens = self.builder.matcher(input);
            __state_machine::Parser::drive(
                __StateMachine {
                    make,
                    input,
                    __phantom: core::marker::PhantomData::<(&(), T, F)>,
                },
                __tokens,
            )
        }
    }
    fn __accepts<
        'input,
        '__3,
        T,
        F,
    >(
        __error_state: Option<i8>,
        __states: &[i8],
        __opt_integer: Option<usize>,
        _: core::marker::PhantomData<(&'input (), T, F)>,
    ) -> bool
    where
        F: Fn(usize) -> T,
        T: Clone,
        T: std::fmt::Debug,
        F: '__3,
    {
        let mut __states = __states.to_vec();
        __states.extend(__error_state);
        loop {
            let mut __states_len = __states.len();
            let __top = __states[__states_len - 1];
            let __action = match __opt_integer {
                None => __EOF_ACTION[__top as usize],
                Some(__integer) => __action(__top, __integer),
            };
            if __action == 0 { return false; }
            if __action > 0 { return true; }
            let (__to_pop, __nt) = match __simulate_reduce(-(__action + 1), core::marker::PhantomData::<(&(), T, F)>) {
                __state_machine::SimulatedReduce::Reduce {
                    states_to_pop, nonterminal_produced
                } => (states_to_pop, nonterminal_produced),
                __state_machine::SimulatedReduce::Accept => return true,
            };
            __states_len -= __to_pop;
            __states.truncate(__states_len);
            let __top = __states[__states_len - 1];
            let __next_state = __goto(__top, __nt);
            __states.push(__next_state);
        }
    }
    fn __reduce<
        'input,
        T,
        F,
    >(
        make: &F,
        input: &'input str,
        __action: i8,
        __lookahead_start: Option<&usize>,
        __states: &mut alloc::vec::Vec<i8>,
        __symbols: &mut alloc::vec::Vec<(usize,__Symbol<'input, T>,usize)>,
        _: core::marker::PhantomData<(&'input (), T, F)>,
    ) -> Option<Result<Vec<T>,__lalrpop_util::ParseError<usize, Token<'input>, &'static str>>>
    where
        F: Fn(usize) -> T,
        T: Clone,
        T: std::fmt::Debug,
    {
        let (__pop_states, __nonterminal) = match __action {
            0 => {
                __reduce0(make, input, __lookahead_start, __symbols, core::marker::PhantomData::<(&(), T, F)>)
            }
            1 => {
                __reduce1(make, input, __lookahead_start, __symbols, core::marker::PhantomData::<(&(), T, F)>)
            }
            2 => {
                __reduce2(make, input, __lookahead_start, __symbols, core::marker::PhantomData::<(&(), T, F)>)
            }
            3 => {
                __reduce3(make, input, __lookahead_start, __symbols, core::marker::PhantomData::<(&(), T, F)>)
            }
            4 => {
                __reduce4(make, input, __lookahead_start, __symbols, core::marker::PhantomData::<(&(), T, F)>)
            }
            5 => {
                __reduce5(make, input, __lookahead_start, __symbols, core::marker::PhantomData::<(&(), T, F)>)
            }
            6 => {
                __reduce6(make, input, __lookahead_start, __symbols, core::marker::PhantomData::<(&(), T, F)>)
            }
            7 => {
                __reduce7(make, input, __lookahead_start, __symbols, core::marker::PhantomData::<(&(), T, F)>)
            }
            8 => {
                __reduce8(make, input, __lookahead_start, __symbols, core::marker::PhantomData::<(&(), T, F)>)
            }
            9 => {
                __reduce9(make, input, __lookahead_start, __symbols, core::marker::PhantomData::<(&(), T, F)>)
            }
            10 => {
                __reduce10(make, input, __lookahead_start, __symbols, core::marker::PhantomData::<(&(), T, F)>)
            }
            11 => {
                __reduce11(make, input, __lookahead_start, __symbols, core::marker::PhantomData::<(&(), T, F)>)
            }
            12 => {
                __reduce12(make, input, __lookahead_start, __symbols, core::marker::PhantomData::<(&(), T, F)>)
            }
            13 => {
                __reduce13(make, input, __lookahead_start, __symbols, core::marker::PhantomData::<(&(), T, F)>)
            }
            14 => {
                __reduce14(make, input, __lookahead_start, __symbols, core::marker::PhantomData::<(&(), T, F)>)
            }
            15 => {
                __reduce15(make, input, __lookahead_start, __symbols, core::marker::PhantomData::<(&(), T, F)>)
            }
            16 => {
                __reduce16(make, input, __lookahead_start, __symbols, core::marker::PhantomData::<(&(), T, F)>)
            }
            17 => {
                __reduce17(make, input, __lookahead_start, __symbols, core::marker::PhantomData::<(&(), T, F)>)
            }
            18 => {
                __reduce18(make, input, __lookahead_start, __symbols, core::marker::PhantomData::<(&(), T, F)>)
            }
            19 => {
                __reduce19(make, input, __lookahead_start, __symbols, core::marker::PhantomData::<(&(), T, F)>)
            }
            20 => {
                __reduce20(make, input, __lookahead_start, __symbols, core::marker::PhantomData::<(&(), T, F)>)
            }
            21 => {
                __reduce21(make, input, __lookahead_start, __symbols, core::marker::PhantomData::<(&(), T, F)>)
            }
            22 => {
                __reduce22(make, input, __lookahead_start, __symbols, core::marker::PhantomData::<(&(), T, F)>)
            }
            23 => {
                __reduce23(make, input, __lookahead_start, __symbols, core::marker::PhantomData::<(&(), T, F)>)
            }
            24 => {
                __reduce24(make, input, __lookahead_start, __symbols, core::marker::PhantomData::<(&(), T, F)>)
            }
            25 => {
                __reduce25(make, input, __lookahead_start, __symbols, core::marker::PhantomData::<(&(), T, F)>)
            }
            26 => {
                __reduce26(make, input, __lookahead_start, __symbols, core::marker::PhantomData::<(&(), T, F)>)
            }
            27 => {
                // __S = S => ActionFn(0);
                let __sym0 = __pop_Variant6(__symbols);
                let __start = __sym0.0.clone();
                let __end = __sym0.2.clone();
                let __nt = super::__action0::<T, F>(make, input, __sym0);
                return Some(Ok(__nt));
            }
            _ => panic!("invalid action code {__action}")
        };
        let __states_len = __states.len();
        __states.truncate(__states_len - __pop_states);
        let __state = *__states.last().unwrap();
        let __next_state = __goto(__state, __nonterminal);
        __states.push(__next_state);
        None
    }
    #[inline(never)]
    fn __symbol_type_mismatch() -> ! {
        panic!("symbol type mismatch")
    }
    fn __pop_Variant4<
      'input,
      T,
    >(
        __symbols: &mut alloc::vec::Vec<(usize,__Symbol<'input, T>,usize)>
    ) -> (usize, (usize, Vec<usize>), usize)
     where T: Clone, T: std::fmt::Debug
     {
        match __symbols.pop() {
            Some((__l, __Symbol::Variant4(__v), __r)) => (__l, __v, __r),
            _ => __symbol_type_mismatch()
        }
    }
    fn __pop_Variant5<
      'input,
      T,
    >(
        __symbols: &mut alloc::vec::Vec<(usize,__Symbol<'input, T>,usize)>
    ) -> (usize, Option<T>, usize)
     where T: Clone, T: std::fmt::Debug
     {
        match __symbols.pop() {
            Some((__l, __Symbol::Variant5(__v), __r)) => (__l, __v, __r),
            _ => __symbol_type_mismatch()
        }
    }
    fn __pop_Variant3<
      'input,
      T,
    >(
        __symbols: &mut alloc::vec::Vec<(usize,__Symbol<'input, T>,usize)>
    ) -> (usize, Option<usize>, usize)
     where T: Clone, T: std::fmt::Debug
     {
        match __symbols.pop() {
            Some((__l, __Symbol::Variant3(__v), __r)) => (__l, __v, __r),
            _ => __symbol_type_mismatch()
        }
    }
    fn __pop_Variant6<
      'input,
      T,
    >(
        __symbols: &mut alloc::vec::Vec<(usize,__Symbol<'input, T>,usize)>
    ) -> (usize, Vec<T>, usize)
     where T: Clone, T: std::fmt::Debug
     {
        match __symbols.pop() {
            Some((__l, __Symbol::Variant6(__v), __r)) => (__l, __v, __r),
            _ => __symbol_type_mismatch()
        }
    }
    fn __pop_Variant2<
      'input,
      T,
    >(
        __symbols: &mut alloc::vec::Vec<(usize,__Symbol<'input, T>,usize)>
    ) -> (usize, alloc::vec::Vec<usize>, usize)
     where T: Clone, T: std::fmt::Debug
     {
        match __symbols.pop() {
            Some((__l, __Symbol::Variant2(__v), __r)) => (__l, __v, __r),
            _ => __symbol_type_mismatch()
        }
    }
    fn __pop_Variant1<
      'input,
      T,
    >(
        __symbols: &mut alloc::vec::Vec<(usize,__Symbol<'input, T>,usize)>
    ) -> (usize, usize, usize)
     where T: Clone, T: std::fmt::Debug
     {
        match __symbols.pop() {
            Some((__l, __Symbol::Variant1(__v), __r)) => (__l, __v, __r),
            _ => __symbol_type_mismatch()
        }
    }
    fn __pop_Variant0<
      'input,
      T,
    >(
        __symbols: &mut alloc::vec::Vec<(usize,__Symbol<'input, T>,usize)>
    ) -> (usize, &'input str, usize)
     where T: Clone, T: std::fmt::Debug
     {
        match __symbols.pop() {
            Some((__l, __Symbol::Variant0(__v), __r)) => (__l, __v, __r),
            _ => __symbol_type_mismatch()
        }
    }
    fn __reduce0<
        'input,
        T,
        F,
    >(
        make: &F,
        input: &'input str,
        __lookahead_start: Option<&usize>,
        __symbols: &mut alloc::vec::Vec<(usize,__Symbol<'input, T>,usize)>,
        _: core::marker::PhantomData<(&'input (), T, F)>,
    ) -> (usize, usize)
    where
        F: Fn(usize) -> T,
        T: Clone,
        T: std::fmt::Debug,
    {
        // ("c" <N2>) = "c", N2 => ActionFn(14);
        assert!(__symbols.len() >= 2);
        let __sym1 = __pop_Variant1(__symbols);
        let __sym0 = __pop_Variant0(__symbols);
        let __start = __sym0.0.clone();
        let __end = __sym1.2.clone();
        let __nt = super::__action14::<T, F>(make, input, __sym0, __sym1);
        __symbols.push((__start, __Symbol::Variant1(__nt), __end));
        (2, 0)
    }
    fn __reduce1<
        'input,
        T,
        F,
    >(
        make: &F,
        input: &'input str,
        __lookahead_start: Option<&usize>,
        __symbols: &mut alloc::vec::Vec<(usize,__Symbol<'input, T>,usize)>,
        _: core::marker::PhantomData<(&'input (), T, F)>,
    ) -> (usize, usize)
    where
        F: Fn(usize) -> T,
        T: Clone,
        T: std::fmt::Debug,
    {
        // ("c" <N2>)* =  => ActionFn(12);
        let __start = __lookahead_start.cloned().or_else(|| __symbols.last().map(|s| s.2.clone())).unwrap_or_default();
        let __end = __start.clone();
        let __nt = super::__action12::<T, F>(make, input, &__start, &__end);
        __symbols.push((__start, __Symbol::Variant2(__nt), __end));
        (0, 1)
    }
    fn __reduce2<
        'input,
        T,
        F,
    >(
        make: &F,
        input: &'input str,
        __lookahead_start: Option<&usize>,
        __symbols: &mut alloc::vec::Vec<(usize,__Symbol<'input, T>,usize)>,
        _: core::marker::PhantomData<(&'input (), T, F)>,
    ) -> (usize, usize)
    where
        F: Fn(usize) -> T,
        T: Clone,
        T: std::fmt::Debug,
    {
        // ("c" <N2>)* = ("c" <N2>)+ => ActionFn(13);
        let __sym0 = __pop_Variant2(__symbols);
        let __start = __sym0.0.clone();
        let __end = __sym0.2.clone();
        let __nt = super::__action13::<T, F>(make, input, __sym0);
        __symbols.push((__start, __Symbol::Variant2(__nt), __end));
        (1, 1)
    }
    fn __reduce3<
        'input,
        T,
        F,
    >(
        make: &F,
        input: &'input str,
        __lookahead_start: Option<&usize>,
        __symbols: &mut alloc::vec::Vec<(usize,__Symbol<'input, T>,usize)>,
        _: core::marker::PhantomData<(&'input (), T, F)>,
    ) -> (usize, usize)
    where
        F: Fn(usize) -> T,
        T: Clone,
        T: std::fmt::Debug,
    {
        // ("c" <N2>)+ = "c", N2 => ActionFn(25);
        assert!(__symbols.len() >= 2);
        let __sym1 = __pop_Variant1(__symbols);
        let __sym0 = __pop_Variant0(__symbols);
        let __start = __sym0.0.clone();
        let __end = __sym1.2.clone();
        let __nt = super::__action25::<T, F>(make, input, __sym0, __sym1);
        __symbols.push((__start, __Symbol::Variant2(__nt), __end));
        (2, 2)
    }
    fn __reduce4<
        'input,
        T,
        F,
    >(
        make: &F,
        input: &'input str,
        __lookahead_start: Option<&usize>,
        __symbols: &mut alloc::vec::Vec<(usize,__Symbol<'input, T>,usize)>,
        _: core::marker::PhantomData<(&'input (), T, F)>,
    ) -> (usize, usize)
    where
        F: Fn(usize) -> T,
        T: Clone,
        T: std::fmt::Debug,
    {
        // ("c" <N2>)+ = ("c" <N2>)+, "c", N2 => ActionFn(26);
        assert!(__symbols.len() >= 3);
        let __sym2 = __pop_Variant1(__symbols);
        let __sym1 = __pop_Variant0(__symbols);
        let __sym0 = __pop_Variant2(__symbols);
        let __start = __sym0.0.clone();
        let __end = __sym2.2.clone();
        let __nt = super::__action26::<T, F>(make, input, __sym0, __sym1, __sym2);
        __symbols.push((__start, __Symbol::Variant2(__nt), __end));
        (3, 2)
    }
    fn __reduce5<
        'input,
        T,
        F,
    >(
        make: &F,
        input: &'input str,
        __lookahead_start: Option<&usize>,
        __symbols: &mut alloc::vec::Vec<(usize,__Symbol<'input, T>,usize)>,
        _: core::marker::PhantomData<(&'input (), T, F)>,
    ) -> (usize, usize)
    where
        F: Fn(usize) -> T,
        T: Clone,
        T: std::fmt::Debug,
    {
        // @L =  => ActionFn(20);
        let __start = __lookahead_start.cloned().or_else(|| __symbols.last().map(|s| s.2.clone())).unwrap_or_default();
        let __end = __start.clone();
        let __nt = super::__action20::<T, F>(make, input, &__start, &__end);
        __symbols.push((__start, __Symbol::Variant1(__nt), __end));
        (0, 3)
    }
    fn __reduce6<
        'input,
        T,
        F,
    >(
        make: &F,
        input: &'input str,
        __lookahead_start: Option<&usize>,
        __symbols: &mut alloc::vec::Vec<(usize,__Symbol<'input, T>,usize)>,
        _: core::marker::PhantomData<(&'input (), T, F)>,
    ) -> (usize, usize)
    where
        F: Fn(usize) -> T,
        T: Clone,
        T: std::fmt::Debug,
    {
        // @R =  => ActionFn(17);
        let __start = __lookahead_start.cloned().or_else(|| __symbols.last().map(|s| s.2.clone())).unwrap_or_default();
        let __end = __start.clone();
        let __nt = super::__action17::<T, F>(make, input, &__start, &__end);
        __symbols.push((__start, __Symbol::Variant1(__nt), __end));
        (0, 4)
    }
    fn __reduce7<
        'input,
        T,
        F,
    >(
        make: &F,
        input: &'input str,
        __lookahead_start: Option<&usize>,
        __symbols: &mut alloc::vec::Vec<(usize,__Symbol<'input, T>,usize)>,
        _: core::marker::PhantomData<(&'input (), T, F)>,
    ) -> (usize, usize)
    where
        F: Fn(usize) -> T,
        T: Clone,
        T: std::fmt::Debug,
    {
        // Item = N0, "," => ActionFn(4);
        assert!(__symbols.len() >= 2);
        let __sym1 = __pop_Variant0(__symbols);
        let __sym0 = __pop_Variant0(__symbols);
        let __start = __sym0.0.clone();
        let __end = __sym1.2.clone();
        let __nt = super::__action4::<T, F>(make, input, __sym0, __sym1);
        __symbols.push((__start, __Symbol::Variant1(__nt), __end));
        (2, 5)
    }
    fn __reduce8<
        'input,
        T,
        F,
    >(
        make: &F,
        input: &'input str,
        __lookahead_start: Option<&usize>,
        __symbols: &mut alloc::vec::Vec<(usize,__Symbol<'input, T>,usize)>,
        _: core::marker::PhantomData<(&'input (), T, F)>,
    ) -> (usize, usize)
    where
        F: Fn(usize) -> T,
        T: Clone,
        T: std::fmt::Debug,
    {
        // Item* =  => ActionFn(18);
        let __start = __lookahead_start.cloned().or_else(|| __symbols.last().map(|s| s.2.clone())).unwrap_or_default();
        let __end = __start.clone();
        let __nt = super::__action18::<T, F>(make, input, &__start, &__end);
        __symbols.push((__start, __Symbol::Variant2(__nt), __end));
        (0, 6)
    }
    fn __reduce9<
        'input,
        T,
        F,
    >(
        make: &F,
        input: &'input str,
        __lookahead_start: Option<&usize>,
        __symbols: &mut alloc::vec::Vec<(usize,__Symbol<'input, T>,usize)>,
        _: core::marker::PhantomData<(&'input (), T, F)>,
    ) -> (usize, usize)
    where
        F: Fn(usize) -> T,
        T: Clone,
        T: std::fmt::Debug,
    {
        // Item* = Item+ => ActionFn(19);
        let __sym0 = __pop_Variant2(__symbols);
        let __start = __sym0.0.clone();
        let __end = __sym0.2.clone();
        let __nt = super::__action19::<T, F>(make, input, __sym0);
        __symbols.push((__start, __Symbol::Variant2(__nt), __end));
        (1, 6)
    }
    fn __reduce10<
        'input,
        T,
        F,
    >(
        make: &F,
        input: &'input str,
        __lookahead_start: Option<&usize>,
        __symbols: &mut alloc::vec::Vec<(usize,__Symbol<'input, T>,usize)>,
        _: core::marker::PhantomData<(&'input (), T, F)>,
    ) -> (usize, usize)
    where
        F: Fn(usize) -> T,
        T: Clone,
        T: std::fmt::Debug,
    {
        // Item+ = Item => ActionFn(21);
        let __sym0 = __pop_Variant1(__symbols);
        let __start = __sym0.0.clone();
        let __end = __sym0.2.clone();
        let __nt = super::__action21::<T, F>(make, input, __sym0);
        __symbols.push((__start, __Symbol::Variant2(__nt), __end));
        (1, 7)
    }
    fn __reduce11<
        'input,
        T,
        F,
    >(
        make: &F,
        input: &'input str,
        __lookahead_start: Option<&usize>,
        __symbols: &mut alloc::vec::Vec<(usize,__Symbol<'input, T>,usize)>,
        _: core::marker::PhantomData<(&'input (), T, F)>,
    ) -> (usize, usize)
    where
        F: Fn(usize) -> T,
        T: Clone,
        T: std::fmt::Debug,
    {
        // Item+ = Item+, Item => ActionFn(22);
        assert!(__symbols.len() >= 2);
        let __sym1 = __pop_Variant1(__symbols);
        let __sym0 = __pop_Variant2(__symbols);
        let __start = __sym0.0.clone();
        let __end = __sym1.2.clone();
        let __nt = super::__action22::<T, F>(make, input, __sym0, __sym1);
        __symbols.push((__start, __Symbol::Variant2(__nt), __end));
        (2, 7)
    }
    fn __reduce12<
        'input,
        T,
        F,
    >(
        make: &F,
        input: &'input str,
        __lookahead_start: Option<&usize>,
        __symbols: &mut alloc::vec::Vec<(usize,__Symbol<'input, T>,usize)>,
        _: core::marker::PhantomData<(&'input (), T, F)>,
    ) -> (usize, usize)
    where
        F: Fn(usize) -> T,
        T: Clone,
        T: std::fmt::Debug,
    {
        // Item? = Item => ActionFn(15);
        let __sym0 = __pop_Variant1(__symbols);
        let __start = __sym0.0.clone();
        let __end = __sym0.2.clone();
        let __nt = super::__action15::<T, F>(make, input, __sym0);
        __symbols.push((__start, __Symbol::Variant3(__nt), __end));
        (1, 8)
    }
    fn __reduce13<
        'input,
        T,
        F,
    >(
        make: &F,
        input: &'input str,
        __lookahead_start: Option<&usize>,
        __symbols: &mut alloc::vec::Vec<(usize,__Symbol<'input, T>,usize)>,
        _: core::marker::PhantomData<(&'input (), T, F)>,
    ) -> (usize, usize)
    where
        F: Fn(usize) -> T,
        T: Clone,
        T: std::fmt::Debug,
    {
        // Item? =  => ActionFn(16);
        let __start = __lookahead_start.cloned().or_else(|| __symbols.last().map(|s| s.2.clone())).unwrap_or_default();
        let __end = __start.clone();
        let __nt = super::__action16::<T, F>(make, input, &__start, &__end);
        __symbols.push((__start, __Symbol::Variant3(__nt), __end));
        (0, 8)
    }
    fn __reduce14<
        'input,
        T,
        F,
    >(
        make: &F,
        input: &'input str,
        __lookahead_start: Option<&usize>,
        __symbols: &mut alloc::vec::Vec<(usize,__Symbol<'input, T>,usize)>,
        _: core::marker::PhantomData<(&'input (), T, F)>,
    ) -> (usize, usize)
    where
        F: Fn(usize) -> T,
        T: Clone,
        T: std::fmt::Debug,
    {
        // N0 = N5, "c" => ActionFn(5);
        assert!(__symbols.len() >= 2);
        let __sym1 = __pop_Variant0(__symbols);
        let __sym0 = __pop_Variant0(__symbols);
        let __start = __sym0.0.clone();
        let __end = __sym1.2.clone();
        let __nt = super::__action5::<T, F>(make, input, __sym0, __sym1);
        __symbols.push((__start, __Symbol::Variant0(__nt), __end));
        (2, 9)
    }
    fn __reduce15<
        'input,
        T,
        F,
    >(
        make: &F,
        input: &'input str,
        __lookahead_start: Option<&usize>,
        __symbols: &mut alloc::vec::Vec<(usize,__Symbol<'input, T>,usize)>,
        _: core::marker::PhantomData<(&'input (), T, F)>,
    ) -> (usize, usize)
    where
        F: Fn(usize) -> T,
        T: Clone,
        T: std::fmt::Debug,
    {
        // N1 =  => ActionFn(27);
        let __start = __lookahead_start.cloned().or_else(|| __symbols.last().map(|s| s.2.clone())).unwrap_or_default();
        let __end = __start.clone();
        let __nt = super::__action27::<T, F>(make, input, &__start, &__end);
        __symbols.push((__start, __Symbol::Variant4(__nt), __end));
        (0, 10)
    }
    fn __reduce16<
        'input,
        T,
        F,
    >(
        make: &F,
        input: &'input str,
        __lookahead_start: Option<&usize>,
        __symbols: &mut alloc::vec::Vec<(usize,__Symbol<'input, T>,usize)>,
        _: core::marker::PhantomData<(&'input (), T, F)>,
    ) -> (usize, usize)
    where
        F: Fn(usize) -> T,
        T: Clone,
        T: std::fmt::Debug,
    {
        // N1 = ("c" <N2>)+ => ActionFn(28);
        let __sym0 = __pop_Variant2(__symbols);
        let __start = __sym0.0.clone();
        let __end = __sym0.2.clone();
        let __nt = super::__action28::<T, F>(make, input, __sym0);
        __symbols.push((__start, __Symbol::Variant4(__nt), __end));
        (1, 10)
    }
    fn __reduce17<
        'input,
        T,
        F,
    >(
        make: &F,
        input: &'input str,
        __lookahead_start: Option<&usize>,
        __symbols: &mut alloc::vec::Vec<(usize,__Symbol<'input, T>,usize)>,
        _: core::marker::PhantomData<(&'input (), T, F)>,
    ) -> (usize, usize)
    where
        F: Fn(usize) -> T,
        T: Clone,
        T: std::fmt::Debug,
    {
        // N2 = N3, "c" => ActionFn(7);
        assert!(__symbols.len() >= 2);
        let __sym1 = __pop_Variant0(__symbols);
        let __sym0 = __pop_Variant1(__symbols);
        let __start = __sym0.0.clone();
        let __end = __sym1.2.clone();
        let __nt = super::__action7::<T, F>(make, input, __sym0, __sym1);
        __symbols.push((__start, __Symbol::Variant1(__nt), __end));
        (2, 11)
    }
    fn __reduce18<
        'input,
        T,
        F,
    >(
        make: &F,
        input: &'input str,
        __lookahead_start: Option<&usize>,
        __symbols: &mut alloc::vec::Vec<(usize,__Symbol<'input, T>,usize)>,
        _: core::marker::PhantomData<(&'input (), T, F)>,
    ) -> (usize, usize)
    where
        F: Fn(usize) -> T,
        T: Clone,
        T: std::fmt::Debug,
    {
        // N3 = N5, "c", N5 => ActionFn(8);
        assert!(__symbols.len() >= 3);
        let __sym2 = __pop_Variant0(__symbols);
        let __sym1 = __pop_Variant0(__symbols);
        let __sym0 = __pop_Variant0(__symbols);
        let __start = __sym0.0.clone();
        let __end = __sym2.2.clone();
        let __nt = super::__action8::<T, F>(make, input, __sym0, __sym1, __sym2);
        __symbols.push((__start, __Symbol::Variant1(__nt), __end));
        (3, 12)
    }
    fn __reduce19<
        'input,
        T,
        F,
    >(
        make: &F,
        input: &'input str,
        __lookahead_start: Option<&usize>,
        __symbols: &mut alloc::vec::Vec<(usize,__Symbol<'input, T>,usize)>,
        _: core::marker::PhantomData<(&'input (), T, F)>,
    ) -> (usize, usize)
    where
        F: Fn(usize) -> T,
        T: Clone,
        T: std::fmt::Debug,
    {
        // N3 = "d", N3, "d" => ActionFn(9);
        assert!(__symbols.len() >= 3);
        let __sym2 = __pop_Variant0(__symbols);
        let __sym1 = __pop_Variant1(__symbols);
        let __sym0 = __pop_Variant0(__symbols);
        let __start = __sym0.0.clone();
        let __end = __sym2.2.clone();
        let __nt = super::__action9::<T, F>(make, input, __sym0, __sym1, __sym2);
        __symbols.push((__start, __Symbol::Variant1(__nt), __end));
        (3, 12)
    }
    fn __reduce20<
        'input,
        T,
        F,
    >(
        make: &F,
        input: &'input str,
        __lookahead_start: Option<&usize>,
        __symbols: &mut alloc::vec::Vec<(usize,__Symbol<'input, T>,usize)>,
        _: core::marker::PhantomData<(&'input (), T, F)>,
    ) -> (usize, usize)
    where
        F: Fn(usize) -> T,
        T: Clone,
        T: std::fmt::Debug,
    {
        // N4 = N5, "c" => ActionFn(10);
        assert!(__symbols.len() >= 2);
        let __sym1 = __pop_Variant0(__symbols);
        let __sym0 = __pop_Variant0(__symbols);
        let __start = __sym0.0.clone();
        let __end = __sym1.2.clone();
        let __nt = super::__action10::<T, F>(make, input, __sym0, __sym1);
        __symbols.push((__start, __Symbol::Variant0(__nt), __end));
        (2, 13)
    }
    fn __reduce21<
        'input,
        T,
        F,
    >(
        make: &F,
        input: &'input str,
        __lookahead_start: Option<&usize>,
        __symbols: &mut alloc::vec::Vec<(usize,__Symbol<'input, T>,usize)>,
        _: core::marker::PhantomData<(&'input (), T, F)>,
    ) -> (usize, usize)
    where
        F: Fn(usize) -> T,
        T: Clone,
        T: std::fmt::Debug,
    {
        // N5 = "a", "b" => ActionFn(11);
        assert!(__symbols.len() >= 2);
        let __sym1 = __pop_Variant0(__symbols);
        let __sym0 = __pop_Variant0(__symbols);
        let __start = __sym0.0.clone();
        let __end = __sym1.2.clone();
        let __nt = super::__action11::<T, F>(make, input, __sym0, __sym1);
        __symbols.push((__start, __Symbol::Variant0(__nt), __end));
        (2, 14)
    }
    fn __reduce22<
        'input,
        T,
        F,
    >(
        make: &F,
        input: &'input str,
        __lookahead_start: Option<&usize>,
        __symbols: &mut alloc::vec::Vec<(usize,__Symbol<'input, T>,usize)>,
        _: core::marker::PhantomData<(&'input (), T, F)>,
    ) -> (usize, usize)
    where
        F: Fn(usize) -> T,
        T: Clone,
        T: std::fmt::Debug,
    {
        // One = Item => ActionFn(33);
        let __sym0 = __pop_Variant1(__symbols);
        let __start = __sym0.0.clone();
        let __end = __sym0.2.clone();
        let __nt = super::__action33::<T, F>(make, input, __sym0);
        __symbols.push((__start, __Symbol::Variant5(__nt), __end));
        (1, 15)
    }
    fn __reduce23<
        'input,
        T,
        F,
    >(
        make: &F,
        input: &'input str,
        __lookahead_start: Option<&usize>,
        __symbols: &mut alloc::vec::Vec<(usize,__Symbol<'input, T>,usize)>,
        _: core::marker::PhantomData<(&'input (), T, F)>,
    ) -> (usize, usize)
    where
        F: Fn(usize) -> T,
        T: Clone,
        T: std::fmt::Debug,
    {
        // One =  => ActionFn(34);
        let __start = __lookahead_start.cloned().or_else(|| __symbols.last().map(|s| s.2.clone())).unwrap_or_default();
        let __end = __start.clone();
        let __nt = super::__action34::<T, F>(make, input, &__start, &__end);
        __symbols.push((__start, __Symbol::Variant5(__nt), __end));
        (0, 15)
    }
    fn __reduce24<
        'input,
        T,
        F,
    >(
        make: &F,
        input: &'input str,
        __lookahead_start: Option<&usize>,
        __symbols: &mut alloc::vec::Vec<(usize,__Symbol<'input, T>,usize)>,
        _: core::marker::PhantomData<(&'input (), T, F)>,
    ) -> (usize, usize)
    where
        F: Fn(usize) -> T,
        T: Clone,
        T: std::fmt::Debug,
    {
        // S =  => ActionFn(31);
        let __start = __lookahead_start.cloned().or_else(|| __symbols.last().map(|s| s.2.clone())).unwrap_or_default();
        let __end = __start.clone();
        let __nt = super::__action31::<T, F>(make, input, &__start, &__end);
        __symbols.push((__start, __Symbol::Variant6(__nt), __end));
        (0, 16)
    }
    fn __reduce25<
        'input,
        T,
        F,
    >(
        make: &F,
        input: &'input str,
        __lookahead_start: Option<&usize>,
        __symbols: &mut alloc::vec::Vec<(usize,__Symbol<'input, T>,usize)>,
        _: core::marker::PhantomData<(&'input (), T, F)>,
    ) -> (usize, usize)
    where
        F: Fn(usize) -> T,
        T: Clone,
        T: std::fmt::Debug,
    {
        // S = Item+ => ActionFn(32);
        let __sym0 = __pop_Variant2(__symbols);
        let __start = __sym0.0.clone();
        let __end = __sym0.2.clone();
        let __nt = super::__action32::<T, F>(make, input, __sym0);
        __symbols.push((__start, __Symbol::Variant6(__nt), __end));
        (1, 16)
    }
    fn __reduce26<
        'input,
        T,
        F,
    >(
        make: &F,
        input: &'input str,
        __lookahead_start: Option<&usize>,
        __symbols: &mut alloc::vec::Vec<(usize,__Symbol<'input, T>,usize)>,
        _: core::marker::PhantomData<(&'input (), T, F)>,
    ) -> (usize, usize)
    where
        F: Fn(usize) -> T,
        T: Clone,
        T: std::fmt::Debug,
    {
        // __One = One => ActionFn(1);
        let __sym0 = __pop_Variant5(__symbols);
        let __start = __sym0.0.clone();
        let __end = __sym0.2.clone();
        let __nt = super::__action1::<T, F>(make, input, __sym0);
        __symbols.push((__start, __Symbol::Variant5(__nt), __end));
        (1, 17)
    }
}
#[allow(unused_imports)]
pub use self::__parse__S::SParser;
#[rustfmt::skip]
mod __intern_token {
    #![allow(unused_imports)]
    use crate::support::*;
    #[allow(unused_extern_crates)]
    extern crate lalrpop_util as __lalrpop_util;
    #[allow(unused_imports)]
    use self::__lalrpop_util::state_machine as __state_machine;
    #[allow(unused_extern_crates)]
    extern crate alloc;
    pub fn new_builder() -> __lalrpop_util::lexer::MatcherBuilder {
        let __strs: &[(&str, bool)] = &[
            (",", false),
            ("a", false),
            ("b", false),
            ("c", false),
            ("d", false),
            (r"\s+", true),
        ];
        __lalrpop_util::lexer::MatcherBuilder::new(__strs.iter().copied()).unwrap()
    }
}
pub(crate) use self::__lalrpop_util::lexer::Token;

#[allow(unused_variables)]
#[allow(clippy::too_many_arguments, clippy::needless_lifetimes, clippy::just_underscores_and_digits, clippy::extra_unused_type_parameters)]
fn __action0<
    'input,
    T,
    F,
>(
    make: &F,
    input: &'input str,
    (_, __0, _): (usize, Vec<T>, usize),
) -> Vec<T>
where
    F: Fn(usize) -> T,
    T: Clone,
    T: std::fmt::Debug,
{
    __0
}

#[allow(unused_variables)]
#[allow(clippy::too_many_arguments, clippy::needless_lifetimes, clippy::just_underscores_and_digits, clippy::extra_unused_type_parameters)]
fn __action1<
    'input,
    T,
    F,
>(
    make: &F,
    input: &'input str,
    (_, __0, _): (usize, Option<T>, usize),
) -> Option<T>
where
    F: Fn(usize) -> T,
    T: Clone,
    T: std::fmt::Debug,
{
    __0
}

#[allow(unused_variables)]
#[allow(clippy::too_many_arguments, clippy::needless_lifetimes, clippy::just_underscores_and_digits, clippy::extra_unused_type_parameters)]
fn __action2<
    'input,
    T,
    F,
>(
    make: &F,
    input: &'input str,
    (_, l, _): (usize, usize, usize),
    (_, xs, _): (usize, alloc::vec::Vec<usize>, usize),
    (_, r, _): (usize, usize, usize),
) -> Vec<T>
where
    F: Fn(usize) -> T,
    T: Clone,
    T: std::fmt::Debug,
{
    { let _ = (&l, &r); xs.into_iter().map(|x| make(x)).collect() }
}

#[allow(unused_variables)]
#[allow(clippy::too_many_arguments, clippy::needless_lifetimes, clippy::just_underscores_and_digits, clippy::extra_unused_type_parameters)]
fn __action3<
    'input,
    T,
    F,
>(
    make: &F,
    input: &'input str,
    (_, x, _): (usize, Option<usize>, usize),
) -> Option<T>
where
    F: Fn(usize) -> T,
    T: Clone,
    T: std::fmt::Debug,
{
    x.map(|v| make(v))
}

#[allow(unused_variables)]
#[allow(clippy::too_many_arguments, clippy::needless_lifetimes, clippy::just_underscores_and_digits, clippy::extra_unused_type_parameters)]
fn __action4<
    'input,
    T,
    F,
>(
    make: &F,
    input: &'input str,
    (_, x, _): (usize, &'input str, usize),
    (_, _, _): (usize, &'input str, usize),
) -> usize
where
    F: Fn(usize) -> T,
    T: Clone,
    T: std::fmt::Debug,
{
    sz(&x)
}

#[allow(unused_variables)]
#[allow(clippy::too_many_arguments, clippy::needless_lifetimes, clippy::just_underscores_and_digits, clippy::extra_unused_type_parameters)]
fn __action5<
    'input,
    T,
    F,
>(
    make: &F,
    input: &'input str,
    (_, __0, _): (usize, &'input str, usize),
    (_, _, _): (usize, &'input str, usize),
) -> &'input str
where
    F: Fn(usize) -> T,
    T: Clone,
    T: std::fmt::Debug,
{
    __0
}

#[allow(unused_variables)]
#[allow(clippy::too_many_arguments, clippy::needless_lifetimes, clippy::just_underscores_and_digits, clippy::extra_unused_type_parameters)]
fn __action6<
    'input,
    T,
    F,
>(
    make: &F,
    input: &'input str,
    (_, v, _): (usize, alloc::vec::Vec<usize>, usize),
) -> (usize, Vec<usize>)
where
    F: Fn(usize) -> T,
    T: Clone,
    T: std::fmt::Debug,
{
    (v.len(), v.iter().map(sz).collect())
}

#[allow(unused_variables)]
#[allow(clippy::too_many_arguments, clippy::needless_lifetimes, clippy::just_underscores_and_digits, clippy::extra_unused_type_parameters)]
fn __action7<
    'input,
    T,
    F,
>(
    make: &F,
    input: &'input str,
    (_, __0, _): (usize, usize, usize),
    (_, _, _): (usize, &'input str, usize),
) -> usize
where
    F: Fn(usize) -> T,
    T: Clone,
    T: std::fmt::Debug,
{
    __0
}

#[allow(unused_variables)]
#[allow(clippy::too_many_arguments, clippy::needless_lifetimes, clippy::just_underscores_and_digits, clippy::extra_unused_type_parameters)]
fn __action8<
    'input,
    T,
    F,
>(
    make: &F,
    input: &'input str,
    (_, x, _): (usize, &'input str, usize),
    (_, _, _): (usize, &'input str, usize),
    (_, y, _): (usize, &'input str, usize),
) -> usize
where
    F: Fn(usize) -> T,
    T: Clone,
    T: std::fmt::Debug,
{
    sz(&x) + sz(&y)
}

#[allow(unused_variables)]
#[allow(clippy::too_many_arguments, clippy::needless_lifetimes, clippy::just_underscores_and_digits, clippy::extra_unused_type_parameters)]
fn __action9<
    'input,
    T,
    F,
>(
    make: &F,
    input: &'input str,
    (_, _, _): (usize, &'input str, usize),
    (_, n, _): (usize, usize, usize),
    (_, _, _): (usize, &'input str, usize),
) -> usize
where
    F: Fn(usize) -> T,
    T: Clone,
    T: std::fmt::Debug,
{
    n + 1
}

#[allow(unused_variables)]
#[allow(clippy::too_many_arguments, clippy::needless_lifetimes, clippy::just_underscores_and_digits, clippy::extra_unused_type_parameters)]
fn __action10<
    'input,
    T,
    F,
>(
    make: &F,
    input: &'input str,
    (_, __0, _): (usize, &'input str, usize),
    (_, _, _): (usize, &'input str, usize),
) -> &'input str
where
    F: Fn(usize) -> T,
    T: Clone,
    T: std::fmt::Debug,
{
    __0
}

#[allow(unused_variables)]
#[allow(clippy::too_many_arguments, clippy::needless_lifetimes, clippy::just_underscores_and_digits, clippy::extra_unused_type_parameters)]
fn __action11<
    'input,
    T,
    F,
>(
    make: &F,
    input: &'input str,
    (_, __0, _): (usize, &'input str, usize),
    (_, _, _): (usize, &'input str, usize),
) -> &'input str
where
    F: Fn(usize) -> T,
    T: Clone,
    T: std::fmt::Debug,
{
    __0
}

#[allow(unused_variables)]
#[allow(clippy::too_many_arguments, clippy::needless_lifetimes, clippy::just_underscores_and_digits, clippy::extra_unused_type_parameters)]
fn __action12<
    'input,
    T,
    F,
>(
    make: &F,
    input: &'input str,
    __lookbehind: &usize,
    __lookahead: &usize,
) -> alloc::vec::Vec<usize>
where
    F: Fn(usize) -> T,
    T: Clone,
    T: std::fmt::Debug,
{
    alloc::vec![]
}

#[allow(unused_variables)]
#[allow(clippy::too_many_arguments, clippy::needless_lifetimes, clippy::just_underscores_and_digits, clippy::extra_unused_type_parameters)]
fn __action13<
    'input,
    T,
    F,
>(
    make: &F,
    input: &'input str,
    (_, v, _): (usize, alloc::vec::Vec<usize>, usize),
) -> alloc::vec::Vec<usize>
where
    F: Fn(usize) -> T,
    T: Clone,
    T: std::fmt::Debug,
{
    v
}

#[allow(unused_variables)]
#[allow(clippy::too_many_arguments, clippy::needless_lifetimes, clippy::just_underscores_and_digits, clippy::extra_unused_type_parameters)]
fn __action14<
    'input,
    T,
    F,
>(
    make: &F,
    input: &'input str,
    (_, _, _): (usize, &'input str, usize),
    (_, __0, _): (usize, usize, usize),
) -> usize
where
    F: Fn(usize) -> T,
    T: Clone,
    T: std::fmt::Debug,
{
    __0
}

#[allow(unused_variables)]
#[allow(clippy::too_many_arguments, clippy::needless_lifetimes, clippy::just_underscores_and_digits, clippy::extra_unused_type_parameters)]
fn __action15<
    'input,
    T,
    F,
>(
    make: &F,
    input: &'input str,
    (_, __0, _): (usize, usize, usize),
) -> Option<usize>
where
    F: Fn(usize) -> T,
    T: Clone,
    T: std::fmt::Debug,
{
    Some(__0)
}

#[allow(unused_variables)]
#[allow(clippy::too_many_arguments, clippy::needless_lifetimes, clippy::just_underscores_and_digits, clippy::extra_unused_type_parameters)]
fn __action16<
    'input,
    T,
    F,
>(
    make: &F,
    input: &'input str,
    __lookbehind: &usize,
    __lookahead: &usize,
) -> Option<usize>
where
    F: Fn(usize) -> T,
    T: Clone,
    T: std::fmt::Debug,
{
    None
}

#[allow(unused_variables)]
#[allow(clippy::needless_lifetimes, clippy::clone_on_copy)]
fn __action17<
    'input,
    T,
    F,
>(
    make: &F,
    input: &'input str,
    __lookbehind: &usize,
    __lookahead: &usize,
) -> usize
where
    F: Fn(usize) -> T,
    T: Clone,
    T: std::fmt::Debug,
{
    __lookbehind.clone()
}

#[allow(unused_variables)]
#[allow(clippy::too_many_arguments, clippy::needless_lifetimes, clippy::just_underscores_and_digits, clippy::extra_unused_type_parameters)]
fn __action18<
    'input,
    T,
    F,
>(
    make: &F,
    input: &'input str,
    __lookbehind: &usize,
    __lookahead: &usize,
) -> alloc::vec::Vec<usize>
where
    F: Fn(usize) -> T,
    T: Clone,
    T: std::fmt::Debug,
{
    alloc::vec![]
}

#[allow(unused_variables)]
#[allow(clippy::too_many_arguments, clippy::needless_lifetimes, clippy::just_underscores_and_digits, clippy::extra_unused_type_parameters)]
fn __action19<
    'input,
    T,
    F,
>(
    make: &F,
    input: &'input str,
    (_, v, _): (usize, alloc::vec::Vec<usize>, usize),
) -> alloc::vec::Vec<usize>
where
    F: Fn(usize) -> T,
    T: Clone,
    T: std::fmt::Debug,
{
    v
}

#[allow(unused_variables)]
#[allow(clippy::needless_lifetimes, clippy::clone_on_copy)]
fn __action20<
    'input,
    T,
    F,
>(
    make: &F,
    input: &'input str,
    __lookbehind: &usize,
    __lookahead: &usize,
) -> usize
where
    F: Fn(usize) -> T,
    T: Clone,
    T: std::fmt::Debug,
{
    __lookahead.clone()
}

#[allow(unused_variables)]
#[allow(clippy::too_many_arguments, clippy::needless_lifetimes, clippy::just_underscores_and_digits, clippy::extra_unused_type_parameters)]
fn __action21<
    'input,
    T,
    F,
>(
    make: &F,
    input: &'input str,
    (_, __0, _): (usize, usize, usize),
) -> alloc::vec::Vec<usize>
where
    F: Fn(usize) -> T,
    T: Clone,
    T: std::fmt::Debug,
{
    alloc::vec![__0]
}

#[allow(unused_variables)]
#[allow(clippy::too_many_arguments, clippy::needless_lifetimes, clippy::just_underscores_and_digits, clippy::extra_unused_type_parameters)]
fn __action22<
    'input,
    T,
    F,
>(
    make: &F,
    input: &'input str,
    (_, v, _): (usize, alloc::vec::Vec<usize>, usize),
    (_, e, _): (usize, usize, usize),
) -> alloc::vec::Vec<usize>
where
    F: Fn(usize) -> T,
    T: Clone,
    T: std::fmt::Debug,
{
    { let mut v = v; v.push(e); v }
}

#[allow(unused_variables)]
#[allow(clippy::too_many_arguments, clippy::needless_lifetimes, clippy::just_underscores_and_digits, clippy::extra_unused_type_parameters)]
fn __action23<
    'input,
    T,
    F,
>(
    make: &F,
    input: &'input str,
    (_, __0, _): (usize, usize, usize),
) -> alloc::vec::Vec<usize>
where
    F: Fn(usize) -> T,
    T: Clone,
    T: std::fmt::Debug,
{
    alloc::vec![__0]
}

#[allow(unused_variables)]
#[allow(clippy::too_many_arguments, clippy::needless_lifetimes, clippy::just_underscores_and_digits, clippy::extra_unused_type_parameters)]
fn __action24<
    'input,
    T,
    F,
>(
    make: &F,
    input: &'input str,
    (_, v, _): (usize, alloc::vec::Vec<usize>, usize),
    (_, e, _): (usize, usize, usize),
) -> alloc::vec::Vec<usize>
where
    F: Fn(usize) -> T,
    T: Clone,
    T: std::fmt::Debug,
{
    { let mut v = v; v.push(e); v }
}

#[allow(unused_variables)]
#[allow(clippy::too_many_arguments, clippy::needless_lifetimes,
    clippy::just_underscores_and_digits, clippy::clone_on_copy, clippy::unit_arg)]
fn __action25<
    'input,
    T,
    F,
>(
    make: &F,
    input: &'input str,
    __0: (usize, &'input str, usize),
    __1: (usize, usize, usize),
) -> alloc::vec::Vec<usize>
where
    F: Fn(usize) -> T,
    T: Clone,
    T: std::fmt::Debug,
{
    let __start0 = __0.0.clone();
    let __end0 = __1.2.clone();
    let __temp0 = __action14::<
    T,
    F,
    >(
        make,
        input,
        __0,
        __1,
    );
    let __temp0 = (__start0, __temp0, __end0);
    __action23::<
    T,
    F,
    >(
        make,
        input,
        __temp0,
    )
}

#[allow(unused_variables)]
#[allow(clippy::too_many_arguments, clippy::needless_lifetimes,
    clippy::just_underscores_and_digits, clippy::clone_on_copy, clippy::unit_arg)]
fn __action26<
    'input,
    T,
    F,
>(
    make: &F,
    input: &'input str,
    __0: (usize, alloc::vec::Vec<usize>, usize),
    __1: (usize, &'input str, usize),
    __2: (usize, usize, usize),
) -> alloc::vec::Vec<usize>
where
    F: Fn(usize) -> T,
    T: Clone,
    T: std::fmt::Debug,
{
    let __start0 = __1.0.clone();
    let __end0 = __2.2.clone();
    let __temp0 = __action14::<
    T,
    F,
    >(
        make,
        input,
        __1,
        __2,
    );
    let __temp0 = (__start0, __temp0, __end0);
    __action24::<
    T,
    F,
    >(
        make,
        input,
        __0,
        __temp0,
    )
}

#[allow(unused_variables)]
#[allow(clippy::too_many_arguments, clippy::needless_lifetimes,
    clippy::just_underscores_and_digits, clippy::clone_on_copy, clippy::unit_arg)]
fn __action27<
    'input,
    T,
    F,
>(
    make: &F,
    input: &'input str,
    __lookbehind: &usize,
    __lookahead: &usize,
) -> (usize, Vec<usize>)
where
    F: Fn(usize) -> T,
    T: Clone,
    T: std::fmt::Debug,
{
    let __start0 = __lookbehind.clone();
    let __end0 = __lookahead.clone();
    let __temp0 = __action12::<
    T,
    F,
    >(
        make,
        input,
        &__start0,
        &__end0,
    );
    let __temp0 = (__start0, __temp0, __end0);
    __action6::<
    T,
    F,
    >(
        make,
        input,
        __temp0,
    )
}

#[allow(unused_variables)]
#[allow(clippy::too_many_arguments, clippy::needless_lifetimes,
    clippy::just_underscores_and_digits, clippy::clone_on_copy, clippy::unit_arg)]
fn __action28<
    'input,
    T,
    F,
>(
    make: &F,
    input: &'input str,
    __0: (usize, alloc::vec::Vec<usize>, usize),
) -> (usize, Vec<usize>)
where
    F: Fn(usize) -> T,
    T: Clone,
    T: std::fmt::Debug,
{
    let __start0 = __0.0.clone();
    let __end0 = __0.2.clone();
    let __temp0 = __action13::<
    T,
    F,
    >(
        make,
        input,
        __0,
    );
    let __temp0 = (__start0, __temp0, __end0);
    __action6::<
    T,
    F,
    >(
        make,
        input,
        __temp0,
    )
}

#[allow(unused_variables)]
#[allow(clippy::too_many_arguments, clippy::needless_lifetimes,
    clippy::just_underscores_and_digits, clippy::clone_on_copy, clippy::unit_arg)]
fn __action29<
    'input,
    T,
    F,
>(
    make: &F,
    input: &'input str,
    __0: (usize, alloc::vec::Vec<usize>, usize),
    __1: (usize, usize, usize),
) -> Vec<T>
where
    F: Fn(usize) -> T,
    T: Clone,
    T: std::fmt::Debug,
{
    let __start0 = __0.0.clone();
    let __end0 = __0.0.clone();
    let __temp0 = __action20::<
    T,
    F,
    >(
        make,
        input,
        &__start0,
        &__end0,
    );
    let __temp0 = (__start0, __temp0, __end0);
    __action2::<
    T,
    F,
    >(
        make,
        input,
        __temp0,
        __0,
        __1,
    )
}

#[allow(unused_variables)]
#[allow(clippy::too_many_arguments, clippy::needless_lifetimes,
    clippy::just_underscores_and_digits, clippy::clone_on_copy, clippy::unit_arg)]
fn __action30<
    'input,
    T,
    F,
>(
    make: &F,
    input: &'input str,
    __0: (usize, alloc::vec::Vec<usize>, usize),
) -> Vec<T>
where
    F: Fn(usize) -> T,
    T: Clone,
    T: std::fmt::Debug,
{
    let __start0 = __0.2.clone();
    let __end0 = __0.2.clone();
    let __temp0 = __action17::<
    T,
    F,
    >(
        make,
        input,
        &__start0,
        &__end0,
    );
    let __temp0 = (__start0, __temp0, __end0);
    __action29::<
    T,
    F,
    >(
        make,
        input,
        __0,
        __temp0,
    )
}

#[allow(unused_variables)]
#[allow(clippy::too_many_arguments, clippy::needless_lifetimes,
    clippy::just_underscores_and_digits, clippy::clone_on_copy, clippy::unit_arg)]
fn __action31<
    'input,
    T,
    F,
>(
    make: &F,
    input: &'input str,
    __lookbehind: &usize,
    __lookahead: &usize,
) -> Vec<T>
where
    F: Fn(usize) -> T,
    T: Clone,
    T: std::fmt::Debug,
{
    let __start0 = __lookbehind.clone();
    let __end0 = __lookahead.clone();
    let __temp0 = __action18::<
    T,
    F,
    >(
        make,
        input,
        &__start0,
        &__end0,
    );
    let __temp0 = (__start0, __temp0, __end0);
    __action30::<
    T,
    F,
    >(
        make,
        input,
        __temp0,
    )
}

#[allow(unused_variables)]
#[allow(clippy::too_many_arguments, clippy::needless_lifetimes,
    clippy::just_underscores_and_digits, clippy::clone_on_copy, clippy::unit_arg)]
fn __action32<
    'input,
    T,
    F,
>(
    make: &F,
    input: &'input str,
    __0: (usize, alloc::vec::Vec<usize>, usize),
) -> Vec<T>
where
    F: Fn(usize) -> T,
    T: Clone,
    T: std::fmt::Debug,
{
    let __start0 = __0.0.clone();
    let __end0 = __0.2.clone();
    let __temp0 = __action19::<
    T,
    F,
    >(
        make,
        input,
        __0,
    );
    let __temp0 = (__start0, __temp0, __end0);
    __action30::<
    T,
    F,
    >(
        make,
        input,
        __temp0,
    )
}

#[allow(unused_variables)]
#[allow(clippy::too_many_arguments, clippy::needless_lifetimes,
    clippy::just_underscores_and_digits, clippy::clone_on_copy, clippy::unit_arg)]
fn __action33<
    'input,
    T,
    F,
>(
    make: &F,
    input: &'input str,
    __0: (usize, usize, usize),
) -> Option<T>
where
    F: Fn(usize) -> T,
    T: Clone,
    T: std::fmt::Debug,
{
    let __start0 = __0.0.clone();
    let __end0 = __0.2.clone();
    let __temp0 = __action15::<
    T,
    F,
    >(
        make,
        input,
        __0,
    );
    let __temp0 = (__start0, __temp0, __end0);
    __action3::<
    T,
    F,
    >(
        make,
        input,
        __temp0,
    )
}

#[allow(unused_variables)]
#[allow(clippy::too_many_arguments, clippy::needless_lifetimes,
    clippy::just_underscores_and_digits, clippy::clone_on_copy, clippy::unit_arg)]
fn __action34<
    'input,
    T,
    F,
>(
    make: &F,
    input: &'input str,
    __lookbehind: &usize,
    __lookahead: &usize,
) -> Option<T>
where
    F: Fn(usize) -> T,
    T: Clone,
    T: std::fmt::Debug,
{
    let __start0 = __lookbehind.clone();
    let __end0 = __lookahead.clone();
    let __temp0 = __action16::<
    T,
    F,
    >(
        make,
        input,
        &__start0,
        &__end0,
    );
    let __temp0 = (__start0, __temp0, __end0);
    __action3::<
    T,
    F,
    >(
        make,
        input,
        __temp0,
    )
}

#[allow(clippy::type_complexity, dead_code)]
pub trait __ToTriple<'input, T, F, >
where F: Fn(usize) -> T,T: Clone,T: std::fmt::Debug
{
    fn to_triple(self) -> Result<(usize,Token<'input>,usize), __lalrpop_util::ParseError<usize, Token<'input>, &'static str>>;
}

impl<'input, T, F, > __ToTriple<'input, T, F, > for (usize, Token<'input>, usize)
where F: Fn(usize) -> T,T: Clone,T: std::fmt::Debug
{
    fn to_triple(self) -> Result<(usize,Token<'input>,usize), __lalrpop_util::ParseError<usize, Token<'input>, &'static str>> {
        Ok(self)
    }
}
impl<'input, T, F, > __ToTriple<'input, T, F, > for Result<(usize, Token<'input>, usize), &'static str>
where F: Fn(usize) -> T,T: Clone,T: std::fmt::Debug
{
    fn to_triple(self) -> Result<(usize,Token<'input>,usize), __lalrpop_util::ParseError<usize, Token<'input>, &'static str>> {
        self.map_err(|error| __lalrpop_util::ParseError::User { error })
    }
}
