// auto-generated: "lalrpop 0.23.1"
// sha3: 21ebc6bec9ba3db4f3d99d719d762c4032c4e316ef0024b4b9e7a57823d742c8
use crate::support::*;
#[allow(unused_extern_crates)]
extern crate lalrpop_util as __lalrpop_util;
#[allow(unused_imports)]
use self::__lalrpop_util::state_machine as __state_machine;
#[allow(unused_extern_crates)]
extern crate alloc;

#[rustfmt::skip]
#[allow(explicit_outlives_requirements, non_snake_case, non_camel_case_types, unused_mut, unused_variables, unused_imports, unused_parens, clippy::needless_lifetimes, clippy::type_complexity, clippy::needless_return, clippy::too_many_arguments, clippy::match_single_binding, clippy::clone_on_copy, clippy::unit_arg)]
mod __parse__S {

    use crate::support::*;
    #[allow(unused_extern_crates)]
    extern crate lalrpop_util as __lalrpop_util;
    #[allow(unused_imports)]
    use self::__lalrpop_util::state_machine as __state_machine;
    #[allow(unused_extern_crates)]
    extern crate alloc;
    use super::__ToTriple;
    #[allow(dead_code)]
    pub(crate) enum __Symbol<>
     {
        Variant0(Tok),
        Variant1((Tok, Tok)),
        Variant2(alloc::vec::Vec<(Tok, Tok)>),
        Variant3(alloc::vec::Vec<alloc::vec::Vec<(Tok, Tok)>>),
        Variant4(alloc::vec::Vec<Tok>),
        Variant5(Loc),
        Variant6(usize),
        Variant7(alloc::vec::Vec<usize>),
        Variant8((alloc::vec::Vec<alloc::vec::Vec<(Tok, Tok)>>, Tok, alloc::vec::Vec<(Tok, Tok)>)),
        Variant9(Vec<usize>),
    }
    const __ACTION: &[i8] = &[
        // State 0
        0, 0, 4, -24, 0,
        // State 1
        0, 0, 4, -25, 0,
        // State 2
        0, 0, 4, -24, 0,
        // State 3
        18, 0, 0, 0, 0,
        // State 4
        18, 0, 0, 0, 0,
        // State 5
        0, 0, 4, 0, 0,
        // State 6
        0, 0, 5, 0, -26,
        // State 7
        0, 0, -19, -19, 0,
        // State 8
        0, 0, 0, 0, 15,
        // State 9
        0, 0, 0, 6, 0,
        // State 10
        0, 0, 0, 0, 16,
        // State 11
        0, 0, 0, 0, 0,
        // State 12
        0, 0, 0, 0, 20,
        // State 13
        0, 0, -20, -20, 0,
        // State 14
        0, 0, -16, -16, 0,
        // State 15
        0, 0, -7, -7, 0,
        // State 16
        0, 0, -2, 0, -2,
        // State 17
        0, 22, 0, 0, 0,
        // State 18
        0, 0, -3, 0, -3,
        // State 19
        0, 0, -8, -8, 0,
        // State 20
        0, 0, 0, 0, -21,
        // State 21
        0, 0, -27, 0, -27,
    ];
    fn __action(state: i8, integer: usize) -> i8 {
        __ACTION[(state as usize) * 5 + integer]
    }
    const __EOF_ACTION: &[i8] = &[
        // State 0
        -28,
        // State 1
        0,
        // State 2
        -29,
        // State 3
        0,
        // State 4
        0,
        // State 5
        0,
        // State 6
        0,
        // State 7
        -19,
        // State 8
        0,
        // State 9
        0,
        // State 10
        0,
        // State 11
        -30,
        // State 12
        0,
        // State 13
        -20,
        // State 14
        -16,
        // State 15
        0,
        // State 16
        0,
        // State 17
        0,
        // State 18
        0,
        // State 19
        0,
        // State 20
        0,
        // State 21
        0,
    ];
    fn __goto(state: i8, nt: usize) -> i8 {
        match nt {
            1 => 6,
            4 => 1,
            10 => match state {
                2 => 13,
                _ => 7,
            },
            12 => 2,
            13 => 8,
            15 => 9,
            16 => match state {
                1 => 12,
                5 => 20,
                _ => 10,
            },
            17 => match state {
                4 => 18,
                _ => 16,
            },
            18 => 11,
            _ => 0,
        }
    }
    #[allow(clippy::needless_raw_string_hashes)]
    const __TERMINAL: &[&str] = &[
        r###""a""###,
        r###""b""###,
        r###""c""###,
        r###""d""###,
        r###"",""###,
    ];
    fn __expected_tokens(__state: i8) -> alloc::vec::Vec<alloc::string::String> {
        __TERMINAL.iter().enumerate().filter_map(|(index, terminal)| {
            let next_state = __action(__state, index);
            if next_state == 0 {
                None
            } else {
                Some(alloc::string::ToString::to_string(terminal))
            }
        }).collect()
    }
    fn __expected_tokens_from_states<
    >(
        __states: &[i8],
        _: core::marker::PhantomData<()>,
    ) -> alloc::vec::Vec<alloc::string::String>
    {
        __TERMINAL.iter().enumerate().filter_map(|(index, terminal)| {
            if __accepts(None, __states, Some(index), core::marker::PhantomData::<()>) {
                Some(alloc::string::ToString::to_string(terminal))
            } else {
                None
            }
        }).collect()
    }
    struct __StateMachine<>
    where 
    {
        __phantom: core::marker::PhantomData<()>,
    }
    impl<> __state_machine::ParserDefinition for __StateMachine<>
    where 
    {
        type Location = Loc;
        type Error = String;
        type Token = Tok;
        type TokenIndex = usize;
        type Symbol = __Symbol<>;
        type Success = Vec<usize>;
        type StateIndex = i8;
        type Action = i8;
        type ReduceIndex = i8;
        type NonterminalIndex = usize;

        #[inline]
        fn start_location(&self) -> Self::Location {
              Default::default()
        }

        #[inline]
        fn start_state(&self) -> Self::StateIndex {
              0
        }

        #[inline]
        fn token_to_index(&self, token: &Self::Token) -> Option<usize> {
            __token_to_integer(token, core::marker::PhantomData::<()>)
        }

        #[inline]
        fn action(&self, state: i8, integer: usize) -> i8 {
            __action(state, integer)
        }

        #[inline]
        fn error_action(&self, state: i8) -> i8 {
            __action(state, 5 - 1)
        }

        #[inline]
        fn eof_action(&self, state: i8) -> i8 {
            __EOF_ACTION[state as usize]
        }

        #[inline]
        fn goto(&self, state: i8, nt: usize) -> i8 {
            __goto(state, nt)
        }

        fn token_to_symbol(&self, token_index: usize, token: Self::Token) -> Self::Symbol {
            __token_to_symbol(token_index, token, core::marker::PhantomData::<()>)
        }

        fn expected_tokens(&self, state: i8) -> alloc::vec::Vec<alloc::string::String> {
            __expected_tokens(state)
        }

        fn expected_tokens_from_states(&self, states: &[i8]) -> alloc::vec::Vec<alloc::string::String> {
            __expected_tokens_from_states(states, core::marker::PhantomData::<()>)
        }

        #[inline]
        fn uses_error_recovery(&self) -> bool {
            false
        }

        #[inline]
        fn error_recovery_symbol(
            &self,
            recovery: __state_machine::ErrorRecovery<Self>,
        ) -> Self::Symbol {
            panic!("error recovery not enabled for this grammar")
        }

        fn reduce(
            &mut self,
            action: i8,
            start_location: Option<&Self::Location>,
            states: &mut alloc::vec::Vec<i8>,
            symbols: &mut alloc::vec::Vec<__state_machine::SymbolTriple<Self>>,
        ) -> Option<__state_machine::ParseResult<Self>> {
            __reduce(
                action,
                start_location,
                states,
                symbols,
                core::marker::PhantomData::<()>,
            )
        }

        fn simulate_reduce(&self, action: i8) -> __state_machine::SimulatedReduce<Self> {
            __simulate_reduce(action, core::marker::PhantomData::<()>)
        }
    }
    fn __token_to_integer<
    >(
        __token: &Tok,
        _: core::marker::PhantomData<()>,
    ) -> Option<usize>
    {
        #[warn(unused_variables)]
        match __token {
            Tok::A if true => Some(0),
            Tok::B if true => Some(1),
            Tok::C if true => Some(2),
            Tok::D if true => Some(3),
            Tok::Comma if true => Some(4),
            _ => None,
        }
    }
    fn __token_to_symbol<
    >(
        __token_index: usize,
        __token: Tok,
        _: core::marker::PhantomData<()>,
    ) -> __Symbol<>
    {
        #[allow(clippy::manual_range_patterns)]match __token_index {
            0 | 1 | 2 | 3 | 4 => __Symbol::Variant0(__token),
            _ => unreachable!(),
        }
    }
    fn __simulate_reduce<
    >(
        __reduce_index: i8,
        _: core::marker::PhantomData<()>,
    ) -> __state_machine::SimulatedReduce<__StateMachine<>>
    {
        match __reduce_index {
            0 => {
                __state_machine::SimulatedReduce::Reduce {
                    states_to_pop: 2,
                    nonterminal_produced: 0,
                }
            }
            1 => {
                __state_machine::SimulatedReduce::Reduce {
                    states_to_pop: 2,
                    nonterminal_produced: 1,
                }
            }
            2 => {
                __state_machine::SimulatedReduce::Reduce {
                    states_to_pop: 3,
                    nonterminal_produced: 1,
                }
            }
            3 => {
                __state_machine::SimulatedReduce::Reduce {
                    states_to_pop: 2,
                    nonterminal_produced: 2,
                }
            }
            4 => {
                __state_machine::SimulatedReduce::Reduce {
                    states_to_pop: 0,
                    nonterminal_produced: 3,
                }
            }
            5 => {
                __state_machine::SimulatedReduce::Reduce {
                    states_to_pop: 1,
                    nonterminal_produced: 3,
                }
            }
            6 => {
                __state_machine::SimulatedReduce::Reduce {
                    states_to_pop: 2,
                    nonterminal_produced: 4,
                }
            }
            7 => {
                __state_machine::SimulatedReduce::Reduce {
                    states_to_pop: 3,
                    nonterminal_produced: 4,
                }
            }
            8 => {
                __state_machine::SimulatedReduce::Reduce {
                    states_to_pop: 2,
                    nonterminal_produced: 5,
                }
            }
            9 => {
                __state_machine::SimulatedReduce::Reduce {
                    states_to_pop: 0,
                    nonterminal_produced: 6,
                }
            }
            10 => {
                __state_machine::SimulatedReduce::Reduce {
                    states_to_pop: 1,
                    nonterminal_produced: 6,
                }
            }
            11 => {
                __state_machine::SimulatedReduce::Reduce {
                    states_to_pop: 2,
                    nonterminal_produced: 7,
                }
            }
            12 => {
                __state_machine::SimulatedReduce::Reduce {
                    states_to_pop: 3,
                    nonterminal_produced: 7,
                }
            }
            13 => {
                __state_machine::SimulatedReduce::Reduce {
                    states_to_pop: 0,
                    nonterminal_produced: 8,
                }
            }
            14 => {
                __state_machine::SimulatedReduce::Reduce {
                    states_to_pop: 0,
                    nonterminal_produced: 9,
                }
            }
            15 => {
                __state_machine::SimulatedReduce::Reduce {
                    states_to_pop: 2,
                    nonterminal_produced: 10,
                }
            }
            16 => {
                __state_machine::SimulatedReduce::Reduce {
                    states_to_pop: 0,
                    nonterminal_produced: 11,
                }
            }
            17 => {
                __state_machine::SimulatedReduce::Reduce {
                    states_to_pop: 1,
                    nonterminal_produced: 11,
                }
            }
            18 => {
                __state_machine::SimulatedReduce::Reduce {
                    states_to_pop: 1,
                    nonterminal_produced: 12,
                }
            }
            19 => {
                __state_machine::SimulatedReduce::Reduce {
                    states_to_pop: 2,
                    nonterminal_produced: 12,
                }
            }
            20 => {
                __state_machine::SimulatedReduce::Reduce {
                    states_to_pop: 3,
                    nonterminal_produced: 13,
                }
            }
            21 => {
                __state_machine::SimulatedReduce::Reduce {
                    states_to_pop: 0,
                    nonterminal_produced: 14,
                }
            }
            22 => {
                __state_machine::SimulatedReduce::Reduce {
                    states_to_pop: 1,
                    nonterminal_produced: 14,
                }
            }
            23 => {
                __state_machine::SimulatedReduce::Reduce {
                    states_to_pop: 0,
                    nonterminal_produced: 15,
                }
            }
            24 => {
                __state_machine::SimulatedReduce::Reduce {
                    states_to_pop: 1,
                    nonterminal_produced: 15,
                }
            }
            25 => {
                __state_machine::SimulatedReduce::Reduce {
                    states_to_pop: 1,
                    nonterminal_produced: 16,
                }
            }
            26 => {
                __state_machine::SimulatedReduce::Reduce {
                    states_to_pop: 2,
                    nonterminal_produced: 17,
                }
            }
            27 => {
                __state_machine::SimulatedReduce::Reduce {
                    states_to_pop: 0,
                    nonterminal_produced: 18,
                }
            }
            28 => {
                __state_machine::SimulatedReduce::Reduce {
                    states_to_pop: 1,
                    nonterminal_produced: 18,
                }
            }
            29 => __state_machine::SimulatedReduce::Accept,
            _ => panic!("invalid reduction index {__reduce_index}")
        }
    }
    pub struct SParser {
        _priv: (),
    }

    impl Default for SParser { fn default() -> Self { Self::new() } }
    impl SParser {
        pub fn new() -> SParser {
            SParser {
                _priv: (),
            }
        }

        #[allow(dead_code)]
        pub fn parse<
            __TOKEN: __ToTriple<>,
            __TOKENS: IntoIterator<Item=__TOKEN>,
        >(
            &self,
            __tokens0: __TOKENS,
        ) -> Result<Vec<usize>, __lalrpop_util::ParseError<Loc, Tok, String>>
        {
            let __tokens = __tokens0.into_iter();
            let mut __tokens = __tokens.map(|t| __ToTriple::to_triple(t));
            __state_machine::Parser::drive(
                __StateMachine {
                    __phantom: core::marker::PhantomData::<()>,
                },
                __tokens,
            )
        }
    }
    fn __accepts<
    >(
        __error_state: Option<i8>,
        __states: &[i8],
        __opt_integer: Option<usize>,
        _: core::marker::PhantomData<()>,
    ) -> bool
    {
        let mut __states = __states.to_vec();
        __states.extend(__error_state);
        loop {
            let mut __states_len = __states.len();
            let __top = __states[__states_len - 1];
            let __action = match __opt_integer {
                None => __EOF_ACTION[__top as usize],
                Some(__integer) => __action(__top, __integer),
            };
            if __action == 0 { return false; }
            if __action > 0 { return true; }
            let (__to_pop, __nt) = match __simulate_reduce(-(__action + 1), core::marker::PhantomData::<()>) {
                __state_machine::SimulatedReduce::Reduce {
                    states_to_pop, nonterminal_produced
                } => (states_to_pop, nonterminal_produced),
                __state_machine::SimulatedReduce::Accept => return true,
            };
            __states_len -= __to_pop;
            __states.truncate(__states_len);
            let __top = __states[__states_len - 1];
            let __next_state = __goto(__top, __nt);
            __states.push(__next_state);
        }
    }
    fn __reduce<
    >(
        __action: i8,
        __lookahead_start: Option<&Loc>,
        __states: &mut alloc::vec::Vec<i8>,
        __symbols: &mut alloc::vec::Vec<(Loc,__Symbol<>,Loc)>,
        _: core::marker::PhantomData<()>,
    ) -> Option<Result<Vec<usize>,__lalrpop_util::ParseError<Loc, Tok, String>>>
    {
        let (__pop_states, __nonterminal) = match __action {
            0 => {
                __reduce0(__lookahead_start, __symbols, core::marker::PhantomData::<()>)
            }
            1 => {
                __reduce1(__lookahead_start, __symbols, core::marker::PhantomData::<()>)
            }
            2 => {
                __reduce2(__lookahead_start, __symbols, core::marker::PhantomData::<()>)
            }
            3 => {
                __reduce3(__lookahead_start, __symbols, core::marker::PhantomData::<()>)
            }
            4 => {
                __reduce4(__lookahead_start, __symbols, core::marker::PhantomData::<()>)
            }
            5 => {
                __reduce5(__lookahead_start, __symbols, core::marker::PhantomData::<()>)
            }
            6 => {
                __reduce6(__lookahead_start, __symbols, core::marker::PhantomData::<()>)
            }
            7 => {
                __reduce7(__lookahead_start, __symbols, core::marker::PhantomData::<()>)
            }
            8 => {
                __reduce8(__lookahead_start, __symbols, core::marker::PhantomData::<()>)
            }
            9 => {
                __reduce9(__lookahead_start, __symbols, core::marker::PhantomData::<()>)
            }
            10 => {
                __reduce10(__lookahead_start, __symbols, core::marker::PhantomData::<()>)
            }
            11 => {
                __reduce11(__lookahead_start, __symbols, core::marker::PhantomData::<()>)
            }
            12 => {
                __reduce12(__lookahead_start, __symbols, core::marker::PhantomData::<()>)
            }
            13 => {
                __reduce13(__lookahead_start, __symbols, core::marker::PhantomData::<()>)
            }
            14 => {
                __reduce14(__lookahead_start, __symbols, core::marker::PhantomData::<()>)
            }
            15 => {
                __reduce15(__lookahead_start, __symbols, core::marker::PhantomData::<()>)
            }
            16 => {
                __reduce16(__lookahead_start, __symbols, core::marker::PhantomData::<()>)
            }
            17 => {
                __reduce17(__lookahead_start, __symbols, core::marker::PhantomData::<()>)
            }
            18 => {
                __reduce18(__lookahead_start, __symbols, core::marker::PhantomData::<()>)
            }
            19 => {
                __reduce19(__lookahead_start, __symbols, core::marker::PhantomData::<()>)
            }
            20 => {
                __reduce20(__lookahead_start, __symbols, core::marker::PhantomData::<()>)
            }
            21 => {
                __reduce21(__lookahead_start, __symbols, core::marker::PhantomData::<()>)
            }
            22 => {
                __reduce22(__lookahead_start, __symbols, core::marker::PhantomData::<()>)
            }
            23 => {
                __reduce23(__lookahead_start, __symbols, core::marker::PhantomData::<()>)
            }
            24 => {
                __reduce24(__lookahead_start, __symbols, core::marker::PhantomData::<()>)
            }
            25 => {
                __reduce25(__lookahead_start, __symbols, core::marker::PhantomData::<()>)
            }
            26 => {
                __reduce26(__lookahead_start, __symbols, core::marker::PhantomData::<()>)
            }
            27 => {
                __reduce27(__lookahead_start, __symbols, core::marker::PhantomData::<()>)
            }
            28 => {
                __reduce28(__lookahead_start, __symbols, core::marker::PhantomData::<()>)
            }
            29 => {
                // __S = S => ActionFn(0);
                let __sym0 = __pop_Variant9(__symbols);
                let __start = __sym0.0.clone();
                let __end = __sym0.2.clone();
                let __nt = super::__action0::<>(__sym0);
                return Some(Ok(__nt));
            }
            _ => panic!("invalid action code {__action}")
        };
        let __states_len = __states.len();
        __states.truncate(__states_len - __pop_states);
        let __state = *__states.last().unwrap();
        let __next_state = __goto(__state, __nonterminal);
        __states.push(__next_state);
        None
    }
    #[inline(never)]
    fn __symbol_type_mismatch() -> ! {
        panic!("symbol type mismatch")
    }
    fn __pop_Variant1<
    >(
        __symbols: &mut alloc::vec::Vec<(Loc,__Symbol<>,Loc)>
    ) -> (Loc, (Tok, Tok), Loc)
     {
        match __symbols.pop() {
            Some((__l, __Symbol::Variant1(__v), __r)) => (__l, __v, __r),
            _ => __symbol_type_mismatch()
        }
    }
    fn __pop_Variant8<
    >(
        __symbols: &mut alloc::vec::Vec<(Loc,__Symbol<>,Loc)>
    ) -> (Loc, (alloc::vec::Vec<alloc::vec::Vec<(Tok, Tok)>>, Tok, alloc::vec::Vec<(Tok, Tok)>), Loc)
     {
        match __symbols.pop() {
            Some((__l, __Symbol::Variant8(__v), __r)) => (__l, __v, __r),
            _ => __symbol_type_mismatch()
        }
    }
    fn __pop_Variant5<
    >(
        __symbols: &mut alloc::vec::Vec<(Loc,__Symbol<>,Loc)>
    ) -> (Loc, Loc, Loc)
     {
        match __symbols.pop() {
            Some((__l, __Symbol::Variant5(__v), __r)) => (__l, __v, __r),
            _ => __symbol_type_mismatch()
        }
    }
    fn __pop_Variant0<
    >(
        __symbols: &mut alloc::vec::Vec<(Loc,__Symbol<>,Loc)>
    ) -> (Loc, Tok, Loc)
     {
        match __symbols.pop() {
            Some((__l, __Symbol::Variant0(__v), __r)) => (__l, __v, __r),
            _ => __symbol_type_mismatch()
        }
    }
    fn __pop_Variant9<
    >(
        __symbols: &mut alloc::vec::Vec<(Loc,__Symbol<>,Loc)>
    ) -> (Loc, Vec<usize>, Loc)
     {
        match __symbols.pop() {
            Some((__l, __Symbol::Variant9(__v), __r)) => (__l, __v, __r),
            _ => __symbol_type_mismatch()
        }
    }
    fn __pop_Variant2<
    >(
        __symbols: &mut alloc::vec::Vec<(Loc,__Symbol<>,Loc)>
    ) -> (Loc, alloc::vec::Vec<(Tok, Tok)>, Loc)
     {
        match __symbols.pop() {
            Some((__l, __Symbol::Variant2(__v), __r)) => (__l, __v, __r),
            _ => __symbol_type_mismatch()
        }
    }
    fn __pop_Variant4<
    >(
        __symbols: &mut alloc::vec::Vec<(Loc,__Symbol<>,Loc)>
    ) -> (Loc, alloc::vec::Vec<Tok>, Loc)
     {
        match __symbols.pop() {
            Some((__l, __Symbol::Variant4(__v), __r)) => (__l, __v, __r),
            _ => __symbol_type_mismatch()
        }
    }
    fn __pop_Variant3<
    >(
        __symbols: &mut alloc::vec::Vec<(Loc,__Symbol<>,Loc)>
    ) -> (Loc, alloc::vec::Vec<alloc::vec::Vec<(Tok, Tok)>>, Loc)
     {
        match __symbols.pop() {
            Some((__l, __Symbol::Variant3(__v), __r)) => (__l, __v, __r),
            _ => __symbol_type_mismatch()
        }
    }
    fn __pop_Variant7<
    >(
        __symbols: &mut alloc::vec::Vec<(Loc,__Symbol<>,Loc)>
    ) -> (Loc, alloc::vec::Vec<usize>, Loc)
     {
        match __symbols.pop() {
            Some((__l, __Symbol::Variant7(__v), __r)) => (__l, __v, __r),
            _ => __symbol_type_mismatch()
        }
    }
    fn __pop_Variant6<
    >(
        __symbols: &mut alloc::vec::Vec<(Loc,__Symbol<>,Loc)>
    ) -> (Loc, usize, Loc)
     {
        match __symbols.pop() {
            Some((__l, __Symbol::Variant6(__v), __r)) => (__l, __v, __r),
            _ => __symbol_type_mismatch()
        }
    }
    fn __reduce0<
    >(
        __lookahead_start: Option<&Loc>,
        __symbols: &mut alloc::vec::Vec<(Loc,__Symbol<>,Loc)>,
        _: core::marker::PhantomData<()>,
    ) -> (usize, usize)
    {
        // ("c" N4) = "c", N4 => ActionFn(10);
        assert!(__symbols.len() >= 2);
        let __sym1 = __pop_Variant0(__symbols);
        let __sym0 = __pop_Variant0(__symbols);
        let __start = __sym0.0.clone();
        let __end = __sym1.2.clone();
        let __nt = super::__action10::<>(__sym0, __sym1);
        __symbols.push((__start, __Symbol::Variant1(__nt), __end));
        (2, 0)
    }
    fn __reduce1<
    >(
        __lookahead_start: Option<&Loc>,
        __symbols: &mut alloc::vec::Vec<(Loc,__Symbol<>,Loc)>,
        _: core::marker::PhantomData<()>,
    ) -> (usize, usize)
    {
        // ("c" N4)+ = "c", N4 => ActionFn(27);
        assert!(__symbols.len() >= 2);
        let __sym1 = __pop_Variant0(__symbols);
        let __sym0 = __pop_Variant0(__symbols);
        let __start = __sym0.0.clone();
        let __end = __sym1.2.clone();
        let __nt = super::__action27::<>(__sym0, __sym1);
        __symbols.push((__start, __Symbol::Variant2(__nt), __end));
        (2, 1)
    }
    fn __reduce2<
    >(
        __lookahead_start: Option<&Loc>,
        __symbols: &mut alloc::vec::Vec<(Loc,__Symbol<>,Loc)>,
        _: core::marker::PhantomData<()>,
    ) -> (usize, usize)
    {
        // ("c" N4)+ = ("c" N4)+, "c", N4 => ActionFn(28);
        assert!(__symbols.len() >= 3);
        let __sym2 = __pop_Variant0(__symbols);
        let __sym1 = __pop_Variant0(__symbols);
        let __sym0 = __pop_Variant2(__symbols);
        let __start = __sym0.0.clone();
        let __end = __sym2.2.clone();
        let __nt = super::__action28::<>(__sym0, __sym1, __sym2);
        __symbols.push((__start, __Symbol::Variant2(__nt), __end));
        (3, 1)
    }
    fn __reduce3<
    >(
        __lookahead_start: Option<&Loc>,
        __symbols: &mut alloc::vec::Vec<(Loc,__Symbol<>,Loc)>,
        _: core::marker::PhantomData<()>,
    ) -> (usize, usize)
    {
        // (<N3> ",") = N3, "," => ActionFn(13);
        assert!(__symbols.len() >= 2);
        let __sym1 = __pop_Variant0(__symbols);
        let __sym0 = __pop_Variant2(__symbols);
        let __start = __sym0.0.clone();
        let __end = __sym1.2.clone();
        let __nt = super::__action13::<>(__sym0, __sym1);
        __symbols.push((__start, __Symbol::Variant2(__nt), __end));
        (2, 2)
    }
    fn __reduce4<
    >(
        __lookahead_start: Option<&Loc>,
        __symbols: &mut alloc::vec::Vec<(Loc,__Symbol<>,Loc)>,
        _: core::marker::PhantomData<()>,
    ) -> (usize, usize)
    {
        // (<N3> ",")* =  => ActionFn(11);
        let __start = __lookahead_start.cloned().or_else(|| __symbols.last().map(|s| s.2.clone())).unwrap_or_default();
        let __end = __start.clone();
        let __nt = super::__action11::<>(&__start, &__end);
        __symbols.push((__start, __Symbol::Variant3(__nt), __end));
        (0, 3)
    }
    fn __reduce5<
    >(
        __lookahead_start: Option<&Loc>,
        __symbols: &mut alloc::vec::Vec<(Loc,__Symbol<>,Loc)>,
        _: core::marker::PhantomData<()>,
    ) -> (usize, usize)
    {
        // (<N3> ",")* = (<N3> ",")+ => ActionFn(12);
        let __sym0 = __pop_Variant3(__symbols);
        let __start = __sym0.0.clone();
        let __end = __sym0.2.clone();
        let __nt = super::__action12::<>(__sym0);
        __symbols.push((__start, __Symbol::Variant3(__nt), __end));
        (1, 3)
    }
    fn __reduce6<
    >(
        __lookahead_start: Option<&Loc>,
        __symbols: &mut alloc::vec::Vec<(Loc,__Symbol<>,Loc)>,
        _: core::marker::PhantomData<()>,
    ) -> (usize, usize)
    {
        // (<N3> ",")+ = N3, "," => ActionFn(29);
        assert!(__symbols.len() >= 2);
        let __sym1 = __pop_Variant0(__symbols);
        let __sym0 = __pop_Variant2(__symbols);
        let __start = __sym0.0.clone();
        let __end = __sym1.2.clone();
        let __nt = super::__action29::<>(__sym0, __sym1);
        __symbols.push((__start, __Symbol::Variant3(__nt), __end));
        (2, 4)
    }
    fn __reduce7<
    >(
        __lookahead_start: Option<&Loc>,
        __symbols: &mut alloc::vec::Vec<(Loc,__Symbol<>,Loc)>,
        _: core::marker::PhantomData<()>,
    ) -> (usize, usize)
    {
        // (<N3> ",")+ = (<N3> ",")+, N3, "," => ActionFn(30);
        assert!(__symbols.len() >= 3);
        let __sym2 = __pop_Variant0(__symbols);
        let __sym1 = __pop_Variant2(__symbols);
        let __sym0 = __pop_Variant3(__symbols);
        let __start = __sym0.0.clone();
        let __end = __sym2.2.clone();
        let __nt = super::__action30::<>(__sym0, __sym1, __sym2);
        __symbols.push((__start, __Symbol::Variant3(__nt), __end));
        (3, 4)
    }
    fn __reduce8<
    >(
        __lookahead_start: Option<&Loc>,
        __symbols: &mut alloc::vec::Vec<(Loc,__Symbol<>,Loc)>,
        _: core::marker::PhantomData<()>,
    ) -> (usize, usize)
    {
        // (<N4> ",") = N4, "," => ActionFn(16);
        assert!(__symbols.len() >= 2);
        let __sym1 = __pop_Variant0(__symbols);
        let __sym0 = __pop_Variant0(__symbols);
        let __start = __sym0.0.clone();
        let __end = __sym1.2.clone();
        let __nt = super::__action16::<>(__sym0, __sym1);
        __symbols.push((__start, __Symbol::Variant0(__nt), __end));
        (2, 5)
    }
    fn __reduce9<
    >(
        __lookahead_start: Option<&Loc>,
        __symbols: &mut alloc::vec::Vec<(Loc,__Symbol<>,Loc)>,
        _: core::marker::PhantomData<()>,
    ) -> (usize, usize)
    {
        // (<N4> ",")* =  => ActionFn(14);
        let __start = __lookahead_start.cloned().or_else(|| __symbols.last().map(|s| s.2.clone())).unwrap_or_default();
        let __end = __start.clone();
        let __nt = super::__action14::<>(&__start, &__end);
        __symbols.push((__start, __Symbol::Variant4(__nt), __end));
        (0, 6)
    }
    fn __reduce10<
    >(
        __lookahead_start: Option<&Loc>,
        __symbols: &mut alloc::vec::Vec<(Loc,__Symbol<>,Loc)>,
        _: core::marker::PhantomData<()>,
    ) -> (usize, usize)
    {
        // (<N4> ",")* = (<N4> ",")+ => ActionFn(15);
        let __sym0 = __pop_Variant4(__symbols);
        let __start = __sym0.0.clone();
        let __end = __sym0.2.clone();
        let __nt = super::__action15::<>(__sym0);
        __symbols.push((__start, __Symbol::Variant4(__nt), __end));
        (1, 6)
    }
    fn __reduce11<
    >(
        __lookahead_start: Option<&Loc>,
        __symbols: &mut alloc::vec::Vec<(Loc,__Symbol<>,Loc)>,
        _: core::marker::PhantomData<()>,
    ) -> (usize, usize)
    {
        // (<N4> ",")+ = N4, "," => ActionFn(33);
        assert!(__symbols.len() >= 2);
        let __sym1 = __pop_Variant0(__symbols);
        let __sym0 = __pop_Variant0(__symbols);
        let __start = __sym0.0.clone();
        let __end = __sym1.2.clone();
        let __nt = super::__action33::<>(__sym0, __sym1);
        __symbols.push((__start, __Symbol::Variant4(__nt), __end));
        (2, 7)
    }
    fn __reduce12<
    >(
        __lookahead_start: Option<&Loc>,
        __symbols: &mut alloc::vec::Vec<(Loc,__Symbol<>,Loc)>,
        _: core::marker::PhantomData<()>,
    ) -> (usize, usize)
    {
        // (<N4> ",")+ = (<N4> ",")+, N4, "," => ActionFn(34);
        assert!(__symbols.len() >= 3);
        let __sym2 = __pop_Variant0(__symbols);
        let __sym1 = __pop_Variant0(__symbols);
        let __sym0 = __pop_Variant4(__symbols);
        let __start = __sym0.0.clone();
        let __end = __sym2.2.clone();
        let __nt = super::__action34::<>(__sym0, __sym1, __sym2);
        __symbols.push((__start, __Symbol::Variant4(__nt), __end));
        (3, 7)
    }
    fn __reduce13<
    >(
        __lookahead_start: Option<&Loc>,
        __symbols: &mut alloc::vec::Vec<(Loc,__Symbol<>,Loc)>,
        _: core::marker::PhantomData<()>,
    ) -> (usize, usize)
    {
        // @L =  => ActionFn(20);
        let __start = __lookahead_start.cloned().or_else(|| __symbols.last().map(|s| s.2.clone())).unwrap_or_default();
        let __end = __start.clone();
        let __nt = super::__action20::<>(&__start, &__end);
        __symbols.push((__start, __Symbol::Variant5(__nt), __end));
        (0, 8)
    }
    fn __reduce14<
    >(
        __lookahead_start: Option<&Loc>,
        __symbols: &mut alloc::vec::Vec<(Loc,__Symbol<>,Loc)>,
        _: core::marker::PhantomData<()>,
    ) -> (usize, usize)
    {
        // @R =  => ActionFn(17);
        let __start = __lookahead_start.cloned().or_else(|| __symbols.last().map(|s| s.2.clone())).unwrap_or_default();
        let __end = __start.clone();
        let __nt = super::__action17::<>(&__start, &__end);
        __symbols.push((__start, __Symbol::Variant5(__nt), __end));
        (0, 9)
    }
    fn __reduce15<
    >(
        __lookahead_start: Option<&Loc>,
        __symbols: &mut alloc::vec::Vec<(Loc,__Symbol<>,Loc)>,
        _: core::marker::PhantomData<()>,
    ) -> (usize, usize)
    {
        // Item = N0, "," => ActionFn(2);
        assert!(__symbols.len() >= 2);
        let __sym1 = __pop_Variant0(__symbols);
        let __sym0 = __pop_Variant8(__symbols);
        let __start = __sym0.0.clone();
        let __end = __sym1.2.clone();
        let __nt = super::__action2::<>(__sym0, __sym1);
        __symbols.push((__start, __Symbol::Variant6(__nt), __end));
        (2, 10)
    }
    fn __reduce16<
    >(
        __lookahead_start: Option<&Loc>,
        __symbols: &mut alloc::vec::Vec<(Loc,__Symbol<>,Loc)>,
        _: core::marker::PhantomData<()>,
    ) -> (usize, usize)
    {
        // Item* =  => ActionFn(18);
        let __start = __lookahead_start.cloned().or_else(|| __symbols.last().map(|s| s.2.clone())).unwrap_or_default();
        let __end = __start.clone();
        let __nt = super::__action18::<>(&__start, &__end);
        __symbols.push((__start, __Symbol::Variant7(__nt), __end));
        (0, 11)
    }
    fn __reduce17<
    >(
        __lookahead_start: Option<&Loc>,
        __symbols: &mut alloc::vec::Vec<(Loc,__Symbol<>,Loc)>,
        _: core::marker::PhantomData<()>,
    ) -> (usize, usize)
    {
        // Item* = Item+ => ActionFn(19);
        let __sym0 = __pop_Variant7(__symbols);
        let __start = __sym0.0.clone();
        let __end = __sym0.2.clone();
        let __nt = super::__action19::<>(__sym0);
        __symbols.push((__start, __Symbol::Variant7(__nt), __end));
        (1, 11)
    }
    fn __reduce18<
    >(
        __lookahead_start: Option<&Loc>,
        __symbols: &mut alloc::vec::Vec<(Loc,__Symbol<>,Loc)>,
        _: core::marker::PhantomData<()>,
    ) -> (usize, usize)
    {
        // Item+ = Item => ActionFn(21);
        let __sym0 = __pop_Variant6(__symbols);
        let __start = __sym0.0.clone();
        let __end = __sym0.2.clone();
        let __nt = super::__action21::<>(__sym0);
        __symbols.push((__start, __Symbol::Variant7(__nt), __end));
        (1, 12)
    }
    fn __reduce19<
    >(
        __lookahead_start: Option<&Loc>,
        __symbols: &mut alloc::vec::Vec<(Loc,__Symbol<>,Loc)>,
        _: core::marker::PhantomData<()>,
    ) -> (usize, usize)
    {
        // Item+ = Item+, Item => ActionFn(22);
        assert!(__symbols.len() >= 2);
        let __sym1 = __pop_Variant6(__symbols);
        let __sym0 = __pop_Variant7(__symbols);
        let __start = __sym0.0.clone();
        let __end = __sym1.2.clone();
        let __nt = super::__action22::<>(__sym0, __sym1);
        __symbols.push((__start, __Symbol::Variant7(__nt), __end));
        (2, 12)
    }
    fn __reduce20<
    >(
        __lookahead_start: Option<&Loc>,
        __symbols: &mut alloc::vec::Vec<(Loc,__Symbol<>,Loc)>,
        _: core::marker::PhantomData<()>,
    ) -> (usize, usize)
    {
        // N0 = N2, "d", N3 => ActionFn(3);
        assert!(__symbols.len() >= 3);
        let __sym2 = __pop_Variant2(__symbols);
        let __sym1 = __pop_Variant0(__symbols);
        let __sym0 = __pop_Variant3(__symbols);
        let __start = __sym0.0.clone();
        let __end = __sym2.2.clone();
        let __nt = super::__action3::<>(__sym0, __sym1, __sym2);
        __symbols.push((__start, __Symbol::Variant8(__nt), __end));
        (3, 13)
    }
    fn __reduce21<
    >(
        __lookahead_start: Option<&Loc>,
        __symbols: &mut alloc::vec::Vec<(Loc,__Symbol<>,Loc)>,
        _: core::marker::PhantomData<()>,
    ) -> (usize, usize)
    {
        // N1 =  => ActionFn(35);
        let __start = __lookahead_start.cloned().or_else(|| __symbols.last().map(|s| s.2.clone())).unwrap_or_default();
        let __end = __start.clone();
        let __nt = super::__action35::<>(&__start, &__end);
        __symbols.push((__start, __Symbol::Variant4(__nt), __end));
        (0, 14)
    }
    fn __reduce22<
    >(
        __lookahead_start: Option<&Loc>,
        __symbols: &mut alloc::vec::Vec<(Loc,__Symbol<>,Loc)>,
        _: core::marker::PhantomData<()>,
    ) -> (usize, usize)
    {
        // N1 = (<N4> ",")+ => ActionFn(36);
        let __sym0 = __pop_Variant4(__symbols);
        let __start = __sym0.0.clone();
        let __end = __sym0.2.clone();
        let __nt = super::__action36::<>(__sym0);
        __symbols.push((__start, __Symbol::Variant4(__nt), __end));
        (1, 14)
    }
    fn __reduce23<
    >(
        __lookahead_start: Option<&Loc>,
        __symbols: &mut alloc::vec::Vec<(Loc,__Symbol<>,Loc)>,
        _: core::marker::PhantomData<()>,
    ) -> (usize, usize)
    {
        // N2 =  => ActionFn(31);
        let __start = __lookahead_start.cloned().or_else(|| __symbols.last().map(|s| s.2.clone())).unwrap_or_default();
        let __end = __start.clone();
        let __nt = super::__action31::<>(&__start, &__end);
        __symbols.push((__start, __Symbol::Variant3(__nt), __end));
        (0, 15)
    }
    fn __reduce24<
    >(
        __lookahead_start: Option<&Loc>,
        __symbols: &mut alloc::vec::Vec<(Loc,__Symbol<>,Loc)>,
        _: core::marker::PhantomData<()>,
    ) -> (usize, usize)
    {
        // N2 = (<N3> ",")+ => ActionFn(32);
        let __sym0 = __pop_Variant3(__symbols);
        let __start = __sym0.0.clone();
        let __end = __sym0.2.clone();
        let __nt = super::__action32::<>(__sym0);
        __symbols.push((__start, __Symbol::Variant3(__nt), __end));
        (1, 15)
    }
    fn __reduce25<
    >(
        __lookahead_start: Option<&Loc>,
        __symbols: &mut alloc::vec::Vec<(Loc,__Symbol<>,Loc)>,
        _: core::marker::PhantomData<()>,
    ) -> (usize, usize)
    {
        // N3 = ("c" N4)+ => ActionFn(6);
        let __sym0 = __pop_Variant2(__symbols);
        let __start = __sym0.0.clone();
        let __end = __sym0.2.clone();
        let __nt = super::__action6::<>(__sym0);
        __symbols.push((__start, __Symbol::Variant2(__nt), __end));
        (1, 16)
    }
    fn __reduce26<
    >(
        __lookahead_start: Option<&Loc>,
        __symbols: &mut alloc::vec::Vec<(Loc,__Symbol<>,Loc)>,
        _: core::marker::PhantomData<()>,
    ) -> (usize, usize)
    {
        // N4 = "a", "b" => ActionFn(7);
        assert!(__symbols.len() >= 2);
        let __sym1 = __pop_Variant0(__symbols);
        let __sym0 = __pop_Variant0(__symbols);
        let __start = __sym0.0.clone();
        let __end = __sym1.2.clone();
        let __nt = super::__action7::<>(__sym0, __sym1);
        __symbols.push((__start, __Symbol::Variant0(__nt), __end));
        (2, 17)
    }
    fn __reduce27<
    >(
        __lookahead_start: Option<&Loc>,
        __symbols: &mut alloc::vec::Vec<(Loc,__Symbol<>,Loc)>,
        _: core::marker::PhantomData<()>,
    ) -> (usize, usize)
    {
        // S =  => ActionFn(39);
        let __start = __lookahead_start.cloned().or_else(|| __symbols.last().map(|s| s.2.clone())).unwrap_or_default();
        let __end = __start.clone();
        let __nt = super::__action39::<>(&__start, &__end);
        __symbols.push((__start, __Symbol::Variant9(__nt), __end));
        (0, 18)
    }
    fn __reduce28<
    >(
        __lookahead_start: Option<&Loc>,
        __symbols: &mut alloc::vec::Vec<(Loc,__Symbol<>,Loc)>,
        _: core::marker::PhantomData<()>,
    ) -> (usize, usize)
    {
        // S = Item+ => ActionFn(40);
        let __sym0 = __pop_Variant7(__symbols);
        let __start = __sym0.0.clone();
        let __end = __sym0.2.clone();
        let __nt = super::__action40::<>(__sym0);
        __symbols.push((__start, __Symbol::Variant9(__nt), __end));
        (1, 18)
    }
}
#[allow(unused_imports)]
pub use self::__parse__S::SParser;

#[allow(clippy::too_many_arguments, clippy::needless_lifetimes, clippy::just_underscores_and_digits, clippy::extra_unused_type_parameters)]
fn __action0<
>(
    (_, __0, _): (Loc, Vec<usize>, Loc),
) -> Vec<usize>
{
    __0
}

#[allow(clippy::too_many_arguments, clippy::needless_lifetimes, clippy::just_underscores_and_digits, clippy::extra_unused_type_parameters)]
fn __action1<
>(
    (_, l, _): (Loc, Loc, Loc),
    (_, xs, _): (Loc, alloc::vec::Vec<usize>, Loc),
    (_, r, _): (Loc, Loc, Loc),
) -> Vec<usize>
{
    { let _ = (&l, &r); xs }
}

#[allow(clippy::too_many_arguments, clippy::needless_lifetimes, clippy::just_underscores_and_digits, clippy::extra_unused_type_parameters)]
fn __action2<
>(
    (_, x, _): (Loc, (alloc::vec::Vec<alloc::vec::Vec<(Tok, Tok)>>, Tok, alloc::vec::Vec<(Tok, Tok)>), Loc),
    (_, _, _): (Loc, Tok, Loc),
) -> usize
{
    sz(&x)
}

#[allow(clippy::too_many_arguments, clippy::needless_lifetimes, clippy::just_underscores_and_digits, clippy::extra_unused_type_parameters)]
fn __action3<
>(
    (_, __0, _): (Loc, alloc::vec::Vec<alloc::vec::Vec<(Tok, Tok)>>, Loc),
    (_, __1, _): (Loc, Tok, Loc),
    (_, __2, _): (Loc, alloc::vec::Vec<(Tok, Tok)>, Loc),
) -> (alloc::vec::Vec<alloc::vec::Vec<(Tok, Tok)>>, Tok, alloc::vec::Vec<(Tok, Tok)>)
{
    (__0, __1, __2)
}

#[allow(clippy::too_many_arguments, clippy::needless_lifetimes, clippy::just_underscores_and_digits, clippy::extra_unused_type_parameters)]
fn __action4<
>(
    (_, __0, _): (Loc, alloc::vec::Vec<Tok>, Loc),
) -> alloc::vec::Vec<Tok>
{
    __0
}

#[allow(clippy::too_many_arguments, clippy::needless_lifetimes, clippy::just_underscores_and_digits, clippy::extra_unused_type_parameters)]
fn __action5<
>(
    (_, __0, _): (Loc, alloc::vec::Vec<alloc::vec::Vec<(Tok, Tok)>>, Loc),
) -> alloc::vec::Vec<alloc::vec::Vec<(Tok, Tok)>>
{
    __0
}

#[allow(clippy::too_many_arguments, clippy::needless_lifetimes, clippy::just_underscores_and_digits, clippy::extra_unused_type_parameters)]
fn __action6<
>(
    (_, __0, _): (Loc, alloc::vec::Vec<(Tok, Tok)>, Loc),
) -> alloc::vec::Vec<(Tok, Tok)>
{
    __0
}

#[allow(clippy::too_many_arguments, clippy::needless_lifetimes, clippy::just_underscores_and_digits, clippy::extra_unused_type_parameters)]
fn __action7<
>(
    (_, __0, _): (Loc, Tok, Loc),
    (_, _, _): (Loc, Tok, Loc),
) -> Tok
{
    __0
}

#[allow(clippy::too_many_arguments, clippy::needless_lifetimes, clippy::just_underscores_and_digits, clippy::extra_unused_type_parameters)]
fn __action8<
>(
    (_, __0, _): (Loc, (Tok, Tok), Loc),
) -> alloc::vec::Vec<(Tok, Tok)>
{
    alloc::vec![__0]
}

#[allow(clippy::too_many_arguments, clippy::needless_lifetimes, clippy::just_underscores_and_digits, clippy::extra_unused_type_parameters)]
fn __action9<
>(
    (_, v, _): (Loc, alloc::vec::Vec<(Tok, Tok)>, Loc),
    (_, e, _): (Loc, (Tok, Tok), Loc),
) -> alloc::vec::Vec<(Tok, Tok)>
{
    { let mut v = v; v.push(e); v }
}

#[allow(clippy::too_many_arguments, clippy::needless_lifetimes, clippy::just_underscores_and_digits, clippy::extra_unused_type_parameters)]
fn __action10<
>(
    (_, __0, _): (Loc, Tok, Loc),
    (_, __1, _): (Loc, Tok, Loc),
) -> (Tok, Tok)
{
    (__0, __1)
}

#[allow(clippy::too_many_arguments, clippy::needless_lifetimes, clippy::just_underscores_and_digits, clippy::extra_unused_type_parameters)]
fn __action11<
>(
    __lookbehind: &Loc,
    __lookahead: &Loc,
) -> alloc::vec::Vec<alloc::vec::Vec<(Tok, Tok)>>
{
    alloc::vec![]
}

#[allow(clippy::too_many_arguments, clippy::needless_lifetimes, clippy::just_underscores_and_digits, clippy::extra_unused_type_parameters)]
fn __action12<
>(
    (_, v, _): (Loc, alloc::vec::Vec<alloc::vec::Vec<(Tok, Tok)>>, Loc),
) -> alloc::vec::Vec<alloc::vec::Vec<(Tok, Tok)>>
{
    v
}

#[allow(clippy::too_many_arguments, clippy::needless_lifetimes, clippy::just_underscores_and_digits, clippy::extra_unused_type_parameters)]
fn __action13<
>(
    (_, __0, _): (Loc, alloc::vec::Vec<(Tok, Tok)>, Loc),
    (_, _, _): (Loc, Tok, Loc),
) -> alloc::vec::Vec<(Tok, Tok)>
{
    __0
}

#[allow(clippy::too_many_arguments, clippy::needless_lifetimes, clippy::just_underscores_and_digits, clippy::extra_unused_type_parameters)]
fn __action14<
>(
    __lookbehind: &Loc,
    __lookahead: &Loc,
) -> alloc::vec::Vec<Tok>
{
    alloc::vec![]
}

#[allow(clippy::too_many_arguments, clippy::needless_lifetimes, clippy::just_underscores_and_digits, clippy::extra_unused_type_parameters)]
fn __action15<
>(
    (_, v, _): (Loc, alloc::vec::Vec<Tok>, Loc),
) -> alloc::vec::Vec<Tok>
{
    v
}

#[allow(clippy::too_many_arguments, clippy::needless_lifetimes, clippy::just_underscores_and_digits, clippy::extra_unused_type_parameters)]
fn __action16<
>(
    (_, __0, _): (Loc, Tok, Loc),
    (_, _, _): (Loc, Tok, Loc),
) -> Tok
{
    __0
}

#[allow(clippy::needless_lifetimes, clippy::clone_on_copy)]
fn __action17<
>(
    __lookbehind: &Loc,
    __lookahead: &Loc,
) -> Loc
{
    __lookbehind.clone()
}

#[allow(clippy::too_many_arguments, clippy::needless_lifetimes, clippy::just_underscores_and_digits, clippy::extra_unused_type_parameters)]
fn __action18<
>(
    __lookbehind: &Loc,
    __lookahead: &Loc,
) -> alloc::vec::Vec<usize>
{
    alloc::vec![]
}

#[allow(clippy::too_many_arguments, clippy::needless_lifetimes, clippy::just_underscores_and_digits, clippy::extra_unused_type_parameters)]
fn __action19<
>(
    (_, v, _): (Loc, alloc::vec::Vec<usize>, Loc),
) -> alloc::vec::Vec<usize>
{
    v
}

#[allow(clippy::needless_lifetimes, clippy::clone_on_copy)]
fn __action20<
>(
    __lookbehind: &Loc,
    __lookahead: &Loc,
) -> Loc
{
    __lookahead.clone()
}

#[allow(clippy::too_many_arguments, clippy::needless_lifetimes, clippy::just_underscores_and_digits, clippy::extra_unused_type_parameters)]
fn __action21<
>(
    (_, __0, _): (Loc, usize, Loc),
) -> alloc::vec::Vec<usize>
{
    alloc::vec![__0]
}

#[allow(clippy::too_many_arguments, clippy::needless_lifetimes, clippy::just_underscores_and_digits, clippy::extra_unused_type_parameters)]
fn __action22<
>(
    (_, v, _): (Loc, alloc::vec::Vec<usize>, Loc),
    (_, e, _): (Loc, usize, Loc),
) -> alloc::vec::Vec<usize>
{
    { let mut v = v; v.push(e); v }
}

#[allow(clippy::too_many_arguments, clippy::needless_lifetimes, clippy::just_underscores_and_digits, clippy::extra_unused_type_parameters)]
fn __action23<
>(
    (_, __0, _): (Loc, Tok, Loc),
) -> alloc::vec::Vec<Tok>
{
    alloc::vec![__0]
}

#[allow(clippy::too_many_arguments, clippy::needless_lifetimes, clippy::just_underscores_and_digits, clippy::extra_unused_type_parameters)]
fn __action24<
>(
    (_, v, _): (Loc, alloc::vec::Vec<Tok>, Loc),
    (_, e, _): (Loc, Tok, Loc),
) -> alloc::vec::Vec<Tok>
{
    { let mut v = v; v.push(e); v }
}

#[allow(clippy::too_many_arguments, clippy::needless_lifetimes, clippy::just_underscores_and_digits, clippy::extra_unused_type_parameters)]
fn __action25<
>(
    (_, __0, _): (Loc, alloc::vec::Vec<(Tok, Tok)>, Loc),
) -> alloc::vec::Vec<alloc::vec::Vec<(Tok, Tok)>>
{
    alloc::vec![__0]
}

#[allow(clippy::too_many_arguments, clippy::needless_lifetimes, clippy::just_underscores_and_digits, clippy::extra_unused_type_parameters)]
fn __action26<
>(
    (_, v, _): (Loc, alloc::vec::Vec<alloc::vec::Vec<(Tok, Tok)>>, Loc),
    (_, e, _): (Loc, alloc::vec::Vec<(Tok, Tok)>, Loc),
) -> alloc::vec::Vec<alloc::vec::Vec<(Tok, Tok)>>
{
    { let mut v = v; v.push(e); v }
}

#[allow(clippy::too_many_arguments, clippy::needless_lifetimes,
    clippy::just_underscores_and_digits, clippy::clone_on_copy, clippy::unit_arg)]
fn __action27<
>(
    __0: (Loc, Tok, Loc),
    __1: (Loc, Tok, Loc),
) -> alloc::vec::Vec<(Tok, Tok)>
{
    let __start0 = __0.0.clone();
    let __end0 = __1.2.clone();
    let __temp0 = __action10(
        __0,
        __1,
    );
    let __temp0 = (__start0, __temp0, __end0);
    __action8(
        __temp0,
    )
}

#[allow(clippy::too_many_arguments, clippy::needless_lifetimes,
    clippy::just_underscores_and_digits, clippy::clone_on_copy, clippy::unit_arg)]
fn __action28<
>(
    __0: (Loc, alloc::vec::Vec<(Tok, Tok)>, Loc),
    __1: (Loc, Tok, Loc),
    __2: (Loc, Tok, Loc),
) -> alloc::vec::Vec<(Tok, Tok)>
{
    let __start0 = __1.0.clone();
    let __end0 = __2.2.clone();
    let __temp0 = __action10(
        __1,
        __2,
    );
    let __temp0 = (__start0, __temp0, __end0);
    __action9(
        __0,
        __temp0,
    )
}

#[allow(clippy::too_many_arguments, clippy::needless_lifetimes,
    clippy::just_underscores_and_digits, clippy::clone_on_copy, clippy::unit_arg)]
fn __action29<
>(
    __0: (Loc, alloc::vec::Vec<(Tok, Tok)>, Loc),
    __1: (Loc, Tok, Loc),
) -> alloc::vec::Vec<alloc::vec::Vec<(Tok, Tok)>>
{
    let __start0 = __0.0.clone();
    let __end0 = __1.2.clone();
    let __temp0 = __action13(
        __0,
        __1,
    );
    let __temp0 = (__start0, __temp0, __end0);
    __action25(
        __temp0,
    )
}

#[allow(clippy::too_many_arguments, clippy::needless_lifetimes,
    clippy::just_underscores_and_digits, clippy::clone_on_copy, clippy::unit_arg)]
fn __action30<
>(
    __0: (Loc, alloc::vec::Vec<alloc::vec::Vec<(Tok, Tok)>>, Loc),
    __1: (Loc, alloc::vec::Vec<(Tok, Tok)>, Loc),
    __2: (Loc, Tok, Loc),
) -> alloc::vec::Vec<alloc::vec::Vec<(Tok, Tok)>>
{
    let __start0 = __1.0.clone();
    let __end0 = __2.2.clone();
    let __temp0 = __action13(
        __1,
        __2,
    );
    let __temp0 = (__start0, __temp0, __end0);
    __action26(
        __0,
        __temp0,
    )
}

#[allow(clippy::too_many_arguments, clippy::needless_lifetimes,
    clippy::just_underscores_and_digits, clippy::clone_on_copy, clippy::unit_arg)]
fn __action31<
>(
    __lookbehind: &Loc,
    __lookahead: &Loc,
) -> alloc::vec::Vec<alloc::vec::Vec<(Tok, Tok)>>
{
    let __start0 = __lookbehind.clone();
    let __end0 = __lookahead.clone();
    let __temp0 = __action11(
        &__start0,
        &__end0,
    );
    let __temp0 = (__start0, __temp0, __end0);
    __action5(
        __temp0,
    )
}

#[allow(clippy::too_many_arguments, clippy::needless_lifetimes,
    clippy::just_underscores_and_digits, clippy::clone_on_copy, clippy::unit_arg)]
fn __action32<
>(
    __0: (Loc, alloc::vec::Vec<alloc::vec::Vec<(Tok, Tok)>>, Loc),
) -> alloc::vec::Vec<alloc::vec::Vec<(Tok, Tok)>>
{
    let __start0 = __0.0.clone();
    let __end0 = __0.2.clone();
    let __temp0 = __action12(
        __0,
    );
    let __temp0 = (__start0, __temp0, __end0);
    __action5(
        __temp0,
    )
}

#[allow(clippy::too_many_arguments, clippy::needless_lifetimes,
    clippy::just_underscores_and_digits, clippy::clone_on_copy, clippy::unit_arg)]
fn __action33<
>(
    __0: (Loc, Tok, Loc),
    __1: (Loc, Tok, Loc),
) -> alloc::vec::Vec<Tok>
{
    let __start0 = __0.0.clone();
    let __end0 = __1.2.clone();
    let __temp0 = __action16(
        __0,
        __1,
    );
    let __temp0 = (__start0, __temp0, __end0);
    __action23(
        __temp0,
    )
}

#[allow(clippy::too_many_arguments, clippy::needless_lifetimes,
    clippy::just_underscores_and_digits, clippy::clone_on_copy, clippy::unit_arg)]
fn __action34<
>(
    __0: (Loc, alloc::vec::Vec<Tok>, Loc),
    __1: (Loc, Tok, Loc),
    __2: (Loc, Tok, Loc),
) -> alloc::vec::Vec<Tok>
{
    let __start0 = __1.0.clone();
    let __end0 = __2.2.clone();
    let __temp0 = __action16(
        __1,
        __2,
    );
    let __temp0 = (__start0, __temp0, __end0);
    __action24(
        __0,
        __temp0,
    )
}

#[allow(clippy::too_many_arguments, clippy::needless_lifetimes,
    clippy::just_underscores_and_digits, clippy::clone_on_copy, clippy::unit_arg)]
fn __action35<
>(
    __lookbehind: &Loc,
    __lookahead: &Loc,
) -> alloc::vec::Vec<Tok>
{
    let __start0 = __lookbehind.clone();
    let __end0 = __lookahead.clone();
    let __temp0 = __action14(
        &__start0,
        &__end0,
    );
    let __temp0 = (__start0, __temp0, __end0);
    __action4(
        __temp0,
    )
}

#[allow(clippy::too_many_arguments, clippy::needless_lifetimes,
    clippy::just_underscores_and_digits, clippy::clone_on_copy, clippy::unit_arg)]
fn __action36<
>(
    __0: (Loc, alloc::vec::Vec<Tok>, Loc),
) -> alloc::vec::Vec<Tok>
{
    let __start0 = __0.0.clone();
    let __end0 = __0.2.clone();
    let __temp0 = __action15(
        __0,
    );
    let __temp0 = (__start0, __temp0, __end0);
    __action4(
        __temp0,
    )
}

#[allow(clippy::too_many_arguments, clippy::needless_lifetimes,
    clippy::just_underscores_and_digits, clippy::clone_on_copy, clippy::unit_arg)]
fn __action37<
>(
    __0: (Loc, alloc::vec::Vec<usize>, Loc),
    __1: (Loc, Loc, Loc),
) -> Vec<usize>
{
    let __start0 = __0.0.clone();
    let __end0 = __0.0.clone();
    let __temp0 = __action20(
        &__start0,
        &__end0,
    );
    let __temp0 = (__start0, __temp0, __end0);
    __action1(
        __temp0,
        __0,
        __1,
    )
}

#[allow(clippy::too_many_arguments, clippy::needless_lifetimes,
    clippy::just_underscores_and_digits, clippy::clone_on_copy, clippy::unit_arg)]
fn __action38<
>(
    __0: (Loc, alloc::vec::Vec<usize>, Loc),
) -> Vec<usize>
{
    let __start0 = __0.2.clone();
    let __end0 = __0.2.clone();
    let __temp0 = __action17(
        &__start0,
        &__end0,
    );
    let __temp0 = (__start0, __temp0, __end0);
    __action37(
        __0,
        __temp0,
    )
}

#[allow(clippy::too_many_arguments, clippy::needless_lifetimes,
    clippy::just_underscores_and_digits, clippy::clone_on_copy, clippy::unit_arg)]
fn __action39<
>(
    __lookbehind: &Loc,
    __lookahead: &Loc,
) -> Vec<usize>
{
    let __start0 = __lookbehind.clone();
    let __end0 = __lookahead.clone();
    let __temp0 = __action18(
        &__start0,
        &__end0,
    );
    let __temp0 = (__start0, __temp0, __end0);
    __action38(
        __temp0,
    )
}

#[allow(clippy::too_many_arguments, clippy::needless_lifetimes,
    clippy::just_underscores_and_digits, clippy::clone_on_copy, clippy::unit_arg)]
fn __action40<
>(
    __0: (Loc, alloc::vec::Vec<usize>, Loc),
) -> Vec<usize>
{
    let __start0 = __0.0.clone();
    let __end0 = __0.2.clone();
    let __temp0 = __action19(
        __0,
    );
    let __temp0 = (__start0, __temp0, __end0);
    __action38(
        __temp0,
    )
}

#[allow(clippy::type_complexity, dead_code)]
pub trait __ToTriple<>
{
    fn to_triple(self) -> Result<(Loc,Tok,Loc), __lalrpop_util::ParseError<Loc, Tok, String>>;
}

impl<> __ToTriple<> for (Loc, Tok, Loc)
{
    fn to_triple(self) -> Result<(Loc,Tok,Loc), __lalrpop_util::ParseError<Loc, Tok, String>> {
        Ok(self)
    }
}
impl<> __ToTriple<> for Result<(Loc, Tok, Loc), String>
{
    fn to_triple(self) -> Result<(Loc,Tok,Loc), __lalrpop_util::ParseError<Loc, Tok, String>> {
        self.map_err(|error| __lalrpop_util::ParseError::User { error })
    }
}
