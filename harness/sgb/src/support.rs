#![allow(warnings)]
