#![allow(warnings)]

use std::fmt::Debug;
pub fn sz<T: Debug>(t: &T) -> usize { format!("{:?}", t).len() }
#[derive(Clone, Debug, PartialEq)]
pub enum Tok { A, B, C, D, Comma }
#[derive(Clone, Debug, PartialEq, Default)]
pub struct Loc(pub String);          // deliberately not Copy
#[derive(Clone, Debug, PartialEq)]
pub struct Ast<'a, T> { pub name: &'a str, pub items: Vec<T> }
