/* LD_PRELOAD crash injector for the C22 check.
   Counts, cumulatively over the whole process, (a) the bytes that reach regular files below
   $CRASH_DIR and (b) the metadata operations on paths below it (create/truncate, unlink, rename).
   CRASH_AT_BYTES=K : let exactly K bytes through, then SIGKILL (before byte K+1 is written)
   CRASH_AT_OP=N    : SIGKILL immediately before the N-th metadata operation (1-based)
   CRASH_LOG=file   : at exit (or never, if killed) append "bytes ops" totals -- used by the dry run. */
#define _GNU_SOURCE
#include <dlfcn.h>
#include <fcntl.h>
#include <signal.h>
#include <stdarg.h>
#include <stdio.h>
#include <stdlib.h>
#include <string.h>
#include <sys/stat.h>
#include <sys/types.h>
#include <unistd.h>

static long budget = -1, op_at = -1, bytes_seen = 0, ops_seen = 0;
static const char *dir = NULL, *logf = NULL;
static int inited = 0;

static void fini(void) {
    if (logf) {
        int (*ropen)(const char *, int, ...) = dlsym(RTLD_NEXT, "open");
        ssize_t (*rwrite)(int, const void *, size_t) = dlsym(RTLD_NEXT, "write");
        int fd = ropen(logf, O_WRONLY | O_CREAT | O_APPEND, 0644);
        if (fd >= 0) { char b[64]; int n = snprintf(b, sizeof b, "%ld %ld\n", bytes_seen, ops_seen); rwrite(fd, b, n); close(fd); }
    }
}
static void init(void) {
    if (inited) return;
    inited = 1;
    const char *s;
    if ((s = getenv("CRASH_AT_BYTES"))) budget = atol(s);
    if ((s = getenv("CRASH_AT_OP"))) op_at = atol(s);
    dir = getenv("CRASH_DIR");
    logf = getenv("CRASH_LOG");
    atexit(fini);
}
static void die(void) { kill(getpid(), SIGKILL); for (;;) pause(); }

static int path_tracked(const char *p) {
    char buf[4096];
    if (!dir || !p) return 0;
    if (p[0] != '/') { if (!getcwd(buf, sizeof buf - 1)) return 0; return strncmp(buf, dir, strlen(dir)) == 0; }
    return strncmp(p, dir, strlen(dir)) == 0;
}
static int fd_tracked(int fd) {
    struct stat st; char l[64], p[4096]; ssize_t n;
    if (!dir || fstat(fd, &st) || !S_ISREG(st.st_mode)) return 0;
    snprintf(l, sizeof l, "/proc/self/fd/%d", fd);
    n = readlink(l, p, sizeof p - 1);
    if (n <= 0) return 0;
    p[n] = 0;
    return strncmp(p, dir, strlen(dir)) == 0;
}
static void meta_op(const char *p) {
    init();
    if (!path_tracked(p)) return;
    ops_seen++;
    if (op_at >= 0 && ops_seen == op_at) die();
}

ssize_t write(int fd, const void *b, size_t n) {
    static ssize_t (*real)(int, const void *, size_t);
    if (!real) real = dlsym(RTLD_NEXT, "write");
    init();
    if (n > 0 && fd_tracked(fd)) {
        if (budget >= 0 && (long)n > budget) { if (budget > 0) real(fd, b, budget); die(); }
        if (budget >= 0) budget -= n;
        bytes_seen += n;
    }
    return real(fd, b, n);
}
static long remaining_in(int fd_in, off64_t *off) {
    struct stat st; off64_t cur;
    if (fstat(fd_in, &st)) return 0;
    cur = off ? *off : lseek64(fd_in, 0, SEEK_CUR);
    return st.st_size > cur ? (long)(st.st_size - cur) : 0;
}
ssize_t copy_file_range(int fi, off64_t *oi, int fo, off64_t *oo, size_t len, unsigned int fl) {
    static ssize_t (*real)(int, off64_t *, int, off64_t *, size_t, unsigned int);
    if (!real) real = dlsym(RTLD_NEXT, "copy_file_range");
    init();
    if (fd_tracked(fo)) {
        long rem = remaining_in(fi, oi);
        if ((long)len < rem) rem = len;
        if (budget >= 0 && rem > budget) { if (budget > 0) real(fi, oi, fo, oo, budget, fl); die(); }
        if (budget >= 0) budget -= rem;
        bytes_seen += rem;
    }
    return real(fi, oi, fo, oo, len, fl);
}
ssize_t sendfile64(int fo, int fi, off64_t *off, size_t len) {
    static ssize_t (*real)(int, int, off64_t *, size_t);
    if (!real) real = dlsym(RTLD_NEXT, "sendfile64");
    init();
    if (fd_tracked(fo)) {
        long rem = remaining_in(fi, off);
        if ((long)len < rem) rem = len;
        if (budget >= 0 && rem > budget) { if (budget > 0) real(fo, fi, off, budget); die(); }
        if (budget >= 0) budget -= rem;
        bytes_seen += rem;
    }
    return real(fo, fi, off, len);
}
ssize_t sendfile(int fo, int fi, off_t *off, size_t len) { return sendfile64(fo, fi, (off64_t *)off, len); }

#define OPEN_HOOK(name)                                                         \
    int name(const char *p, int flags, ...) {                                   \
        static int (*real)(const char *, int, ...);                             \
        mode_t m = 0;                                                           \
        if (!real) real = dlsym(RTLD_NEXT, #name);                              \
        if (flags & (O_CREAT | O_TMPFILE)) { va_list a; va_start(a, flags); m = va_arg(a, mode_t); va_end(a); } \
        if (flags & (O_CREAT | O_TRUNC)) meta_op(p);                            \
        return real(p, flags, m);                                               \
    }
OPEN_HOOK(open)
OPEN_HOOK(open64)
int openat(int dfd, const char *p, int flags, ...) {
    static int (*real)(int, const char *, int, ...);
    mode_t m = 0;
    if (!real) real = dlsym(RTLD_NEXT, "openat");
    if (flags & (O_CREAT | O_TMPFILE)) { va_list a; va_start(a, flags); m = va_arg(a, mode_t); va_end(a); }
    if (flags & (O_CREAT | O_TRUNC)) meta_op(p);
    return real(dfd, p, flags, m);
}
int openat64(int dfd, const char *p, int flags, ...) {
    static int (*real)(int, const char *, int, ...);
    mode_t m = 0;
    if (!real) real = dlsym(RTLD_NEXT, "openat64");
    if (flags & (O_CREAT | O_TMPFILE)) { va_list a; va_start(a, flags); m = va_arg(a, mode_t); va_end(a); }
    if (flags & (O_CREAT | O_TRUNC)) meta_op(p);
    return real(dfd, p, flags, m);
}
int unlink(const char *p) {
    static int (*real)(const char *);
    if (!real) real = dlsym(RTLD_NEXT, "unlink");
    meta_op(p);
    return real(p);
}
int rename(const char *a, const char *b) {
    static int (*real)(const char *, const char *);
    if (!real) real = dlsym(RTLD_NEXT, "rename");
    meta_op(b);
    return real(a, b);
}
