//! Runtime shared by all compiled test grammars: token and tree types, action helpers that log
//! themselves, the failing-action oracle, serialisation (same shape as harness/src/bin/drv.rs, with
//! node labels "NT#alt" instead of production indices).
use lalrpop_util::{ErrorRecovery, ParseError};
use std::cell::RefCell;
use std::collections::HashMap;

#[derive(Clone, Debug, PartialEq)]
pub struct Tok(pub char, pub u64, pub i64, pub i64);

pub type PE = ParseError<i64, Tok, u64>;

#[derive(Debug)]
pub enum Tree {
    Leaf(Tok),
    Err(i64, i64, ErrorRecovery<i64, Tok, u64>),
    Node(&'static str, i64, i64, Vec<Tree>),
    Vals(Vec<Tree>),
    Int(i64),
    Unit,
}
impl From<Tok> for Tree {
    fn from(t: Tok) -> Tree { Tree::Leaf(t) }
}
impl From<()> for Tree {
    fn from(_: ()) -> Tree { Tree::Unit }
}
impl From<i64> for Tree {
    fn from(x: i64) -> Tree { Tree::Int(x) }
}
impl<T: Into<Tree>> From<Vec<T>> for Tree {
    fn from(v: Vec<T>) -> Tree { Tree::Vals(v.into_iter().map(Into::into).collect()) }
}
impl<T: Into<Tree>> From<Option<T>> for Tree {
    fn from(v: Option<T>) -> Tree { Tree::Vals(v.into_iter().map(Into::into).collect()) }
}
impl<A: Into<Tree>, B: Into<Tree>> From<(A, B)> for Tree {
    fn from(v: (A, B)) -> Tree { Tree::Vals(vec![v.0.into(), v.1.into()]) }
}
impl<A: Into<Tree>, B: Into<Tree>, C: Into<Tree>> From<(A, B, C)> for Tree {
    fn from(v: (A, B, C)) -> Tree { Tree::Vals(vec![v.0.into(), v.1.into(), v.2.into()]) }
}

thread_local! {
    pub static LOG: RefCell<Vec<String>> = RefCell::new(Vec::new());
    pub static ORACLE: RefCell<HashMap<(String, u64), u64>> = RefCell::new(HashMap::new());
}

fn first_leaf_id(kids: &[Tree]) -> u64 {
    fn go(t: &Tree) -> Option<u64> {
        match t {
            Tree::Leaf(k) => Some(k.1),
            Tree::Node(_, _, _, ks) | Tree::Vals(ks) => ks.iter().find_map(go),
            _ => None,
        }
    }
    kids.iter().find_map(go).unwrap_or(0)
}

pub fn node(label: &'static str, l: i64, r: i64, kids: Vec<Tree>) -> Tree {
    LOG.with(|g| g.borrow_mut().push(format!("A:{label}:{l}:{r}")));
    Tree::Node(label, l, r, kids)
}
/// node built from `<>` (whatever lalrpop substitutes for it: named bindings or anonymous selections)
#[macro_export]
macro_rules! nodex {
    ($label:expr; $($x:expr),* $(,)?) => {
        $crate::rt::node($label, 0, 0, vec![$($crate::rt::Tree::from($x)),*])
    };
}
pub fn probe(label: &'static str, pos: usize, kind: char, v: i64) {
    LOG.with(|g| g.borrow_mut().push(format!("B:{label}:{pos}:{kind}:{v}")));
}
pub fn err_node(l: i64, r: i64, e: ErrorRecovery<i64, Tok, u64>) -> Tree {
    Tree::Err(l, r, e)
}
pub fn fallible(label: &'static str, l: i64, r: i64, kids: Vec<Tree>) -> Result<Tree, PE> {
    let key = (label.to_string(), first_leaf_id(&kids));
    if let Some(e) = ORACLE.with(|o| o.borrow().get(&key).copied()) {
        LOG.with(|g| g.borrow_mut().push(format!("F:{label}")));
        return Err(ParseError::User { error: e });
    }
    Ok(node(label, l, r, kids))
}

pub fn ser_tok(k: &Tok) -> String {
    format!("k({},{},{},{})", k.0, k.1, k.2, k.3)
}
pub fn ser_err(e: &PE) -> String {
    match e {
        ParseError::UnrecognizedToken { token, expected } => {
            format!("UT({},{},{};[{}])", token.0, ser_tok(&token.1), token.2, expected.join(" "))
        }
        ParseError::UnrecognizedEof { location, expected } => format!("UE({};[{}])", location, expected.join(" ")),
        ParseError::ExtraToken { token } => format!("XT({},{},{})", token.0, ser_tok(&token.1), token.2),
        ParseError::User { error } => format!("US({error})"),
        ParseError::InvalidToken { location } => format!("IT({location})"),
    }
}
pub fn ser_tree(t: &Tree) -> String {
    match t {
        Tree::Leaf(k) => ser_tok(k),
        Tree::Err(l, r, e) => format!(
            "E({},{},{},[{}])", l, r, ser_err(&e.error),
            e.dropped_tokens.iter().map(|d| format!("{}:{}:{}", d.0, ser_tok(&d.1), d.2)).collect::<Vec<_>>().join(" ")
        ),
        Tree::Node(lb, l, r, ks) => format!("N({},{},{},[{}])", lb, l, r, ks.iter().map(ser_tree).collect::<Vec<_>>().join(" ")),
        Tree::Vals(ks) => format!("V([{}])", ks.iter().map(ser_tree).collect::<Vec<_>>().join(" ")),
        Tree::Int(x) => format!("I({x})"),
        Tree::Unit => "U".to_string(),
    }
}

/// one case: items = k:<char>:<id>:<lo>:<hi> | u:<code>; oracle = label:id:e
pub fn run_case<F>(items: &str, oracle: &str, parse: F) -> String
where
    F: FnOnce(Box<dyn Iterator<Item = Result<(i64, Tok, i64), u64>>>) -> Result<Tree, PE> + std::panic::UnwindSafe,
{
    let mut v: Vec<Result<(i64, Tok, i64), u64>> = Vec::new();
    for it in items.split_whitespace() {
        let p: Vec<&str> = it.split(':').collect();
        match p[0] {
            "k" => {
                let (lo, hi): (i64, i64) = (p[3].parse().unwrap(), p[4].parse().unwrap());
                v.push(Ok((lo, Tok(p[1].chars().next().unwrap(), p[2].parse().unwrap(), lo, hi), hi)));
            }
            "u" => v.push(Err(p[1].parse().unwrap())),
            _ => panic!("bad item"),
        }
    }
    LOG.with(|g| g.borrow_mut().clear());
    ORACLE.with(|o| {
        let mut o = o.borrow_mut();
        o.clear();
        for t in oracle.split_whitespace() {
            let p: Vec<&str> = t.split(':').collect();
            o.insert((p[0].to_string(), p[1].parse().unwrap()), p[2].parse().unwrap());
        }
    });
    let mut n = 0usize;
    let it = v.into_iter().map(move |x| {
        LOG.with(|g| g.borrow_mut().push(format!("P:{n}")));
        n += 1;
        x
    });
    let r = std::panic::catch_unwind(move || parse(Box::new(it)));
    let res = match r {
        Ok(Ok(t)) => format!("OK {}", ser_tree(&t)),
        Ok(Err(e)) => format!("ERR {}", ser_err(&e)),
        Err(_) => "PANIC".to_string(),
    };
    let log = LOG.with(|g| g.borrow().join(","));
    format!("{res} | {log}")
}
