// auto-generated: "lalrpop 0.23.1"
// sha3: 5a18cd2c556ebd33f1f2ced5bd836f14f44a11a52a02b32276f1eeacf3d78842
use crate::rt::*;
#[allow(unused_extern_crates)]
extern crate lalrpop_util as __lalrpop_util;
#[allow(unused_imports)]
use self::__lalrpop_util::state_machine as __state_machine;
#[allow(unused_extern_crates)]
extern crate alloc;

#[rustfmt::skip]
#[allow(explicit_outlives_requirements, non_snake_case, non_camel_case_types, unused_mut, unused_variables, unused_imports, unused_parens, clippy::needless_lifetimes, clippy::type_complexity, clippy::needless_return, clippy::too_many_arguments, clippy::match_single_binding, clippy::clone_on_copy, clippy::unit_arg)]
mod __parse__E {

    use crate::rt::*;
    #[allow(unused_extern_crates)]
    extern crate lalrpop_util as __lalrpop_util;
    #[allow(unused_imports)]
    use self::__lalrpop_util::state_machine as __state_machine;
    #[allow(unused_extern_crates)]
    extern crate alloc;
    use super::__ToTriple;
    pub struct EParser {
        _priv: (),
    }

    impl Default for EParser { fn default() -> Self { Self::new() } }
    impl EParser {
        pub fn new() -> EParser {
            EParser {
                _priv: (),
            }
        }

        #[allow(dead_code)]
        pub fn parse<
            __TOKEN: __ToTriple<>,
            __TOKENS: IntoIterator<Item=__TOKEN>,
        >(
            &self,
            __tokens0: __TOKENS,
        ) -> Result<Tree, __lalrpop_util::ParseError<i64, Tok, u64>>
        {
            let __tokens = __tokens0.into_iter();
            let mut __tokens = __tokens.map(|t| __ToTriple::to_triple(t));
            let __lookahead = match __tokens.next() {
                Some(Ok(v)) => Some(v),
                Some(Err(e)) => return Err(e),
                None => None,
            };
            match __state0(&mut __tokens, __lookahead, core::marker::PhantomData::<()>)? {
                (Some(__lookahead), _) => {
                    Err(__lalrpop_util::ParseError::ExtraToken { token: __lookahead })
                }
                (None, __Nonterminal::____E((_, __nt, _))) => {
                    Ok(__nt)
                }
                _ => unreachable!(),
            }
        }
    }

    #[allow(dead_code)]
    enum __Nonterminal<>
     {
        _40L((i64, i64, i64)),
        _40R((i64, i64, i64)),
        E((i64, Tree, i64)),
        F((i64, Tree, i64)),
        T((i64, Tree, i64)),
        ____E((i64, Tree, i64)),
    }

    fn __state0<
        __TOKENS: Iterator<Item=Result<(i64, Tok, i64),__lalrpop_util::ParseError<i64, Tok, u64>>>,
    >(
        __tokens: &mut __TOKENS,
        __lookahead: Option<(i64, Tok, i64)>,
        _: core::marker::PhantomData<()>,
    ) -> Result<(Option<(i64, Tok, i64)>, __Nonterminal<>), __lalrpop_util::ParseError<i64, Tok, u64>>
    {
        let mut __result: (Option<(i64, Tok, i64)>, __Nonterminal<>);
        match __lookahead {
            Some((__loc1, __tok @ Tok('c', _, _, _), __loc2)) => {
                let __sym0 = (__loc1, (__tok), __loc2);
                __result = __state1(__tokens, __sym0, core::marker::PhantomData::<()>)?;
            }
            Some((__loc1, __tok @ Tok('e', _, _, _), __loc2)) => {
                let __sym0 = (__loc1, (__tok), __loc2);
                __result = __state7(__tokens, __sym0, core::marker::PhantomData::<()>)?;
            }
            _ => {
                #[allow(clippy::needless_raw_string_hashes)]
                let __expected = alloc::vec![
                    r###""(""###.to_string(),
                    r###""x""###.to_string(),
                ];
                return Err(
                    match __lookahead {
                        Some(__token) => {
                            __lalrpop_util::ParseError::UnrecognizedToken {
                                token: __token,
                                expected: __expected,
                            }
                        }
                        None => {
                            let __location = Default::default();
                            __lalrpop_util::ParseError::UnrecognizedEof {
                                location: __location,
                                expected: __expected,
                            }
                        }
                    }
                )
            }
        }
        #[allow(clippy::never_loop)]
        loop {
            let (__lookahead, __nt) = __result;
            match __nt {
                __Nonterminal::E(__sym0) => {
                    __result = __state4(__tokens, __lookahead, __sym0, core::marker::PhantomData::<()>)?;
                }
                __Nonterminal::F(__sym0) => {
                    __result = __state5(__tokens, __lookahead, __sym0, core::marker::PhantomData::<()>)?;
                }
                __Nonterminal::T(__sym0) => {
                    __result = __state6(__tokens, __lookahead, __sym0, core::marker::PhantomData::<()>)?;
                }
                _ => {
                    return Ok((__lookahead, __nt));
                }
            }
        }
    }

    fn __state1<
        __TOKENS: Iterator<Item=Result<(i64, Tok, i64),__lalrpop_util::ParseError<i64, Tok, u64>>>,
    >(
        __tokens: &mut __TOKENS,
        __sym0: (i64, Tok, i64),
        _: core::marker::PhantomData<()>,
    ) -> Result<(Option<(i64, Tok, i64)>, __Nonterminal<>), __lalrpop_util::ParseError<i64, Tok, u64>>
    {
        let mut __result: (Option<(i64, Tok, i64)>, __Nonterminal<>);
        let __lookahead = match __tokens.next() {
            Some(Ok(v)) => Some(v),
            Some(Err(e)) => return Err(e),
            None => None,
        };
        let __sym0 = &mut Some(__sym0);
        match __lookahead {
            Some((__loc1, __tok @ Tok('c', _, _, _), __loc2)) => {
                let __sym1 = (__loc1, (__tok), __loc2);
                __result = __state1(__tokens, __sym1, core::marker::PhantomData::<()>)?;
            }
            Some((__loc1, __tok @ Tok('e', _, _, _), __loc2)) => {
                let __sym1 = (__loc1, (__tok), __loc2);
                __result = __state7(__tokens, __sym1, core::marker::PhantomData::<()>)?;
            }
            _ => {
                #[allow(clippy::needless_raw_string_hashes)]
                let __expected = alloc::vec![
                    r###""(""###.to_string(),
                    r###""x""###.to_string(),
                ];
                return Err(
                    match __lookahead {
                        Some(__token) => {
                            __lalrpop_util::ParseError::UnrecognizedToken {
                                token: __token,
                                expected: __expected,
                            }
                        }
                        None => {
                            let __location = 
                            __sym0.as_ref().map(|sym| sym.2.clone()).unwrap_or_else(|| {
                                Default::default()
                            })
                            ;
                            __lalrpop_util::ParseError::UnrecognizedEof {
                                location: __location,
                                expected: __expected,
                            }
                        }
                    }
                )
            }
        }
        #[allow(clippy::never_loop)]
        loop {
            if __sym0.is_none() {
                return Ok(__result);
            }
            let (__lookahead, __nt) = __result;
            match __nt {
                __Nonterminal::E(__sym1) => {
                    __result = __state8(__tokens, __lookahead, __sym0, __sym1, core::marker::PhantomData::<()>)?;
                }
                __Nonterminal::F(__sym1) => {
                    __result = __state5(__tokens, __lookahead, __sym1, core::marker::PhantomData::<()>)?;
                }
                __Nonterminal::T(__sym1) => {
                    __result = __state6(__tokens, __lookahead, __sym1, core::marker::PhantomData::<()>)?;
                }
                _ => {
                    return Ok((__lookahead, __nt));
                }
            }
        }
    }

    fn __state2<
        __TOKENS: Iterator<Item=Result<(i64, Tok, i64),__lalrpop_util::ParseError<i64, Tok, u64>>>,
    >(
        __tokens: &mut __TOKENS,
        __sym0: (i64, Tree, i64),
        __sym1: (i64, Tok, i64),
        _: core::marker::PhantomData<()>,
    ) -> Result<(Option<(i64, Tok, i64)>, __Nonterminal<>), __lalrpop_util::ParseError<i64, Tok, u64>>
    {
        let mut __result: (Option<(i64, Tok, i64)>, __Nonterminal<>);
        let __lookahead = match __tokens.next() {
            Some(Ok(v)) => Some(v),
            Some(Err(e)) => return Err(e),
            None => None,
        };
        let __sym0 = &mut Some(__sym0);
        let __sym1 = &mut Some(__sym1);
        match __lookahead {
            Some((__loc1, __tok @ Tok('c', _, _, _), __loc2)) => {
                let __sym2 = (__loc1, (__tok), __loc2);
                __result = __state1(__tokens, __sym2, core::marker::PhantomData::<()>)?;
            }
            Some((__loc1, __tok @ Tok('e', _, _, _), __loc2)) => {
                let __sym2 = (__loc1, (__tok), __loc2);
                __result = __state7(__tokens, __sym2, core::marker::PhantomData::<()>)?;
            }
            _ => {
                #[allow(clippy::needless_raw_string_hashes)]
                let __expected = alloc::vec![
                    r###""(""###.to_string(),
                    r###""x""###.to_string(),
                ];
                return Err(
                    match __lookahead {
                        Some(__token) => {
                            __lalrpop_util::ParseError::UnrecognizedToken {
                                token: __token,
                                expected: __expected,
                            }
                        }
                        None => {
                            let __location = 
                            __sym1.as_ref().map(|sym| sym.2.clone()).unwrap_or_else(|| {
                                __sym0.as_ref().map(|sym| sym.2.clone()).unwrap_or_else(|| {
                                    Default::default()
                                })
                            })
                            ;
                            __lalrpop_util::ParseError::UnrecognizedEof {
                                location: __location,
                                expected: __expected,
                            }
                        }
                    }
                )
            }
        }
        #[allow(clippy::never_loop)]
        loop {
            if __sym1.is_none() {
                return Ok(__result);
            }
            let (__lookahead, __nt) = __result;
            match __nt {
                __Nonterminal::F(__sym2) => {
                    __result = __state5(__tokens, __lookahead, __sym2, core::marker::PhantomData::<()>)?;
                }
                __Nonterminal::T(__sym2) => {
                    __result = __state9(__tokens, __lookahead, __sym0, __sym1, __sym2, core::marker::PhantomData::<()>)?;
                }
                _ => {
                    return Ok((__lookahead, __nt));
                }
            }
        }
    }

    fn __state3<
        __TOKENS: Iterator<Item=Result<(i64, Tok, i64),__lalrpop_util::ParseError<i64, Tok, u64>>>,
    >(
        __tokens: &mut __TOKENS,
        __sym0: (i64, Tree, i64),
        __sym1: (i64, Tok, i64),
        _: core::marker::PhantomData<()>,
    ) -> Result<(Option<(i64, Tok, i64)>, __Nonterminal<>), __lalrpop_util::ParseError<i64, Tok, u64>>
    {
        let mut __result: (Option<(i64, Tok, i64)>, __Nonterminal<>);
        let __lookahead = match __tokens.next() {
            Some(Ok(v)) => Some(v),
            Some(Err(e)) => return Err(e),
            None => None,
        };
        match __lookahead {
            Some((__loc1, __tok @ Tok('c', _, _, _), __loc2)) => {
                let __sym2 = (__loc1, (__tok), __loc2);
                __result = __state1(__tokens, __sym2, core::marker::PhantomData::<()>)?;
            }
            Some((__loc1, __tok @ Tok('e', _, _, _), __loc2)) => {
                let __sym2 = (__loc1, (__tok), __loc2);
                __result = __state7(__tokens, __sym2, core::marker::PhantomData::<()>)?;
            }
            _ => {
                #[allow(clippy::needless_raw_string_hashes)]
                let __expected = alloc::vec![
                    r###""(""###.to_string(),
                    r###""x""###.to_string(),
                ];
                return Err(
                    match __lookahead {
                        Some(__token) => {
                            __lalrpop_util::ParseError::UnrecognizedToken {
                                token: __token,
                                expected: __expected,
                            }
                        }
                        None => {
                            let __location = __sym1.2.clone();
                            __lalrpop_util::ParseError::UnrecognizedEof {
                                location: __location,
                                expected: __expected,
                            }
                        }
                    }
                )
            }
        }
        #[allow(clippy::never_loop)]
        loop {
            let (__lookahead, __nt) = __result;
            match __nt {
                __Nonterminal::F(__sym2) => {
                    __result = __state10(__tokens, __lookahead, __sym0, __sym1, __sym2, core::marker::PhantomData::<()>)?;
                    return Ok(__result);
                }
                _ => {
                    return Ok((__lookahead, __nt));
                }
            }
        }
    }

    fn __state4<
        __TOKENS: Iterator<Item=Result<(i64, Tok, i64),__lalrpop_util::ParseError<i64, Tok, u64>>>,
    >(
        __tokens: &mut __TOKENS,
        __lookahead: Option<(i64, Tok, i64)>,
        __sym0: (i64, Tree, i64),
        _: core::marker::PhantomData<()>,
    ) -> Result<(Option<(i64, Tok, i64)>, __Nonterminal<>), __lalrpop_util::ParseError<i64, Tok, u64>>
    {
        let mut __result: (Option<(i64, Tok, i64)>, __Nonterminal<>);
        match __lookahead {
            Some((__loc1, __tok @ Tok('a', _, _, _), __loc2)) => {
                let __sym1 = (__loc1, (__tok), __loc2);
                __result = __state2(__tokens, __sym0, __sym1, core::marker::PhantomData::<()>)?;
                return Ok(__result);
            }
            None => {
                let __start = __sym0.0.clone();
                let __end = __sym0.2.clone();
                let __nt = super::__action0::<>(__sym0);
                let __nt = __Nonterminal::____E((
                    __start,
                    __nt,
                    __end,
                ));
                __result = (__lookahead, __nt);
                return Ok(__result);
            }
            _ => {
                #[allow(clippy::needless_raw_string_hashes)]
                let __expected = alloc::vec![
                    r###""+""###.to_string(),
                ];
                return Err(
                    match __lookahead {
                        Some(__token) => {
                            __lalrpop_util::ParseError::UnrecognizedToken {
                                token: __token,
                                expected: __expected,
                            }
                        }
                        None => {
                            let __location = __sym0.2.clone();
                            __lalrpop_util::ParseError::UnrecognizedEof {
                                location: __location,
                                expected: __expected,
                            }
                        }
                    }
                )
            }
        }
    }

    fn __state5<
        __TOKENS: Iterator<Item=Result<(i64, Tok, i64),__lalrpop_util::ParseError<i64, Tok, u64>>>,
    >(
        __tokens: &mut __TOKENS,
        __lookahead: Option<(i64, Tok, i64)>,
        __sym0: (i64, Tree, i64),
        _: core::marker::PhantomData<()>,
    ) -> Result<(Option<(i64, Tok, i64)>, __Nonterminal<>), __lalrpop_util::ParseError<i64, Tok, u64>>
    {
        let mut __result: (Option<(i64, Tok, i64)>, __Nonterminal<>);
        match __lookahead {
            Some((_, Tok('a', _, _, _), _)) |
            Some((_, Tok('b', _, _, _), _)) |
            Some((_, Tok('d', _, _, _), _)) |
            None => {
                let __start = __sym0.0.clone();
                let __end = __sym0.2.clone();
                let __nt = super::__action20::<>(__sym0);
                let __nt = __Nonterminal::T((
                    __start,
                    __nt,
                    __end,
                ));
                __result = (__lookahead, __nt);
                return Ok(__result);
            }
            _ => {
                #[allow(clippy::needless_raw_string_hashes)]
                let __expected = alloc::vec![
                    r###""+""###.to_string(),
                    r###""*""###.to_string(),
                    r###"")""###.to_string(),
                ];
                return Err(
                    match __lookahead {
                        Some(__token) => {
                            __lalrpop_util::ParseError::UnrecognizedToken {
                                token: __token,
                                expected: __expected,
                            }
                        }
                        None => {
                            let __location = __sym0.2.clone();
                            __lalrpop_util::ParseError::UnrecognizedEof {
                                location: __location,
                                expected: __expected,
                            }
                        }
                    }
                )
            }
        }
    }

    fn __state6<
        __TOKENS: Iterator<Item=Result<(i64, Tok, i64),__lalrpop_util::ParseError<i64, Tok, u64>>>,
    >(
        __tokens: &mut __TOKENS,
        __lookahead: Option<(i64, Tok, i64)>,
        __sym0: (i64, Tree, i64),
        _: core::marker::PhantomData<()>,
    ) -> Result<(Option<(i64, Tok, i64)>, __Nonterminal<>), __lalrpop_util::ParseError<i64, Tok, u64>>
    {
        let mut __result: (Option<(i64, Tok, i64)>, __Nonterminal<>);
        match __lookahead {
            Some((__loc1, __tok @ Tok('b', _, _, _), __loc2)) => {
                let __sym1 = (__loc1, (__tok), __loc2);
                __result = __state3(__tokens, __sym0, __sym1, core::marker::PhantomData::<()>)?;
                return Ok(__result);
            }
            Some((_, Tok('a', _, _, _), _)) |
            Some((_, Tok('d', _, _, _), _)) |
            None => {
                let __start = __sym0.0.clone();
                let __end = __sym0.2.clone();
                let __nt = super::__action16::<>(__sym0);
                let __nt = __Nonterminal::E((
                    __start,
                    __nt,
                    __end,
                ));
                __result = (__lookahead, __nt);
                return Ok(__result);
            }
            _ => {
                #[allow(clippy::needless_raw_string_hashes)]
                let __expected = alloc::vec![
                    r###""+""###.to_string(),
                    r###""*""###.to_string(),
                    r###"")""###.to_string(),
                ];
                return Err(
                    match __lookahead {
                        Some(__token) => {
                            __lalrpop_util::ParseError::UnrecognizedToken {
                                token: __token,
                                expected: __expected,
                            }
                        }
                        None => {
                            let __location = __sym0.2.clone();
                            __lalrpop_util::ParseError::UnrecognizedEof {
                                location: __location,
                                expected: __expected,
                            }
                        }
                    }
                )
            }
        }
    }

    fn __state7<
        __TOKENS: Iterator<Item=Result<(i64, Tok, i64),__lalrpop_util::ParseError<i64, Tok, u64>>>,
    >(
        __tokens: &mut __TOKENS,
        __sym0: (i64, Tok, i64),
        _: core::marker::PhantomData<()>,
    ) -> Result<(Option<(i64, Tok, i64)>, __Nonterminal<>), __lalrpop_util::ParseError<i64, Tok, u64>>
    {
        let mut __result: (Option<(i64, Tok, i64)>, __Nonterminal<>);
        let __lookahead = match __tokens.next() {
            Some(Ok(v)) => Some(v),
            Some(Err(e)) => return Err(e),
            None => None,
        };
        match __lookahead {
            Some((_, Tok('a', _, _, _), _)) |
            Some((_, Tok('b', _, _, _), _)) |
            Some((_, Tok('d', _, _, _), _)) |
            None => {
                let __start = __sym0.0.clone();
                let __end = __sym0.2.clone();
                let __nt = super::__action18::<>(__sym0);
                let __nt = __Nonterminal::F((
                    __start,
                    __nt,
                    __end,
                ));
                __result = (__lookahead, __nt);
                return Ok(__result);
            }
            _ => {
                #[allow(clippy::needless_raw_string_hashes)]
                let __expected = alloc::vec![
                    r###""+""###.to_string(),
                    r###""*""###.to_string(),
                    r###"")""###.to_string(),
                ];
                return Err(
                    match __lookahead {
                        Some(__token) => {
                            __lalrpop_util::ParseError::UnrecognizedToken {
                                token: __token,
                                expected: __expected,
                            }
                        }
                        None => {
                            let __location = __sym0.2.clone();
                            __lalrpop_util::ParseError::UnrecognizedEof {
                                location: __location,
                                expected: __expected,
                            }
                        }
                    }
                )
            }
        }
    }

    fn __state8<
        __TOKENS: Iterator<Item=Result<(i64, Tok, i64),__lalrpop_util::ParseError<i64, Tok, u64>>>,
    >(
        __tokens: &mut __TOKENS,
        __lookahead: Option<(i64, Tok, i64)>,
        __sym0: &mut Option<(i64, Tok, i64)>,
        __sym1: (i64, Tree, i64),
        _: core::marker::PhantomData<()>,
    ) -> Result<(Option<(i64, Tok, i64)>, __Nonterminal<>), __lalrpop_util::ParseError<i64, Tok, u64>>
    {
        let mut __result: (Option<(i64, Tok, i64)>, __Nonterminal<>);
        match __lookahead {
            Some((__loc1, __tok @ Tok('d', _, _, _), __loc2)) => {
                let __sym2 = (__loc1, (__tok), __loc2);
                let __sym0 = __sym0.take().unwrap();
                __result = __state11(__tokens, __sym0, __sym1, __sym2, core::marker::PhantomData::<()>)?;
                return Ok(__result);
            }
            Some((__loc1, __tok @ Tok('a', _, _, _), __loc2)) => {
                let __sym2 = (__loc1, (__tok), __loc2);
                __result = __state2(__tokens, __sym1, __sym2, core::marker::PhantomData::<()>)?;
                return Ok(__result);
            }
            _ => {
                #[allow(clippy::needless_raw_string_hashes)]
                let __expected = alloc::vec![
                    r###""+""###.to_string(),
                    r###"")""###.to_string(),
                ];
                return Err(
                    match __lookahead {
                        Some(__token) => {
                            __lalrpop_util::ParseError::UnrecognizedToken {
                                token: __token,
                                expected: __expected,
                            }
                        }
                        None => {
                            let __location = __sym1.2.clone();
                            __lalrpop_util::ParseError::UnrecognizedEof {
                                location: __location,
                                expected: __expected,
                            }
                        }
                    }
                )
            }
        }
    }

    fn __state9<
        __TOKENS: Iterator<Item=Result<(i64, Tok, i64),__lalrpop_util::ParseError<i64, Tok, u64>>>,
    >(
        __tokens: &mut __TOKENS,
        __lookahead: Option<(i64, Tok, i64)>,
        __sym0: &mut Option<(i64, Tree, i64)>,
        __sym1: &mut Option<(i64, Tok, i64)>,
        __sym2: (i64, Tree, i64),
        _: core::marker::PhantomData<()>,
    ) -> Result<(Option<(i64, Tok, i64)>, __Nonterminal<>), __lalrpop_util::ParseError<i64, Tok, u64>>
    {
        let mut __result: (Option<(i64, Tok, i64)>, __Nonterminal<>);
        match __lookahead {
            Some((__loc1, __tok @ Tok('b', _, _, _), __loc2)) => {
                let __sym3 = (__loc1, (__tok), __loc2);
                __result = __state3(__tokens, __sym2, __sym3, core::marker::PhantomData::<()>)?;
                return Ok(__result);
            }
            Some((_, Tok('a', _, _, _), _)) |
            Some((_, Tok('d', _, _, _), _)) |
            None => {
                let __sym0 = __sym0.take().unwrap();
                let __sym1 = __sym1.take().unwrap();
                let __start = __sym0.0.clone();
                let __end = __sym2.2.clone();
                let __nt = super::__action15::<>(__sym0, __sym1, __sym2);
                let __nt = __Nonterminal::E((
                    __start,
                    __nt,
                    __end,
                ));
                __result = (__lookahead, __nt);
                return Ok(__result);
            }
            _ => {
                #[allow(clippy::needless_raw_string_hashes)]
                let __expected = alloc::vec![
                    r###""+""###.to_string(),
                    r###""*""###.to_string(),
                    r###"")""###.to_string(),
                ];
                return Err(
                    match __lookahead {
                        Some(__token) => {
                            __lalrpop_util::ParseError::UnrecognizedToken {
                                token: __token,
                                expected: __expected,
                            }
                        }
                        None => {
                            let __location = __sym2.2.clone();
                            __lalrpop_util::ParseError::UnrecognizedEof {
                                location: __location,
                                expected: __expected,
                            }
                        }
                    }
                )
            }
        }
    }

    fn __state10<
        __TOKENS: Iterator<Item=Result<(i64, Tok, i64),__lalrpop_util::ParseError<i64, Tok, u64>>>,
    >(
        __tokens: &mut __TOKENS,
        __lookahead: Option<(i64, Tok, i64)>,
        __sym0: (i64, Tree, i64),
        __sym1: (i64, Tok, i64),
        __sym2: (i64, Tree, i64),
        _: core::marker::PhantomData<()>,
    ) -> Result<(Option<(i64, Tok, i64)>, __Nonterminal<>), __lalrpop_util::ParseError<i64, Tok, u64>>
    {
        let mut __result: (Option<(i64, Tok, i64)>, __Nonterminal<>);
        match __lookahead {
            Some((_, Tok('a', _, _, _), _)) |
            Some((_, Tok('b', _, _, _), _)) |
            Some((_, Tok('d', _, _, _), _)) |
            None => {
                let __start = __sym0.0.clone();
                let __end = __sym2.2.clone();
                let __nt = super::__action19::<>(__sym0, __sym1, __sym2);
                let __nt = __Nonterminal::T((
                    __start,
                    __nt,
                    __end,
                ));
                __result = (__lookahead, __nt);
                return Ok(__result);
            }
            _ => {
                #[allow(clippy::needless_raw_string_hashes)]
                let __expected = alloc::vec![
                    r###""+""###.to_string(),
                    r###""*""###.to_string(),
                    r###"")""###.to_string(),
                ];
                return Err(
                    match __lookahead {
                        Some(__token) => {
                            __lalrpop_util::ParseError::UnrecognizedToken {
                                token: __token,
                                expected: __expected,
                            }
                        }
                        None => {
                            let __location = __sym2.2.clone();
                            __lalrpop_util::ParseError::UnrecognizedEof {
                                location: __location,
                                expected: __expected,
                            }
                        }
                    }
                )
            }
        }
    }

    fn __state11<
        __TOKENS: Iterator<Item=Result<(i64, Tok, i64),__lalrpop_util::ParseError<i64, Tok, u64>>>,
    >(
        __tokens: &mut __TOKENS,
        __sym0: (i64, Tok, i64),
        __sym1: (i64, Tree, i64),
        __sym2: (i64, Tok, i64),
        _: core::marker::PhantomData<()>,
    ) -> Result<(Option<(i64, Tok, i64)>, __Nonterminal<>), __lalrpop_util::ParseError<i64, Tok, u64>>
    {
        let mut __result: (Option<(i64, Tok, i64)>, __Nonterminal<>);
        let __lookahead = match __tokens.next() {
            Some(Ok(v)) => Some(v),
            Some(Err(e)) => return Err(e),
            None => None,
        };
        match __lookahead {
            Some((_, Tok('a', _, _, _), _)) |
            Some((_, Tok('b', _, _, _), _)) |
            Some((_, Tok('d', _, _, _), _)) |
            None => {
                let __start = __sym0.0.clone();
                let __end = __sym2.2.clone();
                let __nt = super::__action17::<>(__sym0, __sym1, __sym2);
                let __nt = __Nonterminal::F((
                    __start,
                    __nt,
                    __end,
                ));
                __result = (__lookahead, __nt);
                return Ok(__result);
            }
            _ => {
                #[allow(clippy::needless_raw_string_hashes)]
                let __expected = alloc::vec![
                    r###""+""###.to_string(),
                    r###""*""###.to_string(),
                    r###"")""###.to_string(),
                ];
                return Err(
                    match __lookahead {
                        Some(__token) => {
                            __lalrpop_util::ParseError::UnrecognizedToken {
                                token: __token,
                                expected: __expected,
                            }
                        }
                        None => {
                            let __location = __sym2.2.clone();
                            __lalrpop_util::ParseError::UnrecognizedEof {
                                location: __location,
                                expected: __expected,
                            }
                        }
                    }
                )
            }
        }
    }
}
#[allow(unused_imports)]
pub use self::__parse__E::EParser;

#[allow(clippy::too_many_arguments, clippy::needless_lifetimes, clippy::just_underscores_and_digits, clippy::extra_unused_type_parameters)]
fn __action0<
>(
    (_, __0, _): (i64, Tree, i64),
) -> Tree
{
    __0
}

#[allow(clippy::too_many_arguments, clippy::needless_lifetimes, clippy::just_underscores_and_digits, clippy::extra_unused_type_parameters)]
fn __action1<
>(
    (_, l, _): (i64, i64, i64),
    (_, c0, _): (i64, Tree, i64),
    (_, c1, _): (i64, Tok, i64),
    (_, c2, _): (i64, Tree, i64),
    (_, r, _): (i64, i64, i64),
) -> Tree
{
    node("E#0", l, r, vec![Tree::from(c0), Tree::from(c1), Tree::from(c2)])
}

#[allow(clippy::too_many_arguments, clippy::needless_lifetimes, clippy::just_underscores_and_digits, clippy::extra_unused_type_parameters)]
fn __action2<
>(
    (_, l, _): (i64, i64, i64),
    (_, c0, _): (i64, Tree, i64),
    (_, r, _): (i64, i64, i64),
) -> Tree
{
    node("E#1", l, r, vec![Tree::from(c0)])
}

#[allow(clippy::too_many_arguments, clippy::needless_lifetimes, clippy::just_underscores_and_digits, clippy::extra_unused_type_parameters)]
fn __action3<
>(
    (_, l, _): (i64, i64, i64),
    (_, c0, _): (i64, Tree, i64),
    (_, c1, _): (i64, Tok, i64),
    (_, c2, _): (i64, Tree, i64),
    (_, r, _): (i64, i64, i64),
) -> Tree
{
    node("T#0", l, r, vec![Tree::from(c0), Tree::from(c1), Tree::from(c2)])
}

#[allow(clippy::too_many_arguments, clippy::needless_lifetimes, clippy::just_underscores_and_digits, clippy::extra_unused_type_parameters)]
fn __action4<
>(
    (_, l, _): (i64, i64, i64),
    (_, c0, _): (i64, Tree, i64),
    (_, r, _): (i64, i64, i64),
) -> Tree
{
    node("T#1", l, r, vec![Tree::from(c0)])
}

#[allow(clippy::too_many_arguments, clippy::needless_lifetimes, clippy::just_underscores_and_digits, clippy::extra_unused_type_parameters)]
fn __action5<
>(
    (_, l, _): (i64, i64, i64),
    (_, c0, _): (i64, Tok, i64),
    (_, c1, _): (i64, Tree, i64),
    (_, c2, _): (i64, Tok, i64),
    (_, r, _): (i64, i64, i64),
) -> Tree
{
    node("F#0", l, r, vec![Tree::from(c0), Tree::from(c1), Tree::from(c2)])
}

#[allow(clippy::too_many_arguments, clippy::needless_lifetimes, clippy::just_underscores_and_digits, clippy::extra_unused_type_parameters)]
fn __action6<
>(
    (_, l, _): (i64, i64, i64),
    (_, c0, _): (i64, Tok, i64),
    (_, r, _): (i64, i64, i64),
) -> Tree
{
    node("F#1", l, r, vec![Tree::from(c0)])
}

#[allow(clippy::needless_lifetimes, clippy::clone_on_copy)]
fn __action7<
>(
    __lookbehind: &i64,
    __lookahead: &i64,
) -> i64
{
    __lookbehind.clone()
}

#[allow(clippy::needless_lifetimes, clippy::clone_on_copy)]
fn __action8<
>(
    __lookbehind: &i64,
    __lookahead: &i64,
) -> i64
{
    __lookahead.clone()
}

#[allow(clippy::too_many_arguments, clippy::needless_lifetimes,
    clippy::just_underscores_and_digits, clippy::clone_on_copy, clippy::unit_arg)]
fn __action9<
>(
    __0: (i64, Tree, i64),
    __1: (i64, Tok, i64),
    __2: (i64, Tree, i64),
    __3: (i64, i64, i64),
) -> Tree
{
    let __start0 = __0.0.clone();
    let __end0 = __0.0.clone();
    let __temp0 = __action8(
        &__start0,
        &__end0,
    );
    let __temp0 = (__start0, __temp0, __end0);
    __action1(
        __temp0,
        __0,
        __1,
        __2,
        __3,
    )
}

#[allow(clippy::too_many_arguments, clippy::needless_lifetimes,
    clippy::just_underscores_and_digits, clippy::clone_on_copy, clippy::unit_arg)]
fn __action10<
>(
    __0: (i64, Tree, i64),
    __1: (i64, i64, i64),
) -> Tree
{
    let __start0 = __0.0.clone();
    let __end0 = __0.0.clone();
    let __temp0 = __action8(
        &__start0,
        &__end0,
    );
    let __temp0 = (__start0, __temp0, __end0);
    __action2(
        __temp0,
        __0,
        __1,
    )
}

#[allow(clippy::too_many_arguments, clippy::needless_lifetimes,
    clippy::just_underscores_and_digits, clippy::clone_on_copy, clippy::unit_arg)]
fn __action11<
>(
    __0: (i64, Tok, i64),
    __1: (i64, Tree, i64),
    __2: (i64, Tok, i64),
    __3: (i64, i64, i64),
) -> Tree
{
    let __start0 = __0.0.clone();
    let __end0 = __0.0.clone();
    let __temp0 = __action8(
        &__start0,
        &__end0,
    );
    let __temp0 = (__start0, __temp0, __end0);
    __action5(
        __temp0,
        __0,
        __1,
        __2,
        __3,
    )
}

#[allow(clippy::too_many_arguments, clippy::needless_lifetimes,
    clippy::just_underscores_and_digits, clippy::clone_on_copy, clippy::unit_arg)]
fn __action12<
>(
    __0: (i64, Tok, i64),
    __1: (i64, i64, i64),
) -> Tree
{
    let __start0 = __0.0.clone();
    let __end0 = __0.0.clone();
    let __temp0 = __action8(
        &__start0,
        &__end0,
    );
    let __temp0 = (__start0, __temp0, __end0);
    __action6(
        __temp0,
        __0,
        __1,
    )
}

#[allow(clippy::too_many_arguments, clippy::needless_lifetimes,
    clippy::just_underscores_and_digits, clippy::clone_on_copy, clippy::unit_arg)]
fn __action13<
>(
    __0: (i64, Tree, i64),
    __1: (i64, Tok, i64),
    __2: (i64, Tree, i64),
    __3: (i64, i64, i64),
) -> Tree
{
    let __start0 = __0.0.clone();
    let __end0 = __0.0.clone();
    let __temp0 = __action8(
        &__start0,
        &__end0,
    );
    let __temp0 = (__start0, __temp0, __end0);
    __action3(
        __temp0,
        __0,
        __1,
        __2,
        __3,
    )
}

#[allow(clippy::too_many_arguments, clippy::needless_lifetimes,
    clippy::just_underscores_and_digits, clippy::clone_on_copy, clippy::unit_arg)]
fn __action14<
>(
    __0: (i64, Tree, i64),
    __1: (i64, i64, i64),
) -> Tree
{
    let __start0 = __0.0.clone();
    let __end0 = __0.0.clone();
    let __temp0 = __action8(
        &__start0,
        &__end0,
    );
    let __temp0 = (__start0, __temp0, __end0);
    __action4(
        __temp0,
        __0,
        __1,
    )
}

#[allow(clippy::too_many_arguments, clippy::needless_lifetimes,
    clippy::just_underscores_and_digits, clippy::clone_on_copy, clippy::unit_arg)]
fn __action15<
>(
    __0: (i64, Tree, i64),
    __1: (i64, Tok, i64),
    __2: (i64, Tree, i64),
) -> Tree
{
    let __start0 = __2.2.clone();
    let __end0 = __2.2.clone();
    let __temp0 = __action7(
        &__start0,
        &__end0,
    );
    let __temp0 = (__start0, __temp0, __end0);
    __action9(
        __0,
        __1,
        __2,
        __temp0,
    )
}

#[allow(clippy::too_many_arguments, clippy::needless_lifetimes,
    clippy::just_underscores_and_digits, clippy::clone_on_copy, clippy::unit_arg)]
fn __action16<
>(
    __0: (i64, Tree, i64),
) -> Tree
{
    let __start0 = __0.2.clone();
    let __end0 = __0.2.clone();
    let __temp0 = __action7(
        &__start0,
        &__end0,
    );
    let __temp0 = (__start0, __temp0, __end0);
    __action10(
        __0,
        __temp0,
    )
}

#[allow(clippy::too_many_arguments, clippy::needless_lifetimes,
    clippy::just_underscores_and_digits, clippy::clone_on_copy, clippy::unit_arg)]
fn __action17<
>(
    __0: (i64, Tok, i64),
    __1: (i64, Tree, i64),
    __2: (i64, Tok, i64),
) -> Tree
{
    let __start0 = __2.2.clone();
    let __end0 = __2.2.clone();
    let __temp0 = __action7(
        &__start0,
        &__end0,
    );
    let __temp0 = (__start0, __temp0, __end0);
    __action11(
        __0,
        __1,
        __2,
        __temp0,
    )
}

#[allow(clippy::too_many_arguments, clippy::needless_lifetimes,
    clippy::just_underscores_and_digits, clippy::clone_on_copy, clippy::unit_arg)]
fn __action18<
>(
    __0: (i64, Tok, i64),
) -> Tree
{
    let __start0 = __0.2.clone();
    let __end0 = __0.2.clone();
    let __temp0 = __action7(
        &__start0,
        &__end0,
    );
    let __temp0 = (__start0, __temp0, __end0);
    __action12(
        __0,
        __temp0,
    )
}

#[allow(clippy::too_many_arguments, clippy::needless_lifetimes,
    clippy::just_underscores_and_digits, clippy::clone_on_copy, clippy::unit_arg)]
fn __action19<
>(
    __0: (i64, Tree, i64),
    __1: (i64, Tok, i64),
    __2: (i64, Tree, i64),
) -> Tree
{
    let __start0 = __2.2.clone();
    let __end0 = __2.2.clone();
    let __temp0 = __action7(
        &__start0,
        &__end0,
    );
    let __temp0 = (__start0, __temp0, __end0);
    __action13(
        __0,
        __1,
        __2,
        __temp0,
    )
}

#[allow(clippy::too_many_arguments, clippy::needless_lifetimes,
    clippy::just_underscores_and_digits, clippy::clone_on_copy, clippy::unit_arg)]
fn __action20<
>(
    __0: (i64, Tree, i64),
) -> Tree
{
    let __start0 = __0.2.clone();
    let __end0 = __0.2.clone();
    let __temp0 = __action7(
        &__start0,
        &__end0,
    );
    let __temp0 = (__start0, __temp0, __end0);
    __action14(
        __0,
        __temp0,
    )
}

#[allow(clippy::type_complexity, dead_code)]
pub trait __ToTriple<>
{
    fn to_triple(self) -> Result<(i64,Tok,i64), __lalrpop_util::ParseError<i64, Tok, u64>>;
}

impl<> __ToTriple<> for (i64, Tok, i64)
{
    fn to_triple(self) -> Result<(i64,Tok,i64), __lalrpop_util::ParseError<i64, Tok, u64>> {
        Ok(self)
    }
}
impl<> __ToTriple<> for Result<(i64, Tok, i64), u64>
{
    fn to_triple(self) -> Result<(i64,Tok,i64), __lalrpop_util::ParseError<i64, Tok, u64>> {
        self.map_err(|error| __lalrpop_util::ParseError::User { error })
    }
}
