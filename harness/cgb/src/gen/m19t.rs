// auto-generated: "lalrpop 0.23.1"
// sha3: c8300a47bd14d627db0b42b1ad5319d2c2df8ab40472f88e07399690b43891b0
use crate::rt::*;
#[allow(unused_extern_crates)]
extern crate lalrpop_util as ___lalrpop_util;
#[allow(unused_imports)]
use self::___lalrpop_util::state_machine as ___state_machine;
#[allow(unused_extern_crates)]
extern crate alloc;

#[rustfmt::skip]
#[allow(explicit_outlives_requirements, non_snake_case, non_camel_case_types, unused_mut, unused_variables, unused_imports, unused_parens, clippy::needless_lifetimes, clippy::type_complexity, clippy::needless_return, clippy::too_many_arguments, clippy::match_single_binding, clippy::clone_on_copy, clippy::unit_arg)]
mod ___parse_____simulate_reduce {

    use crate::rt::*;
    #[allow(unused_extern_crates)]
    extern crate lalrpop_util as ___lalrpop_util;
    #[allow(unused_imports)]
    use self::___lalrpop_util::state_machine as ___state_machine;
    #[allow(unused_extern_crates)]
    extern crate alloc;
    use super::___ToTriple;
    #[allow(dead_code)]
    pub(crate) enum ___Symbol<>
     {
        Variant0(Tok),
        Variant1(i64),
        Variant2(Tree),
    }
    const ___ACTION: &[i8] = &[
        // State 0
        5, 0, 0, 0,
        // State 1
        0, 0, 6, -7,
        // State 2
        0, 0, 0, 8,
        // State 3
        0, 0, 0, 0,
        // State 4
        0, 2, 0, 0,
        // State 5
        0, 9, 0, 0,
        // State 6
        0, 0, 0, 0,
        // State 7
        0, 0, 0, 0,
        // State 8
        0, 0, 0, -8,
    ];
    fn ___action(state: i8, integer: usize) -> i8 {
        ___ACTION[(state as usize) * 4 + integer]
    }
    const ___EOF_ACTION: &[i8] = &[
        // State 0
        0,
        // State 1
        -7,
        // State 2
        -4,
        // State 3
        -3,
        // State 4
        0,
        // State 5
        0,
        // State 6
        -6,
        // State 7
        -5,
        // State 8
        -8,
    ];
    fn ___goto(state: i8, nt: usize) -> i8 {
        match nt {
            3 => 6,
            4 => 3,
            5 => 2,
            _ => 0,
        }
    }
    #[allow(clippy::needless_raw_string_hashes)]
    const ___TERMINAL: &[&str] = &[
        r###""let""###,
        r###""id""###,
        r###""=""###,
        r###"";""###,
    ];
    fn ___expected_tokens(___state: i8) -> alloc::vec::Vec<alloc::string::String> {
        ___TERMINAL.iter().enumerate().filter_map(|(index, terminal)| {
            let next_state = ___action(___state, index);
            if next_state == 0 {
                None
            } else {
                Some(alloc::string::ToString::to_string(terminal))
            }
        }).collect()
    }
    fn ___expected_tokens_from_states<
    >(
        ___states: &[i8],
        _: core::marker::PhantomData<()>,
    ) -> alloc::vec::Vec<alloc::string::String>
    {
        ___TERMINAL.iter().enumerate().filter_map(|(index, terminal)| {
            if ___accepts(None, ___states, Some(index), core::marker::PhantomData::<()>) {
                Some(alloc::string::ToString::to_string(terminal))
            } else {
                None
            }
        }).collect()
    }
    struct ___StateMachine<>
    where 
    {
        ___phantom: core::marker::PhantomData<()>,
    }
    impl<> ___state_machine::ParserDefinition for ___StateMachine<>
    where 
    {
        type Location = i64;
        type Error = u64;
        type Token = Tok;
        type TokenIndex = usize;
        type Symbol = ___Symbol<>;
        type Success = Tree;
        type StateIndex = i8;
        type Action = i8;
        type ReduceIndex = i8;
        type NonterminalIndex = usize;

        #[inline]
        fn start_location(&self) -> Self::Location {
              Default::default()
        }

        #[inline]
        fn start_state(&self) -> Self::StateIndex {
              0
        }

        #[inline]
        fn token_to_index(&self, token: &Self::Token) -> Option<usize> {
            ___token_to_integer(token, core::marker::PhantomData::<()>)
        }

        #[inline]
        fn action(&self, state: i8, integer: usize) -> i8 {
            ___action(state, integer)
        }

        #[inline]
        fn error_action(&self, state: i8) -> i8 {
            ___action(state, 4 - 1)
        }

        #[inline]
        fn eof_action(&self, state: i8) -> i8 {
            ___EOF_ACTION[state as usize]
        }

        #[inline]
        fn goto(&self, state: i8, nt: usize) -> i8 {
            ___goto(state, nt)
        }

        fn token_to_symbol(&self, token_index: usize, token: Self::Token) -> Self::Symbol {
            ___token_to_symbol(token_index, token, core::marker::PhantomData::<()>)
        }

        fn expected_tokens(&self, state: i8) -> alloc::vec::Vec<alloc::string::String> {
            ___expected_tokens(state)
        }

        fn expected_tokens_from_states(&self, states: &[i8]) -> alloc::vec::Vec<alloc::string::String> {
            ___expected_tokens_from_states(states, core::marker::PhantomData::<()>)
        }

        #[inline]
        fn uses_error_recovery(&self) -> bool {
            false
        }

        #[inline]
        fn error_recovery_symbol(
            &self,
            recovery: ___state_machine::ErrorRecovery<Self>,
        ) -> Self::Symbol {
            panic!("error recovery not enabled for this grammar")
        }

        fn reduce(
            &mut self,
            action: i8,
            start_location: Option<&Self::Location>,
            states: &mut alloc::vec::Vec<i8>,
            symbols: &mut alloc::vec::Vec<___state_machine::SymbolTriple<Self>>,
        ) -> Option<___state_machine::ParseResult<Self>> {
            ___reduce(
                action,
                start_location,
                states,
                symbols,
                core::marker::PhantomData::<()>,
            )
        }

        fn simulate_reduce(&self, action: i8) -> ___state_machine::SimulatedReduce<Self> {
            ___simulate_reduce(action, core::marker::PhantomData::<()>)
        }
    }
    fn ___token_to_integer<
    >(
        ___token: &Tok,
        _: core::marker::PhantomData<()>,
    ) -> Option<usize>
    {
        #[warn(unused_variables)]
        match ___token {
            Tok('a', _, _, _) if true => Some(0),
            Tok('b', _, _, _) if true => Some(1),
            Tok('c', _, _, _) if true => Some(2),
            Tok('d', _, _, _) if true => Some(3),
            _ => None,
        }
    }
    fn ___token_to_symbol<
    >(
        ___token_index: usize,
        ___token: Tok,
        _: core::marker::PhantomData<()>,
    ) -> ___Symbol<>
    {
        #[allow(clippy::manual_range_patterns)]match ___token_index {
            0 | 1 | 2 | 3 => ___Symbol::Variant0(___token),
            _ => unreachable!(),
        }
    }
    fn ___simulate_reduce<
    >(
        ___reduce_index: i8,
        _: core::marker::PhantomData<()>,
    ) -> ___state_machine::SimulatedReduce<___StateMachine<>>
    {
        match ___reduce_index {
            0 => {
                ___state_machine::SimulatedReduce::Reduce {
                    states_to_pop: 0,
                    nonterminal_produced: 0,
                }
            }
            1 => {
                ___state_machine::SimulatedReduce::Reduce {
                    states_to_pop: 0,
                    nonterminal_produced: 1,
                }
            }
            2 => ___state_machine::SimulatedReduce::Accept,
            3 => {
                ___state_machine::SimulatedReduce::Reduce {
                    states_to_pop: 0,
                    nonterminal_produced: 3,
                }
            }
            4 => {
                ___state_machine::SimulatedReduce::Reduce {
                    states_to_pop: 1,
                    nonterminal_produced: 3,
                }
            }
            5 => {
                ___state_machine::SimulatedReduce::Reduce {
                    states_to_pop: 4,
                    nonterminal_produced: 4,
                }
            }
            6 => {
                ___state_machine::SimulatedReduce::Reduce {
                    states_to_pop: 0,
                    nonterminal_produced: 5,
                }
            }
            7 => {
                ___state_machine::SimulatedReduce::Reduce {
                    states_to_pop: 2,
                    nonterminal_produced: 5,
                }
            }
            _ => panic!("invalid reduction index {___reduce_index}")
        }
    }
    pub struct __simulate_reduceParser {
        _priv: (),
    }

    impl Default for __simulate_reduceParser { fn default() -> Self { Self::new() } }
    impl __simulate_reduceParser {
        pub fn new() -> __simulate_reduceParser {
            __simulate_reduceParser {
                _priv: (),
            }
        }

        #[allow(dead_code)]
        pub fn parse<
            ___TOKEN: ___ToTriple<>,
            ___TOKENS: IntoIterator<Item=___TOKEN>,
        >(
            &self,
            ___tokens0: ___TOKENS,
        ) -> Result<Tree, ___lalrpop_util::ParseError<i64, Tok, u64>>
        {
            let ___tokens = ___tokens0.into_iter();
            let mut ___tokens = ___tokens.map(|t| ___ToTriple::to_triple(t));
            ___state_machine::Parser::drive(
                ___StateMachine {
                    ___phantom: core::marker::PhantomData::<()>,
                },
                ___tokens,
            )
        }
    }
    fn ___accepts<
    >(
        ___error_state: Option<i8>,
        ___states: &[i8],
        ___opt_integer: Option<usize>,
        _: core::marker::PhantomData<()>,
    ) -> bool
    {
        let mut ___states = ___states.to_vec();
        ___states.extend(___error_state);
        loop {
            let mut ___states_len = ___states.len();
            let ___top = ___states[___states_len - 1];
            let ___action = match ___opt_integer {
                None => ___EOF_ACTION[___top as usize],
                Some(___integer) => ___action(___top, ___integer),
            };
            if ___action == 0 { return false; }
            if ___action > 0 { return true; }
            let (___to_pop, ___nt) = match ___simulate_reduce(-(___action + 1), core::marker::PhantomData::<()>) {
                ___state_machine::SimulatedReduce::Reduce {
                    states_to_pop, nonterminal_produced
                } => (states_to_pop, nonterminal_produced),
                ___state_machine::SimulatedReduce::Accept => return true,
            };
            ___states_len -= ___to_pop;
            ___states.truncate(___states_len);
            let ___top = ___states[___states_len - 1];
            let ___next_state = ___goto(___top, ___nt);
            ___states.push(___next_state);
        }
    }
    fn ___reduce<
    >(
        ___action: i8,
        ___lookahead_start: Option<&i64>,
        ___states: &mut alloc::vec::Vec<i8>,
        ___symbols: &mut alloc::vec::Vec<(i64,___Symbol<>,i64)>,
        _: core::marker::PhantomData<()>,
    ) -> Option<Result<Tree,___lalrpop_util::ParseError<i64, Tok, u64>>>
    {
        let (___pop_states, ___nonterminal) = match ___action {
            0 => {
                ___reduce0(___lookahead_start, ___symbols, core::marker::PhantomData::<()>)
            }
            1 => {
                ___reduce1(___lookahead_start, ___symbols, core::marker::PhantomData::<()>)
            }
            2 => {
                // _____simulate_reduce = __simulate_reduce => ActionFn(0);
                let ___sym0 = ___pop_Variant2(___symbols);
                let ___start = ___sym0.0.clone();
                let ___end = ___sym0.2.clone();
                let ___nt = super::___action0::<>(___sym0);
                return Some(Ok(___nt));
            }
            3 => {
                ___reduce3(___lookahead_start, ___symbols, core::marker::PhantomData::<()>)
            }
            4 => {
                ___reduce4(___lookahead_start, ___symbols, core::marker::PhantomData::<()>)
            }
            5 => {
                ___reduce5(___lookahead_start, ___symbols, core::marker::PhantomData::<()>)
            }
            6 => {
                ___reduce6(___lookahead_start, ___symbols, core::marker::PhantomData::<()>)
            }
            7 => {
                ___reduce7(___lookahead_start, ___symbols, core::marker::PhantomData::<()>)
            }
            _ => panic!("invalid action code {___action}")
        };
        let ___states_len = ___states.len();
        ___states.truncate(___states_len - ___pop_states);
        let ___state = *___states.last().unwrap();
        let ___next_state = ___goto(___state, ___nonterminal);
        ___states.push(___next_state);
        None
    }
    #[inline(never)]
    fn ___symbol_type_mismatch() -> ! {
        panic!("symbol type mismatch")
    }
    fn ___pop_Variant0<
    >(
        ___symbols: &mut alloc::vec::Vec<(i64,___Symbol<>,i64)>
    ) -> (i64, Tok, i64)
     {
        match ___symbols.pop() {
            Some((___l, ___Symbol::Variant0(___v), ___r)) => (___l, ___v, ___r),
            _ => ___symbol_type_mismatch()
        }
    }
    fn ___pop_Variant2<
    >(
        ___symbols: &mut alloc::vec::Vec<(i64,___Symbol<>,i64)>
    ) -> (i64, Tree, i64)
     {
        match ___symbols.pop() {
            Some((___l, ___Symbol::Variant2(___v), ___r)) => (___l, ___v, ___r),
            _ => ___symbol_type_mismatch()
        }
    }
    fn ___pop_Variant1<
    >(
        ___symbols: &mut alloc::vec::Vec<(i64,___Symbol<>,i64)>
    ) -> (i64, i64, i64)
     {
        match ___symbols.pop() {
            Some((___l, ___Symbol::Variant1(___v), ___r)) => (___l, ___v, ___r),
            _ => ___symbol_type_mismatch()
        }
    }
    fn ___reduce0<
    >(
        ___lookahead_start: Option<&i64>,
        ___symbols: &mut alloc::vec::Vec<(i64,___Symbol<>,i64)>,
        _: core::marker::PhantomData<()>,
    ) -> (usize, usize)
    {
        // @L =  => ActionFn(7);
        let ___start = ___lookahead_start.cloned().or_else(|| ___symbols.last().map(|s| s.2.clone())).unwrap_or_default();
        let ___end = ___start.clone();
        let ___nt = super::___action7::<>(&___start, &___end);
        ___symbols.push((___start, ___Symbol::Variant1(___nt), ___end));
        (0, 0)
    }
    fn ___reduce1<
    >(
        ___lookahead_start: Option<&i64>,
        ___symbols: &mut alloc::vec::Vec<(i64,___Symbol<>,i64)>,
        _: core::marker::PhantomData<()>,
    ) -> (usize, usize)
    {
        // @R =  => ActionFn(6);
        let ___start = ___lookahead_start.cloned().or_else(|| ___symbols.last().map(|s| s.2.clone())).unwrap_or_default();
        let ___end = ___start.clone();
        let ___nt = super::___action6::<>(&___start, &___end);
        ___symbols.push((___start, ___Symbol::Variant1(___nt), ___end));
        (0, 1)
    }
    fn ___reduce3<
    >(
        ___lookahead_start: Option<&i64>,
        ___symbols: &mut alloc::vec::Vec<(i64,___Symbol<>,i64)>,
        _: core::marker::PhantomData<()>,
    ) -> (usize, usize)
    {
        // __custom0 =  => ActionFn(13);
        let ___start = ___lookahead_start.cloned().or_else(|| ___symbols.last().map(|s| s.2.clone())).unwrap_or_default();
        let ___end = ___start.clone();
        let ___nt = super::___action13::<>(&___start, &___end);
        ___symbols.push((___start, ___Symbol::Variant2(___nt), ___end));
        (0, 3)
    }
    fn ___reduce4<
    >(
        ___lookahead_start: Option<&i64>,
        ___symbols: &mut alloc::vec::Vec<(i64,___Symbol<>,i64)>,
        _: core::marker::PhantomData<()>,
    ) -> (usize, usize)
    {
        // __custom0 = ";" => ActionFn(14);
        let ___sym0 = ___pop_Variant0(___symbols);
        let ___start = ___sym0.0.clone();
        let ___end = ___sym0.2.clone();
        let ___nt = super::___action14::<>(___sym0);
        ___symbols.push((___start, ___Symbol::Variant2(___nt), ___end));
        (1, 3)
    }
    fn ___reduce5<
    >(
        ___lookahead_start: Option<&i64>,
        ___symbols: &mut alloc::vec::Vec<(i64,___Symbol<>,i64)>,
        _: core::marker::PhantomData<()>,
    ) -> (usize, usize)
    {
        // __simulate_reduce = "let", "id", __simulate_reduce1, __custom0 => ActionFn(15);
        assert!(___symbols.len() >= 4);
        let ___sym3 = ___pop_Variant2(___symbols);
        let ___sym2 = ___pop_Variant2(___symbols);
        let ___sym1 = ___pop_Variant0(___symbols);
        let ___sym0 = ___pop_Variant0(___symbols);
        let ___start = ___sym0.0.clone();
        let ___end = ___sym3.2.clone();
        let ___nt = super::___action15::<>(___sym0, ___sym1, ___sym2, ___sym3);
        ___symbols.push((___start, ___Symbol::Variant2(___nt), ___end));
        (4, 4)
    }
    fn ___reduce6<
    >(
        ___lookahead_start: Option<&i64>,
        ___symbols: &mut alloc::vec::Vec<(i64,___Symbol<>,i64)>,
        _: core::marker::PhantomData<()>,
    ) -> (usize, usize)
    {
        // __simulate_reduce1 =  => ActionFn(16);
        let ___start = ___lookahead_start.cloned().or_else(|| ___symbols.last().map(|s| s.2.clone())).unwrap_or_default();
        let ___end = ___start.clone();
        let ___nt = super::___action16::<>(&___start, &___end);
        ___symbols.push((___start, ___Symbol::Variant2(___nt), ___end));
        (0, 5)
    }
    fn ___reduce7<
    >(
        ___lookahead_start: Option<&i64>,
        ___symbols: &mut alloc::vec::Vec<(i64,___Symbol<>,i64)>,
        _: core::marker::PhantomData<()>,
    ) -> (usize, usize)
    {
        // __simulate_reduce1 = "=", "id" => ActionFn(17);
        assert!(___symbols.len() >= 2);
        let ___sym1 = ___pop_Variant0(___symbols);
        let ___sym0 = ___pop_Variant0(___symbols);
        let ___start = ___sym0.0.clone();
        let ___end = ___sym1.2.clone();
        let ___nt = super::___action17::<>(___sym0, ___sym1);
        ___symbols.push((___start, ___Symbol::Variant2(___nt), ___end));
        (2, 5)
    }
}
#[allow(unused_imports)]
pub use self::___parse_____simulate_reduce::__simulate_reduceParser;

#[allow(clippy::too_many_arguments, clippy::needless_lifetimes, clippy::just_underscores_and_digits, clippy::extra_unused_type_parameters)]
fn ___action0<
>(
    (_, ___0, _): (i64, Tree, i64),
) -> Tree
{
    ___0
}

#[allow(clippy::too_many_arguments, clippy::needless_lifetimes, clippy::just_underscores_and_digits, clippy::extra_unused_type_parameters)]
fn ___action1<
>(
    (_, ___2, _): (i64, i64, i64),
    (_, ___1, _): (i64, Tok, i64),
    (_, __end0, _): (i64, Tok, i64),
    (_, ____0, _): (i64, Tree, i64),
    (_, __lookahead, _): (i64, Tree, i64),
    (_, ___lookahead, _): (i64, i64, i64),
) -> Tree
{
    node("__simulate_reduce#0", ___2, ___lookahead, vec![Tree::from(___1), Tree::from(__end0), Tree::from(____0), Tree::from(__lookahead)])
}

#[allow(clippy::too_many_arguments, clippy::needless_lifetimes, clippy::just_underscores_and_digits, clippy::extra_unused_type_parameters)]
fn ___action2<
>(
    (_, ___2, _): (i64, i64, i64),
    (_, ___lookahead, _): (i64, i64, i64),
) -> Tree
{
    node("__simulate_reduce1#0", ___2, ___lookahead, vec![])
}

#[allow(clippy::too_many_arguments, clippy::needless_lifetimes, clippy::just_underscores_and_digits, clippy::extra_unused_type_parameters)]
fn ___action3<
>(
    (_, ___2, _): (i64, i64, i64),
    (_, ___1, _): (i64, Tok, i64),
    (_, __end0, _): (i64, Tok, i64),
    (_, ___lookahead, _): (i64, i64, i64),
) -> Tree
{
    node("__simulate_reduce1#1", ___2, ___lookahead, vec![Tree::from(___1), Tree::from(__end0)])
}

#[allow(clippy::too_many_arguments, clippy::needless_lifetimes, clippy::just_underscores_and_digits, clippy::extra_unused_type_parameters)]
fn ___action4<
>(
    (_, ___2, _): (i64, i64, i64),
    (_, ___lookahead, _): (i64, i64, i64),
) -> Tree
{
    node("__custom0#0", ___2, ___lookahead, vec![])
}

#[allow(clippy::too_many_arguments, clippy::needless_lifetimes, clippy::just_underscores_and_digits, clippy::extra_unused_type_parameters)]
fn ___action5<
>(
    (_, ___2, _): (i64, i64, i64),
    (_, ___1, _): (i64, Tok, i64),
    (_, ___lookahead, _): (i64, i64, i64),
) -> Tree
{
    node("__custom0#1", ___2, ___lookahead, vec![Tree::from(___1)])
}

#[allow(clippy::needless_lifetimes, clippy::clone_on_copy)]
fn ___action6<
>(
    ___lookbehind: &i64,
    ___lookahead: &i64,
) -> i64
{
    ___lookbehind.clone()
}

#[allow(clippy::needless_lifetimes, clippy::clone_on_copy)]
fn ___action7<
>(
    ___lookbehind: &i64,
    ___lookahead: &i64,
) -> i64
{
    ___lookahead.clone()
}

#[allow(clippy::too_many_arguments, clippy::needless_lifetimes,
    clippy::just_underscores_and_digits, clippy::clone_on_copy, clippy::unit_arg)]
fn ___action8<
>(
    ___0: (i64, i64, i64),
) -> Tree
{
    let ___start0 = ___0.0.clone();
    let ___end0 = ___0.0.clone();
    let ___temp0 = ___action7(
        &___start0,
        &___end0,
    );
    let ___temp0 = (___start0, ___temp0, ___end0);
    ___action4(
        ___temp0,
        ___0,
    )
}

#[allow(clippy::too_many_arguments, clippy::needless_lifetimes,
    clippy::just_underscores_and_digits, clippy::clone_on_copy, clippy::unit_arg)]
fn ___action9<
>(
    ___0: (i64, Tok, i64),
    ___1: (i64, i64, i64),
) -> Tree
{
    let ___start0 = ___0.0.clone();
    let ___end0 = ___0.0.clone();
    let ___temp0 = ___action7(
        &___start0,
        &___end0,
    );
    let ___temp0 = (___start0, ___temp0, ___end0);
    ___action5(
        ___temp0,
        ___0,
        ___1,
    )
}

#[allow(clippy::too_many_arguments, clippy::needless_lifetimes,
    clippy::just_underscores_and_digits, clippy::clone_on_copy, clippy::unit_arg)]
fn ___action10<
>(
    ___0: (i64, Tok, i64),
    ___1: (i64, Tok, i64),
    ___2: (i64, Tree, i64),
    ___3: (i64, Tree, i64),
    ___4: (i64, i64, i64),
) -> Tree
{
    let ___start0 = ___0.0.clone();
    let ___end0 = ___0.0.clone();
    let ___temp0 = ___action7(
        &___start0,
        &___end0,
    );
    let ___temp0 = (___start0, ___temp0, ___end0);
    ___action1(
        ___temp0,
        ___0,
        ___1,
        ___2,
        ___3,
        ___4,
    )
}

#[allow(clippy::too_many_arguments, clippy::needless_lifetimes,
    clippy::just_underscores_and_digits, clippy::clone_on_copy, clippy::unit_arg)]
fn ___action11<
>(
    ___0: (i64, i64, i64),
) -> Tree
{
    let ___start0 = ___0.0.clone();
    let ___end0 = ___0.0.clone();
    let ___temp0 = ___action7(
        &___start0,
        &___end0,
    );
    let ___temp0 = (___start0, ___temp0, ___end0);
    ___action2(
        ___temp0,
        ___0,
    )
}

#[allow(clippy::too_many_arguments, clippy::needless_lifetimes,
    clippy::just_underscores_and_digits, clippy::clone_on_copy, clippy::unit_arg)]
fn ___action12<
>(
    ___0: (i64, Tok, i64),
    ___1: (i64, Tok, i64),
    ___2: (i64, i64, i64),
) -> Tree
{
    let ___start0 = ___0.0.clone();
    let ___end0 = ___0.0.clone();
    let ___temp0 = ___action7(
        &___start0,
        &___end0,
    );
    let ___temp0 = (___start0, ___temp0, ___end0);
    ___action3(
        ___temp0,
        ___0,
        ___1,
        ___2,
    )
}

#[allow(clippy::too_many_arguments, clippy::needless_lifetimes,
    clippy::just_underscores_and_digits, clippy::clone_on_copy, clippy::unit_arg)]
fn ___action13<
>(
    ___lookbehind: &i64,
    ___lookahead: &i64,
) -> Tree
{
    let ___start0 = ___lookbehind.clone();
    let ___end0 = ___lookahead.clone();
    let ___temp0 = ___action6(
        &___start0,
        &___end0,
    );
    let ___temp0 = (___start0, ___temp0, ___end0);
    ___action8(
        ___temp0,
    )
}

#[allow(clippy::too_many_arguments, clippy::needless_lifetimes,
    clippy::just_underscores_and_digits, clippy::clone_on_copy, clippy::unit_arg)]
fn ___action14<
>(
    ___0: (i64, Tok, i64),
) -> Tree
{
    let ___start0 = ___0.2.clone();
    let ___end0 = ___0.2.clone();
    let ___temp0 = ___action6(
        &___start0,
        &___end0,
    );
    let ___temp0 = (___start0, ___temp0, ___end0);
    ___action9(
        ___0,
        ___temp0,
    )
}

#[allow(clippy::too_many_arguments, clippy::needless_lifetimes,
    clippy::just_underscores_and_digits, clippy::clone_on_copy, clippy::unit_arg)]
fn ___action15<
>(
    ___0: (i64, Tok, i64),
    ___1: (i64, Tok, i64),
    ___2: (i64, Tree, i64),
    ___3: (i64, Tree, i64),
) -> Tree
{
    let ___start0 = ___3.2.clone();
    let ___end0 = ___3.2.clone();
    let ___temp0 = ___action6(
        &___start0,
        &___end0,
    );
    let ___temp0 = (___start0, ___temp0, ___end0);
    ___action10(
        ___0,
        ___1,
        ___2,
        ___3,
        ___temp0,
    )
}

#[allow(clippy::too_many_arguments, clippy::needless_lifetimes,
    clippy::just_underscores_and_digits, clippy::clone_on_copy, clippy::unit_arg)]
fn ___action16<
>(
    ___lookbehind: &i64,
    ___lookahead: &i64,
) -> Tree
{
    let ___start0 = ___lookbehind.clone();
    let ___end0 = ___lookahead.clone();
    let ___temp0 = ___action6(
        &___start0,
        &___end0,
    );
    let ___temp0 = (___start0, ___temp0, ___end0);
    ___action11(
        ___temp0,
    )
}

#[allow(clippy::too_many_arguments, clippy::needless_lifetimes,
    clippy::just_underscores_and_digits, clippy::clone_on_copy, clippy::unit_arg)]
fn ___action17<
>(
    ___0: (i64, Tok, i64),
    ___1: (i64, Tok, i64),
) -> Tree
{
    let ___start0 = ___1.2.clone();
    let ___end0 = ___1.2.clone();
    let ___temp0 = ___action6(
        &___start0,
        &___end0,
    );
    let ___temp0 = (___start0, ___temp0, ___end0);
    ___action12(
        ___0,
        ___1,
        ___temp0,
    )
}

#[allow(clippy::type_complexity, dead_code)]
pub trait ___ToTriple<>
{
    fn to_triple(self) -> Result<(i64,Tok,i64), ___lalrpop_util::ParseError<i64, Tok, u64>>;
}

impl<> ___ToTriple<> for (i64, Tok, i64)
{
    fn to_triple(self) -> Result<(i64,Tok,i64), ___lalrpop_util::ParseError<i64, Tok, u64>> {
        Ok(self)
    }
}
impl<> ___ToTriple<> for Result<(i64, Tok, i64), u64>
{
    fn to_triple(self) -> Result<(i64,Tok,i64), ___lalrpop_util::ParseError<i64, Tok, u64>> {
        self.map_err(|error| ___lalrpop_util::ParseError::User { error })
    }
}
