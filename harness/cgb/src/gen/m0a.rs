// auto-generated: "lalrpop 0.23.1"
// sha3: 6d84733f7b0c756cbd11e1ff3f84f97e69737cb48dce8269183685e7476286fd
use crate::rt::*;
#[allow(unused_extern_crates)]
extern crate lalrpop_util as __lalrpop_util;
#[allow(unused_imports)]
use self::__lalrpop_util::state_machine as __state_machine;
#[allow(unused_extern_crates)]
extern crate alloc;

#[rustfmt::skip]
#[allow(explicit_outlives_requirements, non_snake_case, non_camel_case_types, unused_mut, unused_variables, unused_imports, unused_parens, clippy::needless_lifetimes, clippy::type_complexity, clippy::needless_return, clippy::too_many_arguments, clippy::match_single_binding, clippy::clone_on_copy, clippy::unit_arg)]
mod __parse__S {

    use crate::rt::*;
    #[allow(unused_extern_crates)]
    extern crate lalrpop_util as __lalrpop_util;
    #[allow(unused_imports)]
    use self::__lalrpop_util::state_machine as __state_machine;
    #[allow(unused_extern_crates)]
    extern crate alloc;
    use super::__ToTriple;
    pub struct SParser {
        _priv: (),
    }

    impl Default for SParser { fn default() -> Self { Self::new() } }
    impl SParser {
        pub fn new() -> SParser {
            SParser {
                _priv: (),
            }
        }

        #[allow(dead_code)]
        pub fn parse<
            __TOKEN: __ToTriple<>,
            __TOKENS: IntoIterator<Item=__TOKEN>,
        >(
            &self,
            __tokens0: __TOKENS,
        ) -> Result<Tree, __lalrpop_util::ParseError<i64, Tok, u64>>
        {
            let __tokens = __tokens0.into_iter();
            let mut __tokens = __tokens.map(|t| __ToTriple::to_triple(t));
            let __lookahead = match __tokens.next() {
                Some(Ok(v)) => Some(v),
                Some(Err(e)) => return Err(e),
                None => None,
            };
            match __state0(&mut __tokens, __lookahead, core::marker::PhantomData::<()>)? {
                (Some(__lookahead), _) => {
                    Err(__lalrpop_util::ParseError::ExtraToken { token: __lookahead })
                }
                (None, __Nonterminal::____S((_, __nt, _))) => {
                    Ok(__nt)
                }
                _ => unreachable!(),
            }
        }
    }

    #[allow(dead_code)]
    enum __Nonterminal<>
     {
        _40L((i64, i64, i64)),
        _40R((i64, i64, i64)),
        S((i64, Tree, i64)),
        X((i64, Tree, i64)),
        Y((i64, Tree, i64)),
        ____S((i64, Tree, i64)),
    }

    fn __state0<
        __TOKENS: Iterator<Item=Result<(i64, Tok, i64),__lalrpop_util::ParseError<i64, Tok, u64>>>,
    >(
        __tokens: &mut __TOKENS,
        __lookahead: Option<(i64, Tok, i64)>,
        _: core::marker::PhantomData<()>,
    ) -> Result<(Option<(i64, Tok, i64)>, __Nonterminal<>), __lalrpop_util::ParseError<i64, Tok, u64>>
    {
        let mut __result: (Option<(i64, Tok, i64)>, __Nonterminal<>);
        match __lookahead {
            Some((__loc1, __tok @ Tok('a', _, _, _), __loc2)) => {
                let __sym0 = (__loc1, (__tok), __loc2);
                __result = __state1(__tokens, __sym0, core::marker::PhantomData::<()>)?;
            }
            Some((__loc1, __tok @ Tok('b', _, _, _), __loc2)) => {
                let __sym0 = (__loc1, (__tok), __loc2);
                __result = __state2(__tokens, __sym0, core::marker::PhantomData::<()>)?;
            }
            _ => {
                #[allow(clippy::needless_raw_string_hashes)]
                let __expected = alloc::vec![
                    r###""a""###.to_string(),
                    r###""b""###.to_string(),
                ];
                return Err(
                    match __lookahead {
                        Some(__token) => {
                            __lalrpop_util::ParseError::UnrecognizedToken {
                                token: __token,
                                expected: __expected,
                            }
                        }
                        None => {
                            let __location = Default::default();
                            __lalrpop_util::ParseError::UnrecognizedEof {
                                location: __location,
                                expected: __expected,
                            }
                        }
                    }
                )
            }
        }
        #[allow(clippy::never_loop)]
        loop {
            let (__lookahead, __nt) = __result;
            match __nt {
                __Nonterminal::S(__sym0) => {
                    __result = __state5(__tokens, __lookahead, __sym0, core::marker::PhantomData::<()>)?;
                }
                _ => {
                    return Ok((__lookahead, __nt));
                }
            }
        }
    }

    fn __state1<
        __TOKENS: Iterator<Item=Result<(i64, Tok, i64),__lalrpop_util::ParseError<i64, Tok, u64>>>,
    >(
        __tokens: &mut __TOKENS,
        __sym0: (i64, Tok, i64),
        _: core::marker::PhantomData<()>,
    ) -> Result<(Option<(i64, Tok, i64)>, __Nonterminal<>), __lalrpop_util::ParseError<i64, Tok, u64>>
    {
        let mut __result: (Option<(i64, Tok, i64)>, __Nonterminal<>);
        let __lookahead = match __tokens.next() {
            Some(Ok(v)) => Some(v),
            Some(Err(e)) => return Err(e),
            None => None,
        };
        match __lookahead {
            Some((__loc1, __tok @ Tok('e', _, _, _), __loc2)) => {
                let __sym1 = (__loc1, (__tok), __loc2);
                __result = __state3(__tokens, __sym1, core::marker::PhantomData::<()>)?;
            }
            _ => {
                #[allow(clippy::needless_raw_string_hashes)]
                let __expected = alloc::vec![
                    r###""e""###.to_string(),
                ];
                return Err(
                    match __lookahead {
                        Some(__token) => {
                            __lalrpop_util::ParseError::UnrecognizedToken {
                                token: __token,
                                expected: __expected,
                            }
                        }
                        None => {
                            let __location = __sym0.2.clone();
                            __lalrpop_util::ParseError::UnrecognizedEof {
                                location: __location,
                                expected: __expected,
                            }
                        }
                    }
                )
            }
        }
        #[allow(clippy::never_loop)]
        loop {
            let (__lookahead, __nt) = __result;
            match __nt {
                __Nonterminal::X(__sym1) => {
                    __result = __state6(__tokens, __lookahead, __sym0, __sym1, core::marker::PhantomData::<()>)?;
                    return Ok(__result);
                }
                __Nonterminal::Y(__sym1) => {
                    __result = __state7(__tokens, __lookahead, __sym0, __sym1, core::marker::PhantomData::<()>)?;
                    return Ok(__result);
                }
                _ => {
                    return Ok((__lookahead, __nt));
                }
            }
        }
    }

    fn __state2<
        __TOKENS: Iterator<Item=Result<(i64, Tok, i64),__lalrpop_util::ParseError<i64, Tok, u64>>>,
    >(
        __tokens: &mut __TOKENS,
        __sym0: (i64, Tok, i64),
        _: core::marker::PhantomData<()>,
    ) -> Result<(Option<(i64, Tok, i64)>, __Nonterminal<>), __lalrpop_util::ParseError<i64, Tok, u64>>
    {
        let mut __result: (Option<(i64, Tok, i64)>, __Nonterminal<>);
        let __lookahead = match __tokens.next() {
            Some(Ok(v)) => Some(v),
            Some(Err(e)) => return Err(e),
            None => None,
        };
        match __lookahead {
            Some((__loc1, __tok @ Tok('e', _, _, _), __loc2)) => {
                let __sym1 = (__loc1, (__tok), __loc2);
                __result = __state4(__tokens, __sym1, core::marker::PhantomData::<()>)?;
            }
            _ => {
                #[allow(clippy::needless_raw_string_hashes)]
                let __expected = alloc::vec![
                    r###""e""###.to_string(),
                ];
                return Err(
                    match __lookahead {
                        Some(__token) => {
                            __lalrpop_util::ParseError::UnrecognizedToken {
                                token: __token,
                                expected: __expected,
                            }
                        }
                        None => {
                            let __location = __sym0.2.clone();
                            __lalrpop_util::ParseError::UnrecognizedEof {
                                location: __location,
                                expected: __expected,
                            }
                        }
                    }
                )
            }
        }
        #[allow(clippy::never_loop)]
        loop {
            let (__lookahead, __nt) = __result;
            match __nt {
                __Nonterminal::X(__sym1) => {
                    __result = __state8(__tokens, __lookahead, __sym0, __sym1, core::marker::PhantomData::<()>)?;
                    return Ok(__result);
                }
                __Nonterminal::Y(__sym1) => {
                    __result = __state9(__tokens, __lookahead, __sym0, __sym1, core::marker::PhantomData::<()>)?;
                    return Ok(__result);
                }
                _ => {
                    return Ok((__lookahead, __nt));
                }
            }
        }
    }

    fn __state3<
        __TOKENS: Iterator<Item=Result<(i64, Tok, i64),__lalrpop_util::ParseError<i64, Tok, u64>>>,
    >(
        __tokens: &mut __TOKENS,
        __sym0: (i64, Tok, i64),
        _: core::marker::PhantomData<()>,
    ) -> Result<(Option<(i64, Tok, i64)>, __Nonterminal<>), __lalrpop_util::ParseError<i64, Tok, u64>>
    {
        let mut __result: (Option<(i64, Tok, i64)>, __Nonterminal<>);
        let __lookahead = match __tokens.next() {
            Some(Ok(v)) => Some(v),
            Some(Err(e)) => return Err(e),
            None => None,
        };
        match __lookahead {
            Some((__loc1, __tok @ Tok('e', _, _, _), __loc2)) => {
                let __sym1 = (__loc1, (__tok), __loc2);
                __result = __state3(__tokens, __sym1, core::marker::PhantomData::<()>)?;
            }
            Some((_, Tok('d', _, _, _), _)) => {
                let __start = __sym0.0.clone();
                let __end = __sym0.2.clone();
                let __nt = super::__action24::<>(__sym0);
                let __nt = __Nonterminal::X((
                    __start,
                    __nt,
                    __end,
                ));
                __result = (__lookahead, __nt);
                return Ok(__result);
            }
            Some((_, Tok('c', _, _, _), _)) => {
                let __start = __sym0.0.clone();
                let __end = __sym0.2.clone();
                let __nt = super::__action26::<>(__sym0);
                let __nt = __Nonterminal::Y((
                    __start,
                    __nt,
                    __end,
                ));
                __result = (__lookahead, __nt);
                return Ok(__result);
            }
            _ => {
                #[allow(clippy::needless_raw_string_hashes)]
                let __expected = alloc::vec![
                    r###""c""###.to_string(),
                    r###""d""###.to_string(),
                    r###""e""###.to_string(),
                ];
                return Err(
                    match __lookahead {
                        Some(__token) => {
                            __lalrpop_util::ParseError::UnrecognizedToken {
                                token: __token,
                                expected: __expected,
                            }
                        }
                        None => {
                            let __location = __sym0.2.clone();
                            __lalrpop_util::ParseError::UnrecognizedEof {
                                location: __location,
                                expected: __expected,
                            }
                        }
                    }
                )
            }
        }
        #[allow(clippy::never_loop)]
        loop {
            let (__lookahead, __nt) = __result;
            match __nt {
                __Nonterminal::X(__sym1) => {
                    __result = __state12(__tokens, __lookahead, __sym0, __sym1, core::marker::PhantomData::<()>)?;
                    return Ok(__result);
                }
                __Nonterminal::Y(__sym1) => {
                    __result = __state13(__tokens, __lookahead, __sym0, __sym1, core::marker::PhantomData::<()>)?;
                    return Ok(__result);
                }
                _ => {
                    return Ok((__lookahead, __nt));
                }
            }
        }
    }

    fn __state4<
        __TOKENS: Iterator<Item=Result<(i64, Tok, i64),__lalrpop_util::ParseError<i64, Tok, u64>>>,
    >(
        __tokens: &mut __TOKENS,
        __sym0: (i64, Tok, i64),
        _: core::marker::PhantomData<()>,
    ) -> Result<(Option<(i64, Tok, i64)>, __Nonterminal<>), __lalrpop_util::ParseError<i64, Tok, u64>>
    {
        let mut __result: (Option<(i64, Tok, i64)>, __Nonterminal<>);
        let __lookahead = match __tokens.next() {
            Some(Ok(v)) => Some(v),
            Some(Err(e)) => return Err(e),
            None => None,
        };
        match __lookahead {
            Some((__loc1, __tok @ Tok('e', _, _, _), __loc2)) => {
                let __sym1 = (__loc1, (__tok), __loc2);
                __result = __state4(__tokens, __sym1, core::marker::PhantomData::<()>)?;
            }
            Some((_, Tok('c', _, _, _), _)) => {
                let __start = __sym0.0.clone();
                let __end = __sym0.2.clone();
                let __nt = super::__action24::<>(__sym0);
                let __nt = __Nonterminal::X((
                    __start,
                    __nt,
                    __end,
                ));
                __result = (__lookahead, __nt);
                return Ok(__result);
            }
            Some((_, Tok('d', _, _, _), _)) => {
                let __start = __sym0.0.clone();
                let __end = __sym0.2.clone();
                let __nt = super::__action26::<>(__sym0);
                let __nt = __Nonterminal::Y((
                    __start,
                    __nt,
                    __end,
                ));
                __result = (__lookahead, __nt);
                return Ok(__result);
            }
            _ => {
                #[allow(clippy::needless_raw_string_hashes)]
                let __expected = alloc::vec![
                    r###""c""###.to_string(),
                    r###""d""###.to_string(),
                    r###""e""###.to_string(),
                ];
                return Err(
                    match __lookahead {
                        Some(__token) => {
                            __lalrpop_util::ParseError::UnrecognizedToken {
                                token: __token,
                                expected: __expected,
                            }
                        }
                        None => {
                            let __location = __sym0.2.clone();
                            __lalrpop_util::ParseError::UnrecognizedEof {
                                location: __location,
                                expected: __expected,
                            }
                        }
                    }
                )
            }
        }
        #[allow(clippy::never_loop)]
        loop {
            let (__lookahead, __nt) = __result;
            match __nt {
                __Nonterminal::X(__sym1) => {
                    __result = __state12(__tokens, __lookahead, __sym0, __sym1, core::marker::PhantomData::<()>)?;
                    return Ok(__result);
                }
                __Nonterminal::Y(__sym1) => {
                    __result = __state13(__tokens, __lookahead, __sym0, __sym1, core::marker::PhantomData::<()>)?;
                    return Ok(__result);
                }
                _ => {
                    return Ok((__lookahead, __nt));
                }
            }
        }
    }

    fn __state5<
        __TOKENS: Iterator<Item=Result<(i64, Tok, i64),__lalrpop_util::ParseError<i64, Tok, u64>>>,
    >(
        __tokens: &mut __TOKENS,
        __lookahead: Option<(i64, Tok, i64)>,
        __sym0: (i64, Tree, i64),
        _: core::marker::PhantomData<()>,
    ) -> Result<(Option<(i64, Tok, i64)>, __Nonterminal<>), __lalrpop_util::ParseError<i64, Tok, u64>>
    {
        let mut __result: (Option<(i64, Tok, i64)>, __Nonterminal<>);
        match __lookahead {
            None => {
                let __start = __sym0.0.clone();
                let __end = __sym0.2.clone();
                let __nt = super::__action0::<>(__sym0);
                let __nt = __Nonterminal::____S((
                    __start,
                    __nt,
                    __end,
                ));
                __result = (__lookahead, __nt);
                return Ok(__result);
            }
            _ => {
                #[allow(clippy::needless_raw_string_hashes)]
                let __expected = alloc::vec![
                ];
                return Err(
                    match __lookahead {
                        Some(__token) => {
                            __lalrpop_util::ParseError::UnrecognizedToken {
                                token: __token,
                                expected: __expected,
                            }
                        }
                        None => {
                            let __location = __sym0.2.clone();
                            __lalrpop_util::ParseError::UnrecognizedEof {
                                location: __location,
                                expected: __expected,
                            }
                        }
                    }
                )
            }
        }
    }

    fn __state6<
        __TOKENS: Iterator<Item=Result<(i64, Tok, i64),__lalrpop_util::ParseError<i64, Tok, u64>>>,
    >(
        __tokens: &mut __TOKENS,
        __lookahead: Option<(i64, Tok, i64)>,
        __sym0: (i64, Tok, i64),
        __sym1: (i64, Tree, i64),
        _: core::marker::PhantomData<()>,
    ) -> Result<(Option<(i64, Tok, i64)>, __Nonterminal<>), __lalrpop_util::ParseError<i64, Tok, u64>>
    {
        let mut __result: (Option<(i64, Tok, i64)>, __Nonterminal<>);
        match __lookahead {
            Some((__loc1, __tok @ Tok('d', _, _, _), __loc2)) => {
                let __sym2 = (__loc1, (__tok), __loc2);
                __result = __state10(__tokens, __sym0, __sym1, __sym2, core::marker::PhantomData::<()>)?;
                return Ok(__result);
            }
            _ => {
                #[allow(clippy::needless_raw_string_hashes)]
                let __expected = alloc::vec![
                    r###""d""###.to_string(),
                ];
                return Err(
                    match __lookahead {
                        Some(__token) => {
                            __lalrpop_util::ParseError::UnrecognizedToken {
                                token: __token,
                                expected: __expected,
                            }
                        }
                        None => {
                            let __location = __sym1.2.clone();
                            __lalrpop_util::ParseError::UnrecognizedEof {
                                location: __location,
                                expected: __expected,
                            }
                        }
                    }
                )
            }
        }
    }

    fn __state7<
        __TOKENS: Iterator<Item=Result<(i64, Tok, i64),__lalrpop_util::ParseError<i64, Tok, u64>>>,
    >(
        __tokens: &mut __TOKENS,
        __lookahead: Option<(i64, Tok, i64)>,
        __sym0: (i64, Tok, i64),
        __sym1: (i64, Tree, i64),
        _: core::marker::PhantomData<()>,
    ) -> Result<(Option<(i64, Tok, i64)>, __Nonterminal<>), __lalrpop_util::ParseError<i64, Tok, u64>>
    {
        let mut __result: (Option<(i64, Tok, i64)>, __Nonterminal<>);
        match __lookahead {
            Some((__loc1, __tok @ Tok('c', _, _, _), __loc2)) => {
                let __sym2 = (__loc1, (__tok), __loc2);
                __result = __state11(__tokens, __sym0, __sym1, __sym2, core::marker::PhantomData::<()>)?;
                return Ok(__result);
            }
            _ => {
                #[allow(clippy::needless_raw_string_hashes)]
                let __expected = alloc::vec![
                    r###""c""###.to_string(),
                ];
                return Err(
                    match __lookahead {
                        Some(__token) => {
                            __lalrpop_util::ParseError::UnrecognizedToken {
                                token: __token,
                                expected: __expected,
                            }
                        }
                        None => {
                            let __location = __sym1.2.clone();
                            __lalrpop_util::ParseError::UnrecognizedEof {
                                location: __location,
                                expected: __expected,
                            }
                        }
                    }
                )
            }
        }
    }

    fn __state8<
        __TOKENS: Iterator<Item=Result<(i64, Tok, i64),__lalrpop_util::ParseError<i64, Tok, u64>>>,
    >(
        __tokens: &mut __TOKENS,
        __lookahead: Option<(i64, Tok, i64)>,
        __sym0: (i64, Tok, i64),
        __sym1: (i64, Tree, i64),
        _: core::marker::PhantomData<()>,
    ) -> Result<(Option<(i64, Tok, i64)>, __Nonterminal<>), __lalrpop_util::ParseError<i64, Tok, u64>>
    {
        let mut __result: (Option<(i64, Tok, i64)>, __Nonterminal<>);
        match __lookahead {
            Some((__loc1, __tok @ Tok('c', _, _, _), __loc2)) => {
                let __sym2 = (__loc1, (__tok), __loc2);
                __result = __state14(__tokens, __sym0, __sym1, __sym2, core::marker::PhantomData::<()>)?;
                return Ok(__result);
            }
            _ => {
                #[allow(clippy::needless_raw_string_hashes)]
                let __expected = alloc::vec![
                    r###""c""###.to_string(),
                ];
                return Err(
                    match __lookahead {
                        Some(__token) => {
                            __lalrpop_util::ParseError::UnrecognizedToken {
                                token: __token,
                                expected: __expected,
                            }
                        }
                        None => {
                            let __location = __sym1.2.clone();
                            __lalrpop_util::ParseError::UnrecognizedEof {
                                location: __location,
                                expected: __expected,
                            }
                        }
                    }
                )
            }
        }
    }

    fn __state9<
        __TOKENS: Iterator<Item=Result<(i64, Tok, i64),__lalrpop_util::ParseError<i64, Tok, u64>>>,
    >(
        __tokens: &mut __TOKENS,
        __lookahead: Option<(i64, Tok, i64)>,
        __sym0: (i64, Tok, i64),
        __sym1: (i64, Tree, i64),
        _: core::marker::PhantomData<()>,
    ) -> Result<(Option<(i64, Tok, i64)>, __Nonterminal<>), __lalrpop_util::ParseError<i64, Tok, u64>>
    {
        let mut __result: (Option<(i64, Tok, i64)>, __Nonterminal<>);
        match __lookahead {
            Some((__loc1, __tok @ Tok('d', _, _, _), __loc2)) => {
                let __sym2 = (__loc1, (__tok), __loc2);
                __result = __state15(__tokens, __sym0, __sym1, __sym2, core::marker::PhantomData::<()>)?;
                return Ok(__result);
            }
            _ => {
                #[allow(clippy::needless_raw_string_hashes)]
                let __expected = alloc::vec![
                    r###""d""###.to_string(),
                ];
                return Err(
                    match __lookahead {
                        Some(__token) => {
                            __lalrpop_util::ParseError::UnrecognizedToken {
                                token: __token,
                                expected: __expected,
                            }
                        }
                        None => {
                            let __location = __sym1.2.clone();
                            __lalrpop_util::ParseError::UnrecognizedEof {
                                location: __location,
                                expected: __expected,
                            }
                        }
                    }
                )
            }
        }
    }

    fn __state10<
        __TOKENS: Iterator<Item=Result<(i64, Tok, i64),__lalrpop_util::ParseError<i64, Tok, u64>>>,
    >(
        __tokens: &mut __TOKENS,
        __sym0: (i64, Tok, i64),
        __sym1: (i64, Tree, i64),
        __sym2: (i64, Tok, i64),
        _: core::marker::PhantomData<()>,
    ) -> Result<(Option<(i64, Tok, i64)>, __Nonterminal<>), __lalrpop_util::ParseError<i64, Tok, u64>>
    {
        let mut __result: (Option<(i64, Tok, i64)>, __Nonterminal<>);
        let __lookahead = match __tokens.next() {
            Some(Ok(v)) => Some(v),
            Some(Err(e)) => return Err(e),
            None => None,
        };
        match __lookahead {
            None => {
                let __start = __sym0.0.clone();
                let __end = __sym2.2.clone();
                let __nt = super::__action19::<>(__sym0, __sym1, __sym2);
                let __nt = __Nonterminal::S((
                    __start,
                    __nt,
                    __end,
                ));
                __result = (__lookahead, __nt);
                return Ok(__result);
            }
            _ => {
                #[allow(clippy::needless_raw_string_hashes)]
                let __expected = alloc::vec![
                ];
                return Err(
                    match __lookahead {
                        Some(__token) => {
                            __lalrpop_util::ParseError::UnrecognizedToken {
                                token: __token,
                                expected: __expected,
                            }
                        }
                        None => {
                            let __location = __sym2.2.clone();
                            __lalrpop_util::ParseError::UnrecognizedEof {
                                location: __location,
                                expected: __expected,
                            }
                        }
                    }
                )
            }
        }
    }

    fn __state11<
        __TOKENS: Iterator<Item=Result<(i64, Tok, i64),__lalrpop_util::ParseError<i64, Tok, u64>>>,
    >(
        __tokens: &mut __TOKENS,
        __sym0: (i64, Tok, i64),
        __sym1: (i64, Tree, i64),
        __sym2: (i64, Tok, i64),
        _: core::marker::PhantomData<()>,
    ) -> Result<(Option<(i64, Tok, i64)>, __Nonterminal<>), __lalrpop_util::ParseError<i64, Tok, u64>>
    {
        let mut __result: (Option<(i64, Tok, i64)>, __Nonterminal<>);
        let __lookahead = match __tokens.next() {
            Some(Ok(v)) => Some(v),
            Some(Err(e)) => return Err(e),
            None => None,
        };
        match __lookahead {
            None => {
                let __start = __sym0.0.clone();
                let __end = __sym2.2.clone();
                let __nt = super::__action20::<>(__sym0, __sym1, __sym2);
                let __nt = __Nonterminal::S((
                    __start,
                    __nt,
                    __end,
                ));
                __result = (__lookahead, __nt);
                return Ok(__result);
            }
            _ => {
                #[allow(clippy::needless_raw_string_hashes)]
                let __expected = alloc::vec![
                ];
                return Err(
                    match __lookahead {
                        Some(__token) => {
                            __lalrpop_util::ParseError::UnrecognizedToken {
                                token: __token,
                                expected: __expected,
                            }
                        }
                        None => {
                            let __location = __sym2.2.clone();
                            __lalrpop_util::ParseError::UnrecognizedEof {
                                location: __location,
                                expected: __expected,
                            }
                        }
                    }
                )
            }
        }
    }

    fn __state12<
        __TOKENS: Iterator<Item=Result<(i64, Tok, i64),__lalrpop_util::ParseError<i64, Tok, u64>>>,
    >(
        __tokens: &mut __TOKENS,
        __lookahead: Option<(i64, Tok, i64)>,
        __sym0: (i64, Tok, i64),
        __sym1: (i64, Tree, i64),
        _: core::marker::PhantomData<()>,
    ) -> Result<(Option<(i64, Tok, i64)>, __Nonterminal<>), __lalrpop_util::ParseError<i64, Tok, u64>>
    {
        let mut __result: (Option<(i64, Tok, i64)>, __Nonterminal<>);
        match __lookahead {
            Some((_, Tok('c', _, _, _), _)) |
            Some((_, Tok('d', _, _, _), _)) => {
                let __start = __sym0.0.clone();
                let __end = __sym1.2.clone();
                let __nt = super::__action23::<>(__sym0, __sym1);
                let __nt = __Nonterminal::X((
                    __start,
                    __nt,
                    __end,
                ));
                __result = (__lookahead, __nt);
                return Ok(__result);
            }
            _ => {
                #[allow(clippy::needless_raw_string_hashes)]
                let __expected = alloc::vec![
                    r###""c""###.to_string(),
                    r###""d""###.to_string(),
                ];
                return Err(
                    match __lookahead {
                        Some(__token) => {
                            __lalrpop_util::ParseError::UnrecognizedToken {
                                token: __token,
                                expected: __expected,
                            }
                        }
                        None => {
                            let __location = __sym1.2.clone();
                            __lalrpop_util::ParseError::UnrecognizedEof {
                                location: __location,
                                expected: __expected,
                            }
                        }
                    }
                )
            }
        }
    }

    fn __state13<
        __TOKENS: Iterator<Item=Result<(i64, Tok, i64),__lalrpop_util::ParseError<i64, Tok, u64>>>,
    >(
        __tokens: &mut __TOKENS,
        __lookahead: Option<(i64, Tok, i64)>,
        __sym0: (i64, Tok, i64),
        __sym1: (i64, Tree, i64),
        _: core::marker::PhantomData<()>,
    ) -> Result<(Option<(i64, Tok, i64)>, __Nonterminal<>), __lalrpop_util::ParseError<i64, Tok, u64>>
    {
        let mut __result: (Option<(i64, Tok, i64)>, __Nonterminal<>);
        match __lookahead {
            Some((_, Tok('c', _, _, _), _)) |
            Some((_, Tok('d', _, _, _), _)) => {
                let __start = __sym0.0.clone();
                let __end = __sym1.2.clone();
                let __nt = super::__action25::<>(__sym0, __sym1);
                let __nt = __Nonterminal::Y((
                    __start,
                    __nt,
                    __end,
                ));
                __result = (__lookahead, __nt);
                return Ok(__result);
            }
            _ => {
                #[allow(clippy::needless_raw_string_hashes)]
                let __expected = alloc::vec![
                    r###""c""###.to_string(),
                    r###""d""###.to_string(),
                ];
                return Err(
                    match __lookahead {
                        Some(__token) => {
                            __lalrpop_util::ParseError::UnrecognizedToken {
                                token: __token,
                                expected: __expected,
                            }
                        }
                        None => {
                            let __location = __sym1.2.clone();
                            __lalrpop_util::ParseError::UnrecognizedEof {
                                location: __location,
                                expected: __expected,
                            }
                        }
                    }
                )
            }
        }
    }

    fn __state14<
        __TOKENS: Iterator<Item=Result<(i64, Tok, i64),__lalrpop_util::ParseError<i64, Tok, u64>>>,
    >(
        __tokens: &mut __TOKENS,
        __sym0: (i64, Tok, i64),
        __sym1: (i64, Tree, i64),
        __sym2: (i64, Tok, i64),
        _: core::marker::PhantomData<()>,
    ) -> Result<(Option<(i64, Tok, i64)>, __Nonterminal<>), __lalrpop_util::ParseError<i64, Tok, u64>>
    {
        let mut __result: (Option<(i64, Tok, i64)>, __Nonterminal<>);
        let __lookahead = match __tokens.next() {
            Some(Ok(v)) => Some(v),
            Some(Err(e)) => return Err(e),
            None => None,
        };
        match __lookahead {
            None => {
                let __start = __sym0.0.clone();
                let __end = __sym2.2.clone();
                let __nt = super::__action21::<>(__sym0, __sym1, __sym2);
                let __nt = __Nonterminal::S((
                    __start,
                    __nt,
                    __end,
                ));
                __result = (__lookahead, __nt);
                return Ok(__result);
            }
            _ => {
                #[allow(clippy::needless_raw_string_hashes)]
                let __expected = alloc::vec![
                ];
                return Err(
                    match __lookahead {
                        Some(__token) => {
                            __lalrpop_util::ParseError::UnrecognizedToken {
                                token: __token,
                                expected: __expected,
                            }
                        }
                        None => {
                            let __location = __sym2.2.clone();
                            __lalrpop_util::ParseError::UnrecognizedEof {
                                location: __location,
                                expected: __expected,
                            }
                        }
                    }
                )
            }
        }
    }

    fn __state15<
        __TOKENS: Iterator<Item=Result<(i64, Tok, i64),__lalrpop_util::ParseError<i64, Tok, u64>>>,
    >(
        __tokens: &mut __TOKENS,
        __sym0: (i64, Tok, i64),
        __sym1: (i64, Tree, i64),
        __sym2: (i64, Tok, i64),
        _: core::marker::PhantomData<()>,
    ) -> Result<(Option<(i64, Tok, i64)>, __Nonterminal<>), __lalrpop_util::ParseError<i64, Tok, u64>>
    {
        let mut __result: (Option<(i64, Tok, i64)>, __Nonterminal<>);
        let __lookahead = match __tokens.next() {
            Some(Ok(v)) => Some(v),
            Some(Err(e)) => return Err(e),
            None => None,
        };
        match __lookahead {
            None => {
                let __start = __sym0.0.clone();
                let __end = __sym2.2.clone();
                let __nt = super::__action22::<>(__sym0, __sym1, __sym2);
                let __nt = __Nonterminal::S((
                    __start,
                    __nt,
                    __end,
                ));
                __result = (__lookahead, __nt);
                return Ok(__result);
            }
            _ => {
                #[allow(clippy::needless_raw_string_hashes)]
                let __expected = alloc::vec![
                ];
                return Err(
                    match __lookahead {
                        Some(__token) => {
                            __lalrpop_util::ParseError::UnrecognizedToken {
                                token: __token,
                                expected: __expected,
                            }
                        }
                        None => {
                            let __location = __sym2.2.clone();
                            __lalrpop_util::ParseError::UnrecognizedEof {
                                location: __location,
                                expected: __expected,
                            }
                        }
                    }
                )
            }
        }
    }
}
#[allow(unused_imports)]
pub use self::__parse__S::SParser;

#[allow(clippy::too_many_arguments, clippy::needless_lifetimes, clippy::just_underscores_and_digits, clippy::extra_unused_type_parameters)]
fn __action0<
>(
    (_, __0, _): (i64, Tree, i64),
) -> Tree
{
    __0
}

#[allow(clippy::too_many_arguments, clippy::needless_lifetimes, clippy::just_underscores_and_digits, clippy::extra_unused_type_parameters)]
fn __action1<
>(
    (_, l, _): (i64, i64, i64),
    (_, c0, _): (i64, Tok, i64),
    (_, c1, _): (i64, Tree, i64),
    (_, c2, _): (i64, Tok, i64),
    (_, r, _): (i64, i64, i64),
) -> Tree
{
    node("S#0", l, r, vec![Tree::from(c0), Tree::from(c1), Tree::from(c2)])
}

#[allow(clippy::too_many_arguments, clippy::needless_lifetimes, clippy::just_underscores_and_digits, clippy::extra_unused_type_parameters)]
fn __action2<
>(
    (_, l, _): (i64, i64, i64),
    (_, c0, _): (i64, Tok, i64),
    (_, c1, _): (i64, Tree, i64),
    (_, c2, _): (i64, Tok, i64),
    (_, r, _): (i64, i64, i64),
) -> Tree
{
    node("S#1", l, r, vec![Tree::from(c0), Tree::from(c1), Tree::from(c2)])
}

#[allow(clippy::too_many_arguments, clippy::needless_lifetimes, clippy::just_underscores_and_digits, clippy::extra_unused_type_parameters)]
fn __action3<
>(
    (_, l, _): (i64, i64, i64),
    (_, c0, _): (i64, Tok, i64),
    (_, c1, _): (i64, Tree, i64),
    (_, c2, _): (i64, Tok, i64),
    (_, r, _): (i64, i64, i64),
) -> Tree
{
    node("S#2", l, r, vec![Tree::from(c0), Tree::from(c1), Tree::from(c2)])
}

#[allow(clippy::too_many_arguments, clippy::needless_lifetimes, clippy::just_underscores_and_digits, clippy::extra_unused_type_parameters)]
fn __action4<
>(
    (_, l, _): (i64, i64, i64),
    (_, c0, _): (i64, Tok, i64),
    (_, c1, _): (i64, Tree, i64),
    (_, c2, _): (i64, Tok, i64),
    (_, r, _): (i64, i64, i64),
) -> Tree
{
    node("S#3", l, r, vec![Tree::from(c0), Tree::from(c1), Tree::from(c2)])
}

#[allow(clippy::too_many_arguments, clippy::needless_lifetimes, clippy::just_underscores_and_digits, clippy::extra_unused_type_parameters)]
fn __action5<
>(
    (_, l, _): (i64, i64, i64),
    (_, c0, _): (i64, Tok, i64),
    (_, c1, _): (i64, Tree, i64),
    (_, r, _): (i64, i64, i64),
) -> Tree
{
    node("X#0", l, r, vec![Tree::from(c0), Tree::from(c1)])
}

#[allow(clippy::too_many_arguments, clippy::needless_lifetimes, clippy::just_underscores_and_digits, clippy::extra_unused_type_parameters)]
fn __action6<
>(
    (_, l, _): (i64, i64, i64),
    (_, c0, _): (i64, Tok, i64),
    (_, r, _): (i64, i64, i64),
) -> Tree
{
    node("X#1", l, r, vec![Tree::from(c0)])
}

#[allow(clippy::too_many_arguments, clippy::needless_lifetimes, clippy::just_underscores_and_digits, clippy::extra_unused_type_parameters)]
fn __action7<
>(
    (_, l, _): (i64, i64, i64),
    (_, c0, _): (i64, Tok, i64),
    (_, c1, _): (i64, Tree, i64),
    (_, r, _): (i64, i64, i64),
) -> Tree
{
    node("Y#0", l, r, vec![Tree::from(c0), Tree::from(c1)])
}

#[allow(clippy::too_many_arguments, clippy::needless_lifetimes, clippy::just_underscores_and_digits, clippy::extra_unused_type_parameters)]
fn __action8<
>(
    (_, l, _): (i64, i64, i64),
    (_, c0, _): (i64, Tok, i64),
    (_, r, _): (i64, i64, i64),
) -> Tree
{
    node("Y#1", l, r, vec![Tree::from(c0)])
}

#[allow(clippy::needless_lifetimes, clippy::clone_on_copy)]
fn __action9<
>(
    __lookbehind: &i64,
    __lookahead: &i64,
) -> i64
{
    __lookbehind.clone()
}

#[allow(clippy::needless_lifetimes, clippy::clone_on_copy)]
fn __action10<
>(
    __lookbehind: &i64,
    __lookahead: &i64,
) -> i64
{
    __lookahead.clone()
}

#[allow(clippy::too_many_arguments, clippy::needless_lifetimes,
    clippy::just_underscores_and_digits, clippy::clone_on_copy, clippy::unit_arg)]
fn __action11<
>(
    __0: (i64, Tok, i64),
    __1: (i64, Tree, i64),
    __2: (i64, Tok, i64),
    __3: (i64, i64, i64),
) -> Tree
{
    let __start0 = __0.0.clone();
    let __end0 = __0.0.clone();
    let __temp0 = __action10(
        &__start0,
        &__end0,
    );
    let __temp0 = (__start0, __temp0, __end0);
    __action1(
        __temp0,
        __0,
        __1,
        __2,
        __3,
    )
}

#[allow(clippy::too_many_arguments, clippy::needless_lifetimes,
    clippy::just_underscores_and_digits, clippy::clone_on_copy, clippy::unit_arg)]
fn __action12<
>(
    __0: (i64, Tok, i64),
    __1: (i64, Tree, i64),
    __2: (i64, Tok, i64),
    __3: (i64, i64, i64),
) -> Tree
{
    let __start0 = __0.0.clone();
    let __end0 = __0.0.clone();
    let __temp0 = __action10(
        &__start0,
        &__end0,
    );
    let __temp0 = (__start0, __temp0, __end0);
    __action2(
        __temp0,
        __0,
        __1,
        __2,
        __3,
    )
}

#[allow(clippy::too_many_arguments, clippy::needless_lifetimes,
    clippy::just_underscores_and_digits, clippy::clone_on_copy, clippy::unit_arg)]
fn __action13<
>(
    __0: (i64, Tok, i64),
    __1: (i64, Tree, i64),
    __2: (i64, Tok, i64),
    __3: (i64, i64, i64),
) -> Tree
{
    let __start0 = __0.0.clone();
    let __end0 = __0.0.clone();
    let __temp0 = __action10(
        &__start0,
        &__end0,
    );
    let __temp0 = (__start0, __temp0, __end0);
    __action3(
        __temp0,
        __0,
        __1,
        __2,
        __3,
    )
}

#[allow(clippy::too_many_arguments, clippy::needless_lifetimes,
    clippy::just_underscores_and_digits, clippy::clone_on_copy, clippy::unit_arg)]
fn __action14<
>(
    __0: (i64, Tok, i64),
    __1: (i64, Tree, i64),
    __2: (i64, Tok, i64),
    __3: (i64, i64, i64),
) -> Tree
{
    let __start0 = __0.0.clone();
    let __end0 = __0.0.clone();
    let __temp0 = __action10(
        &__start0,
        &__end0,
    );
    let __temp0 = (__start0, __temp0, __end0);
    __action4(
        __temp0,
        __0,
        __1,
        __2,
        __3,
    )
}

#[allow(clippy::too_many_arguments, clippy::needless_lifetimes,
    clippy::just_underscores_and_digits, clippy::clone_on_copy, clippy::unit_arg)]
fn __action15<
>(
    __0: (i64, Tok, i64),
    __1: (i64, Tree, i64),
    __2: (i64, i64, i64),
) -> Tree
{
    let __start0 = __0.0.clone();
    let __end0 = __0.0.clone();
    let __temp0 = __action10(
        &__start0,
        &__end0,
    );
    let __temp0 = (__start0, __temp0, __end0);
    __action5(
        __temp0,
        __0,
        __1,
        __2,
    )
}

#[allow(clippy::too_many_arguments, clippy::needless_lifetimes,
    clippy::just_underscores_and_digits, clippy::clone_on_copy, clippy::unit_arg)]
fn __action16<
>(
    __0: (i64, Tok, i64),
    __1: (i64, i64, i64),
) -> Tree
{
    let __start0 = __0.0.clone();
    let __end0 = __0.0.clone();
    let __temp0 = __action10(
        &__start0,
        &__end0,
    );
    let __temp0 = (__start0, __temp0, __end0);
    __action6(
        __temp0,
        __0,
        __1,
    )
}

#[allow(clippy::too_many_arguments, clippy::needless_lifetimes,
    clippy::just_underscores_and_digits, clippy::clone_on_copy, clippy::unit_arg)]
fn __action17<
>(
    __0: (i64, Tok, i64),
    __1: (i64, Tree, i64),
    __2: (i64, i64, i64),
) -> Tree
{
    let __start0 = __0.0.clone();
    let __end0 = __0.0.clone();
    let __temp0 = __action10(
        &__start0,
        &__end0,
    );
    let __temp0 = (__start0, __temp0, __end0);
    __action7(
        __temp0,
        __0,
        __1,
        __2,
    )
}

#[allow(clippy::too_many_arguments, clippy::needless_lifetimes,
    clippy::just_underscores_and_digits, clippy::clone_on_copy, clippy::unit_arg)]
fn __action18<
>(
    __0: (i64, Tok, i64),
    __1: (i64, i64, i64),
) -> Tree
{
    let __start0 = __0.0.clone();
    let __end0 = __0.0.clone();
    let __temp0 = __action10(
        &__start0,
        &__end0,
    );
    let __temp0 = (__start0, __temp0, __end0);
    __action8(
        __temp0,
        __0,
        __1,
    )
}

#[allow(clippy::too_many_arguments, clippy::needless_lifetimes,
    clippy::just_underscores_and_digits, clippy::clone_on_copy, clippy::unit_arg)]
fn __action19<
>(
    __0: (i64, Tok, i64),
    __1: (i64, Tree, i64),
    __2: (i64, Tok, i64),
) -> Tree
{
    let __start0 = __2.2.clone();
    let __end0 = __2.2.clone();
    let __temp0 = __action9(
        &__start0,
        &__end0,
    );
    let __temp0 = (__start0, __temp0, __end0);
    __action11(
        __0,
        __1,
        __2,
        __temp0,
    )
}

#[allow(clippy::too_many_arguments, clippy::needless_lifetimes,
    clippy::just_underscores_and_digits, clippy::clone_on_copy, clippy::unit_arg)]
fn __action20<
>(
    __0: (i64, Tok, i64),
    __1: (i64, Tree, i64),
    __2: (i64, Tok, i64),
) -> Tree
{
    let __start0 = __2.2.clone();
    let __end0 = __2.2.clone();
    let __temp0 = __action9(
        &__start0,
        &__end0,
    );
    let __temp0 = (__start0, __temp0, __end0);
    __action12(
        __0,
        __1,
        __2,
        __temp0,
    )
}

#[allow(clippy::too_many_arguments, clippy::needless_lifetimes,
    clippy::just_underscores_and_digits, clippy::clone_on_copy, clippy::unit_arg)]
fn __action21<
>(
    __0: (i64, Tok, i64),
    __1: (i64, Tree, i64),
    __2: (i64, Tok, i64),
) -> Tree
{
    let __start0 = __2.2.clone();
    let __end0 = __2.2.clone();
    let __temp0 = __action9(
        &__start0,
        &__end0,
    );
    let __temp0 = (__start0, __temp0, __end0);
    __action13(
        __0,
        __1,
        __2,
        __temp0,
    )
}

#[allow(clippy::too_many_arguments, clippy::needless_lifetimes,
    clippy::just_underscores_and_digits, clippy::clone_on_copy, clippy::unit_arg)]
fn __action22<
>(
    __0: (i64, Tok, i64),
    __1: (i64, Tree, i64),
    __2: (i64, Tok, i64),
) -> Tree
{
    let __start0 = __2.2.clone();
    let __end0 = __2.2.clone();
    let __temp0 = __action9(
        &__start0,
        &__end0,
    );
    let __temp0 = (__start0, __temp0, __end0);
    __action14(
        __0,
        __1,
        __2,
        __temp0,
    )
}

#[allow(clippy::too_many_arguments, clippy::needless_lifetimes,
    clippy::just_underscores_and_digits, clippy::clone_on_copy, clippy::unit_arg)]
fn __action23<
>(
    __0: (i64, Tok, i64),
    __1: (i64, Tree, i64),
) -> Tree
{
    let __start0 = __1.2.clone();
    let __end0 = __1.2.clone();
    let __temp0 = __action9(
        &__start0,
        &__end0,
    );
    let __temp0 = (__start0, __temp0, __end0);
    __action15(
        __0,
        __1,
        __temp0,
    )
}

#[allow(clippy::too_many_arguments, clippy::needless_lifetimes,
    clippy::just_underscores_and_digits, clippy::clone_on_copy, clippy::unit_arg)]
fn __action24<
>(
    __0: (i64, Tok, i64),
) -> Tree
{
    let __start0 = __0.2.clone();
    let __end0 = __0.2.clone();
    let __temp0 = __action9(
        &__start0,
        &__end0,
    );
    let __temp0 = (__start0, __temp0, __end0);
    __action16(
        __0,
        __temp0,
    )
}

#[allow(clippy::too_many_arguments, clippy::needless_lifetimes,
    clippy::just_underscores_and_digits, clippy::clone_on_copy, clippy::unit_arg)]
fn __action25<
>(
    __0: (i64, Tok, i64),
    __1: (i64, Tree, i64),
) -> Tree
{
    let __start0 = __1.2.clone();
    let __end0 = __1.2.clone();
    let __temp0 = __action9(
        &__start0,
        &__end0,
    );
    let __temp0 = (__start0, __temp0, __end0);
    __action17(
        __0,
        __1,
        __temp0,
    )
}

#[allow(clippy::too_many_arguments, clippy::needless_lifetimes,
    clippy::just_underscores_and_digits, clippy::clone_on_copy, clippy::unit_arg)]
fn __action26<
>(
    __0: (i64, Tok, i64),
) -> Tree
{
    let __start0 = __0.2.clone();
    let __end0 = __0.2.clone();
    let __temp0 = __action9(
        &__start0,
        &__end0,
    );
    let __temp0 = (__start0, __temp0, __end0);
    __action18(
        __0,
        __temp0,
    )
}

#[allow(clippy::type_complexity, dead_code)]
pub trait __ToTriple<>
{
    fn to_triple(self) -> Result<(i64,Tok,i64), __lalrpop_util::ParseError<i64, Tok, u64>>;
}

impl<> __ToTriple<> for (i64, Tok, i64)
{
    fn to_triple(self) -> Result<(i64,Tok,i64), __lalrpop_util::ParseError<i64, Tok, u64>> {
        Ok(self)
    }
}
impl<> __ToTriple<> for Result<(i64, Tok, i64), u64>
{
    fn to_triple(self) -> Result<(i64,Tok,i64), __lalrpop_util::ParseError<i64, Tok, u64>> {
        self.map_err(|error| __lalrpop_util::ParseError::User { error })
    }
}
