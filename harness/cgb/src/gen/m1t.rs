// auto-generated: "lalrpop 0.23.1"
// sha3: 6544aae65c6b6fd26d21bf080b930435f0e4354ae4dab1157a490caa5e7929dc
use crate::rt::*;
#[allow(unused_extern_crates)]
extern crate lalrpop_util as __lalrpop_util;
#[allow(unused_imports)]
use self::__lalrpop_util::state_machine as __state_machine;
#[allow(unused_extern_crates)]
extern crate alloc;

#[rustfmt::skip]
#[allow(explicit_outlives_requirements, non_snake_case, non_camel_case_types, unused_mut, unused_variables, unused_imports, unused_parens, clippy::needless_lifetimes, clippy::type_complexity, clippy::needless_return, clippy::too_many_arguments, clippy::match_single_binding, clippy::clone_on_copy, clippy::unit_arg)]
mod __parse__S {

    use crate::rt::*;
    #[allow(unused_extern_crates)]
    extern crate lalrpop_util as __lalrpop_util;
    #[allow(unused_imports)]
    use self::__lalrpop_util::state_machine as __state_machine;
    #[allow(unused_extern_crates)]
    extern crate alloc;
    use super::__ToTriple;
    #[allow(dead_code)]
    pub(crate) enum __Symbol<>
     {
        Variant0(Tok),
        Variant1(i64),
        Variant2(Tree),
    }
    const __ACTION: &[i8] = &[
        // State 0
        -3, -3, -3,
        // State 1
        6, 4, 5,
        // State 2
        0, 0, 0,
        // State 3
        -5, -5, -5,
        // State 4
        0, 0, 0,
        // State 5
        -4, -4, -4,
    ];
    fn __action(state: i8, integer: usize) -> i8 {
        __ACTION[(state as usize) * 3 + integer]
    }
    const __EOF_ACTION: &[i8] = &[
        // State 0
        0,
        // State 1
        0,
        // State 2
        -7,
        // State 3
        0,
        // State 4
        -6,
        // State 5
        0,
    ];
    fn __goto(state: i8, nt: usize) -> i8 {
        match nt {
            2 => 1,
            3 => 2,
            _ => 0,
        }
    }
    #[allow(clippy::needless_raw_string_hashes)]
    const __TERMINAL: &[&str] = &[
        r###""a""###,
        r###"",""###,
        r###"";""###,
    ];
    fn __expected_tokens(__state: i8) -> alloc::vec::Vec<alloc::string::String> {
        __TERMINAL.iter().enumerate().filter_map(|(index, terminal)| {
            let next_state = __action(__state, index);
            if next_state == 0 {
                None
            } else {
                Some(alloc::string::ToString::to_string(terminal))
            }
        }).collect()
    }
    fn __expected_tokens_from_states<
    >(
        __states: &[i8],
        _: core::marker::PhantomData<()>,
    ) -> alloc::vec::Vec<alloc::string::String>
    {
        __TERMINAL.iter().enumerate().filter_map(|(index, terminal)| {
            if __accepts(None, __states, Some(index), core::marker::PhantomData::<()>) {
                Some(alloc::string::ToString::to_string(terminal))
            } else {
                None
            }
        }).collect()
    }
    struct __StateMachine<>
    where 
    {
        __phantom: core::marker::PhantomData<()>,
    }
    impl<> __state_machine::ParserDefinition for __StateMachine<>
    where 
    {
        type Location = i64;
        type Error = u64;
        type Token = Tok;
        type TokenIndex = usize;
        type Symbol = __Symbol<>;
        type Success = Tree;
        type StateIndex = i8;
        type Action = i8;
        type ReduceIndex = i8;
        type NonterminalIndex = usize;

        #[inline]
        fn start_location(&self) -> Self::Location {
              Default::default()
        }

        #[inline]
        fn start_state(&self) -> Self::StateIndex {
              0
        }

        #[inline]
        fn token_to_index(&self, token: &Self::Token) -> Option<usize> {
            __token_to_integer(token, core::marker::PhantomData::<()>)
        }

        #[inline]
        fn action(&self, state: i8, integer: usize) -> i8 {
            __action(state, integer)
        }

        #[inline]
        fn error_action(&self, state: i8) -> i8 {
            __action(state, 3 - 1)
        }

        #[inline]
        fn eof_action(&self, state: i8) -> i8 {
            __EOF_ACTION[state as usize]
        }

        #[inline]
        fn goto(&self, state: i8, nt: usize) -> i8 {
            __goto(state, nt)
        }

        fn token_to_symbol(&self, token_index: usize, token: Self::Token) -> Self::Symbol {
            __token_to_symbol(token_index, token, core::marker::PhantomData::<()>)
        }

        fn expected_tokens(&self, state: i8) -> alloc::vec::Vec<alloc::string::String> {
            __expected_tokens(state)
        }

        fn expected_tokens_from_states(&self, states: &[i8]) -> alloc::vec::Vec<alloc::string::String> {
            __expected_tokens_from_states(states, core::marker::PhantomData::<()>)
        }

        #[inline]
        fn uses_error_recovery(&self) -> bool {
            false
        }

        #[inline]
        fn error_recovery_symbol(
            &self,
            recovery: __state_machine::ErrorRecovery<Self>,
        ) -> Self::Symbol {
            panic!("error recovery not enabled for this grammar")
        }

        fn reduce(
            &mut self,
            action: i8,
            start_location: Option<&Self::Location>,
            states: &mut alloc::vec::Vec<i8>,
            symbols: &mut alloc::vec::Vec<__state_machine::SymbolTriple<Self>>,
        ) -> Option<__state_machine::ParseResult<Self>> {
            __reduce(
                action,
                start_location,
                states,
                symbols,
                core::marker::PhantomData::<()>,
            )
        }

        fn simulate_reduce(&self, action: i8) -> __state_machine::SimulatedReduce<Self> {
            __simulate_reduce(action, core::marker::PhantomData::<()>)
        }
    }
    fn __token_to_integer<
    >(
        __token: &Tok,
        _: core::marker::PhantomData<()>,
    ) -> Option<usize>
    {
        #[warn(unused_variables)]
        match __token {
            Tok('a', _, _, _) if true => Some(0),
            Tok('b', _, _, _) if true => Some(1),
            Tok('c', _, _, _) if true => Some(2),
            _ => None,
        }
    }
    fn __token_to_symbol<
    >(
        __token_index: usize,
        __token: Tok,
        _: core::marker::PhantomData<()>,
    ) -> __Symbol<>
    {
        #[allow(clippy::manual_range_patterns)]match __token_index {
            0 | 1 | 2 => __Symbol::Variant0(__token),
            _ => unreachable!(),
        }
    }
    fn __simulate_reduce<
    >(
        __reduce_index: i8,
        _: core::marker::PhantomData<()>,
    ) -> __state_machine::SimulatedReduce<__StateMachine<>>
    {
        match __reduce_index {
            0 => {
                __state_machine::SimulatedReduce::Reduce {
                    states_to_pop: 0,
                    nonterminal_produced: 0,
                }
            }
            1 => {
                __state_machine::SimulatedReduce::Reduce {
                    states_to_pop: 0,
                    nonterminal_produced: 1,
                }
            }
            2 => {
                __state_machine::SimulatedReduce::Reduce {
                    states_to_pop: 0,
                    nonterminal_produced: 2,
                }
            }
            3 => {
                __state_machine::SimulatedReduce::Reduce {
                    states_to_pop: 2,
                    nonterminal_produced: 2,
                }
            }
            4 => {
                __state_machine::SimulatedReduce::Reduce {
                    states_to_pop: 2,
                    nonterminal_produced: 2,
                }
            }
            5 => {
                __state_machine::SimulatedReduce::Reduce {
                    states_to_pop: 2,
                    nonterminal_produced: 3,
                }
            }
            6 => __state_machine::SimulatedReduce::Accept,
            _ => panic!("invalid reduction index {__reduce_index}")
        }
    }
    pub struct SParser {
        _priv: (),
    }

    impl Default for SParser { fn default() -> Self { Self::new() } }
    impl SParser {
        pub fn new() -> SParser {
            SParser {
                _priv: (),
            }
        }

        #[allow(dead_code)]
        pub fn parse<
            __TOKEN: __ToTriple<>,
            __TOKENS: IntoIterator<Item=__TOKEN>,
        >(
            &self,
            __tokens0: __TOKENS,
        ) -> Result<Tree, __lalrpop_util::ParseError<i64, Tok, u64>>
        {
            let __tokens = __tokens0.into_iter();
            let mut __tokens = __tokens.map(|t| __ToTriple::to_triple(t));
            __state_machine::Parser::drive(
                __StateMachine {
                    __phantom: core::marker::PhantomData::<()>,
                },
                __tokens,
            )
        }
    }
    fn __accepts<
    >(
        __error_state: Option<i8>,
        __states: &[i8],
        __opt_integer: Option<usize>,
        _: core::marker::PhantomData<()>,
    ) -> bool
    {
        let mut __states = __states.to_vec();
        __states.extend(__error_state);
        loop {
            let mut __states_len = __states.len();
            let __top = __states[__states_len - 1];
            let __action = match __opt_integer {
                None => __EOF_ACTION[__top as usize],
                Some(__integer) => __action(__top, __integer),
            };
            if __action == 0 { return false; }
            if __action > 0 { return true; }
            let (__to_pop, __nt) = match __simulate_reduce(-(__action + 1), core::marker::PhantomData::<()>) {
                __state_machine::SimulatedReduce::Reduce {
                    states_to_pop, nonterminal_produced
                } => (states_to_pop, nonterminal_produced),
                __state_machine::SimulatedReduce::Accept => return true,
            };
            __states_len -= __to_pop;
            __states.truncate(__states_len);
            let __top = __states[__states_len - 1];
            let __next_state = __goto(__top, __nt);
            __states.push(__next_state);
        }
    }
    fn __reduce<
    >(
        __action: i8,
        __lookahead_start: Option<&i64>,
        __states: &mut alloc::vec::Vec<i8>,
        __symbols: &mut alloc::vec::Vec<(i64,__Symbol<>,i64)>,
        _: core::marker::PhantomData<()>,
    ) -> Option<Result<Tree,__lalrpop_util::ParseError<i64, Tok, u64>>>
    {
        let (__pop_states, __nonterminal) = match __action {
            0 => {
                __reduce0(__lookahead_start, __symbols, core::marker::PhantomData::<()>)
            }
            1 => {
                __reduce1(__lookahead_start, __symbols, core::marker::PhantomData::<()>)
            }
            2 => {
                __reduce2(__lookahead_start, __symbols, core::marker::PhantomData::<()>)
            }
            3 => {
                __reduce3(__lookahead_start, __symbols, core::marker::PhantomData::<()>)
            }
            4 => {
                __reduce4(__lookahead_start, __symbols, core::marker::PhantomData::<()>)
            }
            5 => {
                __reduce5(__lookahead_start, __symbols, core::marker::PhantomData::<()>)
            }
            6 => {
                // __S = S => ActionFn(0);
                let __sym0 = __pop_Variant2(__symbols);
                let __start = __sym0.0.clone();
                let __end = __sym0.2.clone();
                let __nt = super::__action0::<>(__sym0);
                return Some(Ok(__nt));
            }
            _ => panic!("invalid action code {__action}")
        };
        let __states_len = __states.len();
        __states.truncate(__states_len - __pop_states);
        let __state = *__states.last().unwrap();
        let __next_state = __goto(__state, __nonterminal);
        __states.push(__next_state);
        None
    }
    #[inline(never)]
    fn __symbol_type_mismatch() -> ! {
        panic!("symbol type mismatch")
    }
    fn __pop_Variant0<
    >(
        __symbols: &mut alloc::vec::Vec<(i64,__Symbol<>,i64)>
    ) -> (i64, Tok, i64)
     {
        match __symbols.pop() {
            Some((__l, __Symbol::Variant0(__v), __r)) => (__l, __v, __r),
            _ => __symbol_type_mismatch()
        }
    }
    fn __pop_Variant2<
    >(
        __symbols: &mut alloc::vec::Vec<(i64,__Symbol<>,i64)>
    ) -> (i64, Tree, i64)
     {
        match __symbols.pop() {
            Some((__l, __Symbol::Variant2(__v), __r)) => (__l, __v, __r),
            _ => __symbol_type_mismatch()
        }
    }
    fn __pop_Variant1<
    >(
        __symbols: &mut alloc::vec::Vec<(i64,__Symbol<>,i64)>
    ) -> (i64, i64, i64)
     {
        match __symbols.pop() {
            Some((__l, __Symbol::Variant1(__v), __r)) => (__l, __v, __r),
            _ => __symbol_type_mismatch()
        }
    }
    fn __reduce0<
    >(
        __lookahead_start: Option<&i64>,
        __symbols: &mut alloc::vec::Vec<(i64,__Symbol<>,i64)>,
        _: core::marker::PhantomData<()>,
    ) -> (usize, usize)
    {
        // @L =  => ActionFn(6);
        let __start = __lookahead_start.cloned().or_else(|| __symbols.last().map(|s| s.2.clone())).unwrap_or_default();
        let __end = __start.clone();
        let __nt = super::__action6::<>(&__start, &__end);
        __symbols.push((__start, __Symbol::Variant1(__nt), __end));
        (0, 0)
    }
    fn __reduce1<
    >(
        __lookahead_start: Option<&i64>,
        __symbols: &mut alloc::vec::Vec<(i64,__Symbol<>,i64)>,
        _: core::marker::PhantomData<()>,
    ) -> (usize, usize)
    {
        // @R =  => ActionFn(5);
        let __start = __lookahead_start.cloned().or_else(|| __symbols.last().map(|s| s.2.clone())).unwrap_or_default();
        let __end = __start.clone();
        let __nt = super::__action5::<>(&__start, &__end);
        __symbols.push((__start, __Symbol::Variant1(__nt), __end));
        (0, 1)
    }
    fn __reduce2<
    >(
        __lookahead_start: Option<&i64>,
        __symbols: &mut alloc::vec::Vec<(i64,__Symbol<>,i64)>,
        _: core::marker::PhantomData<()>,
    ) -> (usize, usize)
    {
        // L =  => ActionFn(11);
        let __start = __lookahead_start.cloned().or_else(|| __symbols.last().map(|s| s.2.clone())).unwrap_or_default();
        let __end = __start.clone();
        let __nt = super::__action11::<>(&__start, &__end);
        __symbols.push((__start, __Symbol::Variant2(__nt), __end));
        (0, 2)
    }
    fn __reduce3<
    >(
        __lookahead_start: Option<&i64>,
        __symbols: &mut alloc::vec::Vec<(i64,__Symbol<>,i64)>,
        _: core::marker::PhantomData<()>,
    ) -> (usize, usize)
    {
        // L = L, "a" => ActionFn(12);
        assert!(__symbols.len() >= 2);
        let __sym1 = __pop_Variant0(__symbols);
        let __sym0 = __pop_Variant2(__symbols);
        let __start = __sym0.0.clone();
        let __end = __sym1.2.clone();
        let __nt = super::__action12::<>(__sym0, __sym1);
        __symbols.push((__start, __Symbol::Variant2(__nt), __end));
        (2, 2)
    }
    fn __reduce4<
    >(
        __lookahead_start: Option<&i64>,
        __symbols: &mut alloc::vec::Vec<(i64,__Symbol<>,i64)>,
        _: core::marker::PhantomData<()>,
    ) -> (usize, usize)
    {
        // L = L, "," => ActionFn(13);
        assert!(__symbols.len() >= 2);
        let __sym1 = __pop_Variant0(__symbols);
        let __sym0 = __pop_Variant2(__symbols);
        let __start = __sym0.0.clone();
        let __end = __sym1.2.clone();
        let __nt = super::__action13::<>(__sym0, __sym1);
        __symbols.push((__start, __Symbol::Variant2(__nt), __end));
        (2, 2)
    }
    fn __reduce5<
    >(
        __lookahead_start: Option<&i64>,
        __symbols: &mut alloc::vec::Vec<(i64,__Symbol<>,i64)>,
        _: core::marker::PhantomData<()>,
    ) -> (usize, usize)
    {
        // S = L, ";" => ActionFn(14);
        assert!(__symbols.len() >= 2);
        let __sym1 = __pop_Variant0(__symbols);
        let __sym0 = __pop_Variant2(__symbols);
        let __start = __sym0.0.clone();
        let __end = __sym1.2.clone();
        let __nt = super::__action14::<>(__sym0, __sym1);
        __symbols.push((__start, __Symbol::Variant2(__nt), __end));
        (2, 3)
    }
}
#[allow(unused_imports)]
pub use self::__parse__S::SParser;

#[allow(clippy::too_many_arguments, clippy::needless_lifetimes, clippy::just_underscores_and_digits, clippy::extra_unused_type_parameters)]
fn __action0<
>(
    (_, __0, _): (i64, Tree, i64),
) -> Tree
{
    __0
}

#[allow(clippy::too_many_arguments, clippy::needless_lifetimes, clippy::just_underscores_and_digits, clippy::extra_unused_type_parameters)]
fn __action1<
>(
    (_, l, _): (i64, i64, i64),
    (_, c0, _): (i64, Tree, i64),
    (_, c1, _): (i64, Tok, i64),
    (_, r, _): (i64, i64, i64),
) -> Tree
{
    node("S#0", l, r, vec![Tree::from(c0), Tree::from(c1)])
}

#[allow(clippy::too_many_arguments, clippy::needless_lifetimes, clippy::just_underscores_and_digits, clippy::extra_unused_type_parameters)]
fn __action2<
>(
    (_, l, _): (i64, i64, i64),
    (_, r, _): (i64, i64, i64),
) -> Tree
{
    node("L#0", l, r, vec![])
}

#[allow(clippy::too_many_arguments, clippy::needless_lifetimes, clippy::just_underscores_and_digits, clippy::extra_unused_type_parameters)]
fn __action3<
>(
    (_, l, _): (i64, i64, i64),
    (_, c0, _): (i64, Tree, i64),
    (_, c1, _): (i64, Tok, i64),
    (_, r, _): (i64, i64, i64),
) -> Tree
{
    node("L#1", l, r, vec![Tree::from(c0), Tree::from(c1)])
}

#[allow(clippy::too_many_arguments, clippy::needless_lifetimes, clippy::just_underscores_and_digits, clippy::extra_unused_type_parameters)]
fn __action4<
>(
    (_, l, _): (i64, i64, i64),
    (_, c0, _): (i64, Tree, i64),
    (_, c1, _): (i64, Tok, i64),
    (_, r, _): (i64, i64, i64),
) -> Tree
{
    node("L#2", l, r, vec![Tree::from(c0), Tree::from(c1)])
}

#[allow(clippy::needless_lifetimes, clippy::clone_on_copy)]
fn __action5<
>(
    __lookbehind: &i64,
    __lookahead: &i64,
) -> i64
{
    __lookbehind.clone()
}

#[allow(clippy::needless_lifetimes, clippy::clone_on_copy)]
fn __action6<
>(
    __lookbehind: &i64,
    __lookahead: &i64,
) -> i64
{
    __lookahead.clone()
}

#[allow(clippy::too_many_arguments, clippy::needless_lifetimes,
    clippy::just_underscores_and_digits, clippy::clone_on_copy, clippy::unit_arg)]
fn __action7<
>(
    __0: (i64, i64, i64),
) -> Tree
{
    let __start0 = __0.0.clone();
    let __end0 = __0.0.clone();
    let __temp0 = __action6(
        &__start0,
        &__end0,
    );
    let __temp0 = (__start0, __temp0, __end0);
    __action2(
        __temp0,
        __0,
    )
}

#[allow(clippy::too_many_arguments, clippy::needless_lifetimes,
    clippy::just_underscores_and_digits, clippy::clone_on_copy, clippy::unit_arg)]
fn __action8<
>(
    __0: (i64, Tree, i64),
    __1: (i64, Tok, i64),
    __2: (i64, i64, i64),
) -> Tree
{
    let __start0 = __0.0.clone();
    let __end0 = __0.0.clone();
    let __temp0 = __action6(
        &__start0,
        &__end0,
    );
    let __temp0 = (__start0, __temp0, __end0);
    __action3(
        __temp0,
        __0,
        __1,
        __2,
    )
}

#[allow(clippy::too_many_arguments, clippy::needless_lifetimes,
    clippy::just_underscores_and_digits, clippy::clone_on_copy, clippy::unit_arg)]
fn __action9<
>(
    __0: (i64, Tree, i64),
    __1: (i64, Tok, i64),
    __2: (i64, i64, i64),
) -> Tree
{
    let __start0 = __0.0.clone();
    let __end0 = __0.0.clone();
    let __temp0 = __action6(
        &__start0,
        &__end0,
    );
    let __temp0 = (__start0, __temp0, __end0);
    __action4(
        __temp0,
        __0,
        __1,
        __2,
    )
}

#[allow(clippy::too_many_arguments, clippy::needless_lifetimes,
    clippy::just_underscores_and_digits, clippy::clone_on_copy, clippy::unit_arg)]
fn __action10<
>(
    __0: (i64, Tree, i64),
    __1: (i64, Tok, i64),
    __2: (i64, i64, i64),
) -> Tree
{
    let __start0 = __0.0.clone();
    let __end0 = __0.0.clone();
    let __temp0 = __action6(
        &__start0,
        &__end0,
    );
    let __temp0 = (__start0, __temp0, __end0);
    __action1(
        __temp0,
        __0,
        __1,
        __2,
    )
}

#[allow(clippy::too_many_arguments, clippy::needless_lifetimes,
    clippy::just_underscores_and_digits, clippy::clone_on_copy, clippy::unit_arg)]
fn __action11<
>(
    __lookbehind: &i64,
    __lookahead: &i64,
) -> Tree
{
    let __start0 = __lookbehind.clone();
    let __end0 = __lookahead.clone();
    let __temp0 = __action5(
        &__start0,
        &__end0,
    );
    let __temp0 = (__start0, __temp0, __end0);
    __action7(
        __temp0,
    )
}

#[allow(clippy::too_many_arguments, clippy::needless_lifetimes,
    clippy::just_underscores_and_digits, clippy::clone_on_copy, clippy::unit_arg)]
fn __action12<
>(
    __0: (i64, Tree, i64),
    __1: (i64, Tok, i64),
) -> Tree
{
    let __start0 = __1.2.clone();
    let __end0 = __1.2.clone();
    let __temp0 = __action5(
        &__start0,
        &__end0,
    );
    let __temp0 = (__start0, __temp0, __end0);
    __action8(
        __0,
        __1,
        __temp0,
    )
}

#[allow(clippy::too_many_arguments, clippy::needless_lifetimes,
    clippy::just_underscores_and_digits, clippy::clone_on_copy, clippy::unit_arg)]
fn __action13<
>(
    __0: (i64, Tree, i64),
    __1: (i64, Tok, i64),
) -> Tree
{
    let __start0 = __1.2.clone();
    let __end0 = __1.2.clone();
    let __temp0 = __action5(
        &__start0,
        &__end0,
    );
    let __temp0 = (__start0, __temp0, __end0);
    __action9(
        __0,
        __1,
        __temp0,
    )
}

#[allow(clippy::too_many_arguments, clippy::needless_lifetimes,
    clippy::just_underscores_and_digits, clippy::clone_on_copy, clippy::unit_arg)]
fn __action14<
>(
    __0: (i64, Tree, i64),
    __1: (i64, Tok, i64),
) -> Tree
{
    let __start0 = __1.2.clone();
    let __end0 = __1.2.clone();
    let __temp0 = __action5(
        &__start0,
        &__end0,
    );
    let __temp0 = (__start0, __temp0, __end0);
    __action10(
        __0,
        __1,
        __temp0,
    )
}

#[allow(clippy::type_complexity, dead_code)]
pub trait __ToTriple<>
{
    fn to_triple(self) -> Result<(i64,Tok,i64), __lalrpop_util::ParseError<i64, Tok, u64>>;
}

impl<> __ToTriple<> for (i64, Tok, i64)
{
    fn to_triple(self) -> Result<(i64,Tok,i64), __lalrpop_util::ParseError<i64, Tok, u64>> {
        Ok(self)
    }
}
impl<> __ToTriple<> for Result<(i64, Tok, i64), u64>
{
    fn to_triple(self) -> Result<(i64,Tok,i64), __lalrpop_util::ParseError<i64, Tok, u64>> {
        self.map_err(|error| __lalrpop_util::ParseError::User { error })
    }
}
