#![allow(warnings)]
pub mod rt;
#[path = "gen/m0t.rs"] mod m0t;
#[path = "gen/m0a.rs"] mod m0a;
#[path = "gen/m1t.rs"] mod m1t;
#[path = "gen/m1a.rs"] mod m1a;
#[path = "gen/m2t.rs"] mod m2t;
#[path = "gen/m2a.rs"] mod m2a;

fn main() {
    use std::io::{BufRead, Write};
    std::panic::set_hook(Box::new(|_| {}));
    let stdin = std::io::stdin();
    let out = std::io::stdout();
    let mut out = out.lock();
    for line in stdin.lock().lines() {
        let line = line.unwrap();
        let mut f = line.splitn(4, '\t');
        let (m, p, items, orc) = (f.next().unwrap(), f.next().unwrap(), f.next().unwrap_or(""), f.next().unwrap_or(""));
        let r = match (m, p) {
        ("m0t", "S") => rt::run_case(items, orc, |it| m0t::SParser::new().parse(it)),
        ("m0a", "S") => rt::run_case(items, orc, |it| m0a::SParser::new().parse(it)),
        ("m1t", "S") => rt::run_case(items, orc, |it| m1t::SParser::new().parse(it)),
        ("m1a", "S") => rt::run_case(items, orc, |it| m1a::SParser::new().parse(it)),
        ("m2t", "S") => rt::run_case(items, orc, |it| m2t::SParser::new().parse(it)),
        ("m2a", "S") => rt::run_case(items, orc, |it| m2a::SParser::new().parse(it)),
            _ => "NOPARSER".to_string(),
        };
        writeln!(out, "{}", r).unwrap();
    }
}
