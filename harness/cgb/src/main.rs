#![allow(warnings)]
pub mod rt;
#[path = "gen/m0t.rs"] mod m0t;
#[path = "gen/m1t.rs"] mod m1t;
#[path = "gen/m2t.rs"] mod m2t;
#[path = "gen/m3t.rs"] mod m3t;
#[path = "gen/m4t.rs"] mod m4t;
#[path = "gen/m5t.rs"] mod m5t;
#[path = "gen/m6t.rs"] mod m6t;
#[path = "gen/m7t.rs"] mod m7t;
#[path = "gen/m8t.rs"] mod m8t;
#[path = "gen/m9t.rs"] mod m9t;
#[path = "gen/m10t.rs"] mod m10t;
#[path = "gen/m11t.rs"] mod m11t;
#[path = "gen/m12t.rs"] mod m12t;
#[path = "gen/m13t.rs"] mod m13t;
#[path = "gen/m14t.rs"] mod m14t;
#[path = "gen/m15t.rs"] mod m15t;
#[path = "gen/m16t.rs"] mod m16t;
#[path = "gen/m17t.rs"] mod m17t;
#[path = "gen/m18t.rs"] mod m18t;
#[path = "gen/m19t.rs"] mod m19t;
#[path = "gen/m20t.rs"] mod m20t;
#[path = "gen/m21t.rs"] mod m21t;
#[path = "gen/m22t.rs"] mod m22t;
#[path = "gen/m23t.rs"] mod m23t;

fn main() {
    use std::io::{BufRead, Write};
    std::panic::set_hook(Box::new(|_| {}));
    let stdin = std::io::stdin();
    let out = std::io::stdout();
    let mut out = out.lock();
    for line in stdin.lock().lines() {
        let line = line.unwrap();
        let mut f = line.splitn(4, '\t');
        let (m, p, items, orc) = (f.next().unwrap(), f.next().unwrap(), f.next().unwrap_or(""), f.next().unwrap_or(""));
        let r = match (m, p) {
        ("m0t", "E") => rt::run_case(items, orc, |it| m0t::EParser::new().parse(it)),
        ("m1t", "__symbols") => rt::run_case(items, orc, |it| m1t::__symbolsParser::new().parse(it)),
        ("m2t", "S") => rt::run_case(items, orc, |it| m2t::SParser::new().parse(it)),
        ("m3t", "____0") => rt::run_case(items, orc, |it| m3t::____0Parser::new().parse(it)),
        ("m4t", "S") => rt::run_case(items, orc, |it| m4t::SParser::new().parse(it)),
        ("m5t", "__nt") => rt::run_case(items, orc, |it| m5t::__ntParser::new().parse(it)),
        ("m6t", "S") => rt::run_case(items, orc, |it| m6t::SParser::new().parse(it)),
        ("m7t", "____x") => rt::run_case(items, orc, |it| m7t::____xParser::new().parse(it)),
        ("m8t", "S") => rt::run_case(items, orc, |it| m8t::SParser::new().parse(it)),
        ("m9t", "__sym1") => rt::run_case(items, orc, |it| m9t::__sym1Parser::new().parse(it)),
        ("m10t", "S") => rt::run_case(items, orc, |it| m10t::SParser::new().parse(it)),
        ("m11t", "__start") => rt::run_case(items, orc, |it| m11t::__startParser::new().parse(it)),
        ("m12t", "S") => rt::run_case(items, orc, |it| m12t::SParser::new().parse(it)),
        ("m13t", "__1") => rt::run_case(items, orc, |it| m13t::__1Parser::new().parse(it)),
        ("m14t", "P") => rt::run_case(items, orc, |it| m14t::PParser::new().parse(it)),
        ("m15t", "__Symbol") => rt::run_case(items, orc, |it| m15t::__SymbolParser::new().parse(it)),
        ("m16t", "S") => rt::run_case(items, orc, |it| m16t::SParser::new().parse(it)),
        ("m17t", "____x") => rt::run_case(items, orc, |it| m17t::____xParser::new().parse(it)),
        ("m18t", "S") => rt::run_case(items, orc, |it| m18t::SParser::new().parse(it)),
        ("m19t", "__simulate_reduce") => rt::run_case(items, orc, |it| m19t::__simulate_reduceParser::new().parse(it)),
        ("m20t", "S") => rt::run_case(items, orc, |it| m20t::SParser::new().parse(it)),
        ("m21t", "__start") => rt::run_case(items, orc, |it| m21t::__startParser::new().parse(it)),
        ("m22t", "A") => rt::run_case(items, orc, |it| m22t::AParser::new().parse(it)),
        ("m22t", "B") => rt::run_case(items, orc, |it| m22t::BParser::new().parse(it)),
        ("m23t", "__token_to_integer") => rt::run_case(items, orc, |it| m23t::__token_to_integerParser::new().parse(it)),
        ("m23t", "__token_to_integer1") => rt::run_case(items, orc, |it| m23t::__token_to_integer1Parser::new().parse(it)),
            _ => "NOPARSER".to_string(),
        };
        writeln!(out, "{}", r).unwrap();
    }
}
