#![allow(warnings)]
pub mod rt;
#[path = "gen/m0a.rs"] mod m0a;
#[path = "gen/m1a.rs"] mod m1a;
#[path = "gen/m2a.rs"] mod m2a;
#[path = "gen/m3a.rs"] mod m3a;
#[path = "gen/m4a.rs"] mod m4a;
#[path = "gen/m5a.rs"] mod m5a;
#[path = "gen/m6a.rs"] mod m6a;
#[path = "gen/m7a.rs"] mod m7a;
#[path = "gen/m8a.rs"] mod m8a;
#[path = "gen/m9a.rs"] mod m9a;
#[path = "gen/m10a.rs"] mod m10a;
#[path = "gen/m11a.rs"] mod m11a;
#[path = "gen/m12a.rs"] mod m12a;
#[path = "gen/m13a.rs"] mod m13a;
#[path = "gen/m14a.rs"] mod m14a;
#[path = "gen/m15a.rs"] mod m15a;
#[path = "gen/m16a.rs"] mod m16a;
#[path = "gen/m17a.rs"] mod m17a;
#[path = "gen/m18a.rs"] mod m18a;
#[path = "gen/m19a.rs"] mod m19a;

fn main() {
    use std::io::{BufRead, Write};
    std::panic::set_hook(Box::new(|_| {}));
    let stdin = std::io::stdin();
    let out = std::io::stdout();
    let mut out = out.lock();
    for line in stdin.lock().lines() {
        let line = line.unwrap();
        let mut f = line.splitn(4, '\t');
        let (m, p, items, orc) = (f.next().unwrap(), f.next().unwrap(), f.next().unwrap_or(""), f.next().unwrap_or(""));
        let r = match (m, p) {
        ("m0a", "S") => rt::run_case(items, orc, |it| m0a::SParser::new().parse(it)),
        ("m1a", "S") => rt::run_case(items, orc, |it| m1a::SParser::new().parse(it)),
        ("m2a", "S") => rt::run_case(items, orc, |it| m2a::SParser::new().parse(it)),
        ("m3a", "S") => rt::run_case(items, orc, |it| m3a::SParser::new().parse(it)),
        ("m4a", "S") => rt::run_case(items, orc, |it| m4a::SParser::new().parse(it)),
        ("m5a", "S") => rt::run_case(items, orc, |it| m5a::SParser::new().parse(it)),
        ("m6a", "S") => rt::run_case(items, orc, |it| m6a::SParser::new().parse(it)),
        ("m7a", "S") => rt::run_case(items, orc, |it| m7a::SParser::new().parse(it)),
        ("m8a", "S") => rt::run_case(items, orc, |it| m8a::SParser::new().parse(it)),
        ("m9a", "S") => rt::run_case(items, orc, |it| m9a::SParser::new().parse(it)),
        ("m10a", "S") => rt::run_case(items, orc, |it| m10a::SParser::new().parse(it)),
        ("m11a", "S") => rt::run_case(items, orc, |it| m11a::SParser::new().parse(it)),
        ("m12a", "S") => rt::run_case(items, orc, |it| m12a::SParser::new().parse(it)),
        ("m13a", "S") => rt::run_case(items, orc, |it| m13a::SParser::new().parse(it)),
        ("m14a", "S") => rt::run_case(items, orc, |it| m14a::SParser::new().parse(it)),
        ("m15a", "S") => rt::run_case(items, orc, |it| m15a::SParser::new().parse(it)),
        ("m16a", "E") => rt::run_case(items, orc, |it| m16a::EParser::new().parse(it)),
        ("m17a", "S") => rt::run_case(items, orc, |it| m17a::SParser::new().parse(it)),
        ("m18a", "S") => rt::run_case(items, orc, |it| m18a::SParser::new().parse(it)),
        ("m19a", "S") => rt::run_case(items, orc, |it| m19a::SParser::new().parse(it)),
            _ => "NOPARSER".to_string(),
        };
        writeln!(out, "{}", r).unwrap();
    }
}
