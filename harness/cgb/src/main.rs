#![allow(warnings)]
pub mod rt;
#[path = "gen/m0t.rs"] mod m0t;
#[path = "gen/m1t.rs"] mod m1t;
#[path = "gen/m2t.rs"] mod m2t;
#[path = "gen/m3t.rs"] mod m3t;
#[path = "gen/m4t.rs"] mod m4t;
#[path = "gen/m5t.rs"] mod m5t;
#[path = "gen/m6t.rs"] mod m6t;
#[path = "gen/m7t.rs"] mod m7t;
#[path = "gen/m8t.rs"] mod m8t;
#[path = "gen/m9t.rs"] mod m9t;
#[path = "gen/m10t.rs"] mod m10t;
#[path = "gen/m11t.rs"] mod m11t;
#[path = "gen/m12t.rs"] mod m12t;
#[path = "gen/m13t.rs"] mod m13t;

fn main() {
    use std::io::{BufRead, Write};
    std::panic::set_hook(Box::new(|_| {}));
    let stdin = std::io::stdin();
    let out = std::io::stdout();
    let mut out = out.lock();
    for line in stdin.lock().lines() {
        let line = line.unwrap();
        let mut f = line.splitn(4, '\t');
        let (m, p, items, orc) = (f.next().unwrap(), f.next().unwrap(), f.next().unwrap_or(""), f.next().unwrap_or(""));
        let r = match (m, p) {
        ("m0t", "E") => rt::run_case(items, orc, |it| m0t::EParser::new().parse(it)),
        ("m1t", "S") => rt::run_case(items, orc, |it| m1t::SParser::new().parse(it)),
        ("m2t", "S") => rt::run_case(items, orc, |it| m2t::SParser::new().parse(it)),
        ("m3t", "S") => rt::run_case(items, orc, |it| m3t::SParser::new().parse(it)),
        ("m4t", "S") => rt::run_case(items, orc, |it| m4t::SParser::new().parse(it)),
        ("m5t", "S") => rt::run_case(items, orc, |it| m5t::SParser::new().parse(it)),
        ("m6t", "S") => rt::run_case(items, orc, |it| m6t::SParser::new().parse(it)),
        ("m7t", "P") => rt::run_case(items, orc, |it| m7t::PParser::new().parse(it)),
        ("m8t", "S") => rt::run_case(items, orc, |it| m8t::SParser::new().parse(it)),
        ("m9t", "S") => rt::run_case(items, orc, |it| m9t::SParser::new().parse(it)),
        ("m10t", "S") => rt::run_case(items, orc, |it| m10t::SParser::new().parse(it)),
        ("m11t", "A") => rt::run_case(items, orc, |it| m11t::AParser::new().parse(it)),
        ("m11t", "B") => rt::run_case(items, orc, |it| m11t::BParser::new().parse(it)),
        ("m12t", "S") => rt::run_case(items, orc, |it| m12t::SParser::new().parse(it)),
        ("m13t", "S") => rt::run_case(items, orc, |it| m13t::SParser::new().parse(it)),
            _ => "NOPARSER".to_string(),
        };
        writeln!(out, "{}", r).unwrap();
    }
}
