#![allow(warnings)]
pub mod rt;
#[path = "gen/m0t.rs"] mod m0t;
#[path = "gen/m0a.rs"] mod m0a;
#[path = "gen/m1t.rs"] mod m1t;
#[path = "gen/m1a.rs"] mod m1a;
#[path = "gen/m2t.rs"] mod m2t;
#[path = "gen/m2a.rs"] mod m2a;
#[path = "gen/m3t.rs"] mod m3t;
#[path = "gen/m3a.rs"] mod m3a;
#[path = "gen/m4t.rs"] mod m4t;
#[path = "gen/m4a.rs"] mod m4a;
#[path = "gen/m5t.rs"] mod m5t;
#[path = "gen/m5a.rs"] mod m5a;
#[path = "gen/m6t.rs"] mod m6t;
#[path = "gen/m6a.rs"] mod m6a;
#[path = "gen/m7t.rs"] mod m7t;
#[path = "gen/m7a.rs"] mod m7a;
#[path = "gen/m8t.rs"] mod m8t;
#[path = "gen/m8a.rs"] mod m8a;
#[path = "gen/m9t.rs"] mod m9t;
#[path = "gen/m9a.rs"] mod m9a;
#[path = "gen/m10t.rs"] mod m10t;
#[path = "gen/m10a.rs"] mod m10a;
#[path = "gen/m11t.rs"] mod m11t;
#[path = "gen/m11a.rs"] mod m11a;
#[path = "gen/m12t.rs"] mod m12t;
#[path = "gen/m12a.rs"] mod m12a;
#[path = "gen/m13t.rs"] mod m13t;
#[path = "gen/m13a.rs"] mod m13a;
#[path = "gen/m14t.rs"] mod m14t;
#[path = "gen/m14a.rs"] mod m14a;
#[path = "gen/m15t.rs"] mod m15t;
#[path = "gen/m15a.rs"] mod m15a;
#[path = "gen/m17t.rs"] mod m17t;
#[path = "gen/m17a.rs"] mod m17a;
#[path = "gen/m21t.rs"] mod m21t;
#[path = "gen/m21a.rs"] mod m21a;
#[path = "gen/m25t.rs"] mod m25t;
#[path = "gen/m25a.rs"] mod m25a;
#[path = "gen/m26t.rs"] mod m26t;
#[path = "gen/m26a.rs"] mod m26a;
#[path = "gen/m31t.rs"] mod m31t;
#[path = "gen/m31a.rs"] mod m31a;

fn main() {
    use std::io::{BufRead, Write};
    std::panic::set_hook(Box::new(|_| {}));
    let stdin = std::io::stdin();
    let out = std::io::stdout();
    let mut out = out.lock();
    for line in stdin.lock().lines() {
        let line = line.unwrap();
        let mut f = line.splitn(4, '\t');
        let (m, p, items, orc) = (f.next().unwrap(), f.next().unwrap(), f.next().unwrap_or(""), f.next().unwrap_or(""));
        let r = match (m, p) {
        ("m0t", "E") => rt::run_case(items, orc, |it| m0t::EParser::new().parse(it)),
        ("m0a", "E") => rt::run_case(items, orc, |it| m0a::EParser::new().parse(it)),
        ("m1t", "S") => rt::run_case(items, orc, |it| m1t::SParser::new().parse(it)),
        ("m1a", "S") => rt::run_case(items, orc, |it| m1a::SParser::new().parse(it)),
        ("m2t", "S") => rt::run_case(items, orc, |it| m2t::SParser::new().parse(it)),
        ("m2a", "S") => rt::run_case(items, orc, |it| m2a::SParser::new().parse(it)),
        ("m3t", "S") => rt::run_case(items, orc, |it| m3t::SParser::new().parse(it)),
        ("m3a", "S") => rt::run_case(items, orc, |it| m3a::SParser::new().parse(it)),
        ("m4t", "S") => rt::run_case(items, orc, |it| m4t::SParser::new().parse(it)),
        ("m4a", "S") => rt::run_case(items, orc, |it| m4a::SParser::new().parse(it)),
        ("m5t", "S") => rt::run_case(items, orc, |it| m5t::SParser::new().parse(it)),
        ("m5a", "S") => rt::run_case(items, orc, |it| m5a::SParser::new().parse(it)),
        ("m6t", "S") => rt::run_case(items, orc, |it| m6t::SParser::new().parse(it)),
        ("m6a", "S") => rt::run_case(items, orc, |it| m6a::SParser::new().parse(it)),
        ("m7t", "P") => rt::run_case(items, orc, |it| m7t::PParser::new().parse(it)),
        ("m7a", "P") => rt::run_case(items, orc, |it| m7a::PParser::new().parse(it)),
        ("m8t", "S") => rt::run_case(items, orc, |it| m8t::SParser::new().parse(it)),
        ("m8a", "S") => rt::run_case(items, orc, |it| m8a::SParser::new().parse(it)),
        ("m9t", "S") => rt::run_case(items, orc, |it| m9t::SParser::new().parse(it)),
        ("m9a", "S") => rt::run_case(items, orc, |it| m9a::SParser::new().parse(it)),
        ("m10t", "S") => rt::run_case(items, orc, |it| m10t::SParser::new().parse(it)),
        ("m10a", "S") => rt::run_case(items, orc, |it| m10a::SParser::new().parse(it)),
        ("m11t", "A") => rt::run_case(items, orc, |it| m11t::AParser::new().parse(it)),
        ("m11t", "B") => rt::run_case(items, orc, |it| m11t::BParser::new().parse(it)),
        ("m11a", "A") => rt::run_case(items, orc, |it| m11a::AParser::new().parse(it)),
        ("m11a", "B") => rt::run_case(items, orc, |it| m11a::BParser::new().parse(it)),
        ("m12t", "S") => rt::run_case(items, orc, |it| m12t::SParser::new().parse(it)),
        ("m12a", "S") => rt::run_case(items, orc, |it| m12a::SParser::new().parse(it)),
        ("m13t", "S") => rt::run_case(items, orc, |it| m13t::SParser::new().parse(it)),
        ("m13a", "S") => rt::run_case(items, orc, |it| m13a::SParser::new().parse(it)),
        ("m14t", "S") => rt::run_case(items, orc, |it| m14t::SParser::new().parse(it)),
        ("m14a", "S") => rt::run_case(items, orc, |it| m14a::SParser::new().parse(it)),
        ("m15t", "S") => rt::run_case(items, orc, |it| m15t::SParser::new().parse(it)),
        ("m15a", "S") => rt::run_case(items, orc, |it| m15a::SParser::new().parse(it)),
        ("m17t", "N0") => rt::run_case(items, orc, |it| m17t::N0Parser::new().parse(it)),
        ("m17a", "N0") => rt::run_case(items, orc, |it| m17a::N0Parser::new().parse(it)),
        ("m21t", "N0") => rt::run_case(items, orc, |it| m21t::N0Parser::new().parse(it)),
        ("m21a", "N0") => rt::run_case(items, orc, |it| m21a::N0Parser::new().parse(it)),
        ("m25t", "N0") => rt::run_case(items, orc, |it| m25t::N0Parser::new().parse(it)),
        ("m25a", "N0") => rt::run_case(items, orc, |it| m25a::N0Parser::new().parse(it)),
        ("m26t", "N0") => rt::run_case(items, orc, |it| m26t::N0Parser::new().parse(it)),
        ("m26a", "N0") => rt::run_case(items, orc, |it| m26a::N0Parser::new().parse(it)),
        ("m31t", "N0") => rt::run_case(items, orc, |it| m31t::N0Parser::new().parse(it)),
        ("m31a", "N0") => rt::run_case(items, orc, |it| m31a::N0Parser::new().parse(it)),
            _ => "NOPARSER".to_string(),
        };
        writeln!(out, "{}", r).unwrap();
    }
}
