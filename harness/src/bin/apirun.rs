//! Drives the REAL lalrpop library API (Configuration::{process, process_dir, process_file,
//! process_current_dir, use_cargo_dir_conventions}) in the current directory.
//! args: <mode> [key=value ...]   mode = process | process_dir:<dir> | process_file:<file> | current_dir | cargo
//!   keys: in_dir=, out_dir=, force=1, rerun=1, features=a,b, comments=1, nowhitespace=1, report=1
//! prints "OK" or "ERR <message>"; rerun directives go to stdout as cargo prints them.
use lalrpop::Configuration;
use std::env;

fn main() {
    let args: Vec<String> = env::args().skip(1).collect();
    let mode = args[0].clone();
    let mut c = Configuration::new();
    c.log_quiet();
    for kv in &args[1..] {
        let (k, v) = kv.split_once('=').unwrap();
        match k {
            "in_dir" => { c.set_in_dir(v); }
            "out_dir" => { c.set_out_dir(v); }
            "force" => { c.force_build(v == "1"); }
            "rerun" => { c.emit_rerun_directives(v == "1"); }
            "features" => { c.set_features(v.split(',').filter(|s| !s.is_empty()).map(String::from)); }
            "comments" => { c.emit_comments(v == "1"); }
            "nowhitespace" => { c.emit_whitespace(v != "1"); }
            "report" => { c.emit_report(v == "1"); }
            _ => panic!("bad key {k}"),
        }
    }
    let r = std::panic::catch_unwind(std::panic::AssertUnwindSafe(|| {
        if mode == "process" {
            c.process()
        } else if mode == "current_dir" {
            c.process_current_dir()
        } else if mode == "cargo" {
            c.use_cargo_dir_conventions().process()
        } else if let Some(d) = mode.strip_prefix("process_dir:") {
            c.process_dir(d)
        } else if let Some(f) = mode.strip_prefix("process_file:") {
            c.process_file(f)
        } else {
            panic!("bad mode")
        }
    }));
    match r {
        Ok(Ok(())) => println!("OK"),
        Ok(Err(e)) => println!("ERR {}", e.to_string().replace('\n', " ")),
        Err(_) => println!("PANIC"),
    }
}
