//! Runs the REAL lalrpop_util::ParseError helpers on cases read from stdin.
//! Line: <op>\t<variant>\t<fields...>; output: one canonical line per case.
use lalrpop_util::ParseError;
use std::io::{self, BufRead, Write};
use vharness::{hex, unhex};

type PE = ParseError<i64, String, String>;

fn parse_case(f: &[&str]) -> PE {
    match f[0] {
        "I" => PE::InvalidToken { location: f[1].parse().unwrap() },
        "E" => {
            let n: usize = f[2].parse().unwrap();
            PE::UnrecognizedEof {
                location: f[1].parse().unwrap(),
                expected: (0..n).map(|i| unhex(f[3 + i])).collect(),
            }
        }
        "T" => {
            let n: usize = f[4].parse().unwrap();
            PE::UnrecognizedToken {
                token: (f[1].parse().unwrap(), unhex(f[2]), f[3].parse().unwrap()),
                expected: (0..n).map(|i| unhex(f[5 + i])).collect(),
            }
        }
        "X" => PE::ExtraToken { token: (f[1].parse().unwrap(), unhex(f[2]), f[3].parse().unwrap()) },
        "U" => PE::User { error: unhex(f[1]) },
        v => panic!("bad variant {v}"),
    }
}

fn render(e: &PE) -> String {
    let ex = |v: &Vec<String>| v.iter().map(|s| hex(s)).collect::<Vec<_>>().join(",");
    match e {
        PE::InvalidToken { location } => format!("I {location}"),
        PE::UnrecognizedEof { location, expected } => format!("E {location} [{}]", ex(expected)),
        PE::UnrecognizedToken { token, expected } => {
            format!("T {} {} {} [{}]", token.0, hex(&token.1), token.2, ex(expected))
        }
        PE::ExtraToken { token } => format!("X {} {} {}", token.0, hex(&token.1), token.2),
        PE::User { error } => format!("U {}", hex(error)),
    }
}

fn main() {
    let stdin = io::stdin();
    let out = io::stdout();
    let mut out = out.lock();
    for line in stdin.lock().lines() {
        let line = line.unwrap();
        if line.is_empty() {
            continue;
        }
        let f: Vec<&str> = line.split('\t').collect();
        let op = f[0];
        let e = parse_case(&f[1..]);
        let res = match op {
            // FnMut closure with observable state: logs its argument, returns 7*l + 1
            "maploc" => {
                let mut calls: Vec<i64> = vec![];
                let r = e.map_location(|l| {
                    calls.push(l);
                    7 * l + 1
                });
                format!("{} | calls={:?}", render(&r), calls)
            }
            "maptok" => render(&e.map_token(|t| format!("<{t}>"))),
            "maperr" => render(&e.map_error(|x| format!("{x}!"))),
            "display" => hex(&format!("{e}")),
            "from" => match e {
                PE::User { error } => render(&PE::from(error)),
                _ => "skip".to_string(),
            },
            o => panic!("bad op {o}"),
        };
        writeln!(out, "{res}").unwrap();
    }
}
