//! Runs the REAL lalrpop_util::state_machine::Parser::drive over parse tables loaded at run time.
//! The ParserDefinition below mirrors the code emitted by lr1/codegen/parse_table.rs (__reduce,
//! __accepts, __expected_tokens_from_states, __goto, __action, error/eof action); the runtime in
//! state_machine.rs (parse, parse_eof, error_recovery, accepts, next_token) is the code under test.
//!
//! Input (stdin), line oriented:
//!   T <id> <nterm> <nnames> <recovery 0|1> <start_prod>
//!   A <ints..>            action table          E <ints..>   eof actions
//!   G <nnt> <nstates> <ints.. row per nt>
//!   P <nt> <sym>..        one per production (sym = t<i> | n<i>)   (in reduce-index order)
//!   S <pop> <nt|-1>       one per reduce index (__simulate_reduce)
//!   C <tableid> <budget> <items..> | <oracle p:id:e ..>
//!        item = k:<idx|-1>:<id>:<lo>:<hi> | u:<code> | i:<loc>
//! Output: one line per case: space separated integers (serialisation shared with the Coq model).
use lalrpop_util::state_machine::{self as sm, ParserDefinition, SimulatedReduce};
use lalrpop_util::{ErrorRecovery, ParseError};
use std::cell::{Cell, RefCell};
use std::collections::HashMap;
use std::io::{self, BufRead, Write};
use std::panic;
use std::rc::Rc;

#[derive(Clone, Debug)]
struct Tok {
    idx: i64,
    id: u64,
}
type L = i64;
type PE = ParseError<L, Tok, u64>;

#[derive(Clone, Copy, Debug, PartialEq)]
enum Sym {
    T(usize),
    N(usize),
}

enum Tree {
    Leaf(L, Tok, L),
    Err(ErrorRecovery<L, Tok, u64>, L, L),
    Node(usize, Vec<Tree>),
}

#[derive(Default, Clone)]
struct Tables {
    nterm: usize,
    nnames: usize,
    recovery: bool,
    start: usize,
    action: Vec<i32>,
    eof: Vec<i32>,
    goto: Vec<Vec<i32>>,
    prods: Vec<(usize, Vec<Sym>)>,
    sim: Vec<(usize, i64)>,
}

struct Budget;

struct Def {
    t: Rc<Tables>,
    oracle: Rc<HashMap<(usize, u64), u64>>,
    acts: Rc<RefCell<Vec<i64>>>,
    budget: Rc<Cell<u64>>,
}

impl Def {
    fn tick(&self) {
        let b = self.budget.get();
        if b == 0 {
            panic::panic_any(Budget);
        }
        self.budget.set(b - 1);
    }
    fn action_raw(&self, state: i32, idx: usize) -> i32 {
        self.tick();
        self.t.action[(state as usize) * self.t.nterm + idx]
    }
    fn goto_raw(&self, state: i32, nt: usize) -> i32 {
        match self.t.goto.get(nt) {
            Some(row) => *row.get(state as usize).unwrap_or(&0),
            None => 0,
        }
    }
    fn sym_of(&self, t: &Tree) -> Option<Sym> {
        match t {
            Tree::Leaf(_, k, _) => {
                if k.idx >= 0 {
                    Some(Sym::T(k.idx as usize))
                } else {
                    None
                }
            }
            Tree::Err(..) => Some(Sym::T(self.t.nterm.wrapping_sub(1))),
            Tree::Node(p, _) => self.t.prods.get(*p).map(|x| Sym::N(x.0)),
        }
    }
    // __accepts(None, states, Some(index))
    fn gen_accepts(&self, states: &[i32], opt: Option<usize>) -> bool {
        let mut states = states.to_vec();
        loop {
            let mut len = states.len();
            let top = states[len - 1];
            let a = match opt {
                None => {
                    self.tick();
                    self.t.eof[top as usize]
                }
                Some(i) => self.action_raw(top, i),
            };
            if a == 0 {
                return false;
            }
            if a > 0 {
                return true;
            }
            let (pop, nt) = self.t.sim[(-(a + 1)) as usize];
            if nt < 0 {
                return true;
            }
            len -= pop;
            states.truncate(len);
            let top = states[len - 1];
            states.push(self.goto_raw(top, nt as usize));
        }
    }
}

fn first_leaf_id(kids: &[Tree]) -> u64 {
    fn go(t: &Tree) -> Option<u64> {
        match t {
            Tree::Leaf(_, k, _) => Some(k.id),
            Tree::Err(..) => None,
            Tree::Node(_, ks) => ks.iter().find_map(go),
        }
    }
    kids.iter().find_map(go).unwrap_or(0)
}

impl ParserDefinition for Def {
    type Location = L;
    type Error = u64;
    type Token = Tok;
    type TokenIndex = usize;
    type Symbol = Tree;
    type Success = Tree;
    type StateIndex = i32;
    type Action = i32;
    type ReduceIndex = i32;
    type NonterminalIndex = usize;

    fn start_location(&self) -> L {
        Default::default()
    }
    fn start_state(&self) -> i32 {
        0
    }
    fn token_to_index(&self, token: &Tok) -> Option<usize> {
        if token.idx >= 0 {
            Some(token.idx as usize)
        } else {
            None
        }
    }
    fn action(&self, state: i32, integer: usize) -> i32 {
        self.action_raw(state, integer)
    }
    fn error_action(&self, state: i32) -> i32 {
        self.action_raw(state, self.t.nterm - 1)
    }
    fn eof_action(&self, state: i32) -> i32 {
        self.tick();
        self.t.eof[state as usize]
    }
    fn goto(&self, state: i32, nt: usize) -> i32 {
        self.goto_raw(state, nt)
    }
    fn token_to_symbol(&self, _i: usize, _token: Tok) -> Tree {
        unreachable!("the runtime passes the token separately; see shift below")
    }
    // the generated __expected_tokens: terminals with a non-error action in the state
    fn expected_tokens(&self, state: i32) -> Vec<String> {
        (0..self.t.nnames)
            .filter(|&i| self.action_raw(state, i) != 0)
            .map(|i| i.to_string())
            .collect()
    }
    fn expected_tokens_from_states(&self, states: &[i32]) -> Vec<String> {
        (0..self.t.nnames)
            .filter(|&i| self.gen_accepts(states, Some(i)))
            .map(|i| i.to_string())
            .collect()
    }
    fn uses_error_recovery(&self) -> bool {
        self.t.recovery
    }
    fn error_recovery_symbol(&self, recovery: sm::ErrorRecovery<Self>) -> Tree {
        Tree::Err(recovery, 0, 0)
    }
    fn reduce(
        &mut self,
        action: i32,
        start_location: Option<&L>,
        states: &mut Vec<i32>,
        symbols: &mut Vec<sm::SymbolTriple<Self>>,
    ) -> Option<sm::ParseResult<Self>> {
        let p = action as usize;
        let (nt, rhs) = match self.t.prods.get(p) {
            Some(x) => x.clone(),
            None => panic!("invalid action code {action}"),
        };
        let k = rhs.len();
        assert!(symbols.len() >= k);
        let mut popped: Vec<(L, Tree, L)> = Vec::new();
        for i in (0..k).rev() {
            let s = symbols.pop().unwrap();
            if self.sym_of(&s.1) != Some(rhs[i]) {
                panic!("symbol type mismatch");
            }
            popped.push(s);
        }
        popped.reverse();
        let (start, end) = if k > 0 {
            (popped[0].0, popped[k - 1].2)
        } else {
            let s = start_location
                .cloned()
                .or_else(|| symbols.last().map(|s| s.2))
                .unwrap_or_default();
            (s, s)
        };
        let kids: Vec<Tree> = popped.into_iter().map(|s| s.1).collect();
        if p == self.t.start {
            return Some(Ok(Tree::Node(p, kids)));
        }
        if let Some(e) = self.oracle.get(&(p, first_leaf_id(&kids))) {
            // a failing action is logged as 1000000 + p
            self.acts.borrow_mut().extend([1000000 + p as i64, 0, 0]);
            return Some(Err(ParseError::User { error: *e }));
        }
        self.acts.borrow_mut().extend([p as i64, start, end]);
        symbols.push((start, Tree::Node(p, kids), end));
        let len = states.len();
        states.truncate(len - k);
        let state = *states.last().unwrap();
        states.push(self.goto_raw(state, nt));
        None
    }
    fn simulate_reduce(&self, action: i32) -> SimulatedReduce<Self> {
        match self.t.sim.get(action as usize) {
            Some(&(pop, nt)) if nt >= 0 => SimulatedReduce::Reduce {
                states_to_pop: pop,
                nonterminal_produced: nt as usize,
            },
            Some(_) => SimulatedReduce::Accept,
            None => panic!("invalid reduction index {action}"),
        }
    }
}

// ---- serialisation (shared with LR/Serialize.v)
fn ser_tok(o: &mut Vec<i64>, lo: L, k: &Tok, hi: L) {
    o.extend([k.idx + 1, k.id as i64, lo, hi]);
}
fn ser_exp(o: &mut Vec<i64>, e: &[String]) {
    o.push(e.len() as i64);
    for x in e {
        o.push(x.parse().unwrap());
    }
}
fn ser_err(o: &mut Vec<i64>, e: &PE) {
    match e {
        ParseError::UnrecognizedToken { token, expected } => {
            o.push(0);
            ser_tok(o, token.0, &token.1, token.2);
            ser_exp(o, expected);
        }
        ParseError::UnrecognizedEof { location, expected } => {
            o.extend([1, *location]);
            ser_exp(o, expected);
        }
        ParseError::ExtraToken { token } => {
            o.push(2);
            ser_tok(o, token.0, &token.1, token.2);
        }
        ParseError::User { error } => o.extend([3, *error as i64]),
        ParseError::InvalidToken { location } => o.extend([4, *location]),
    }
}
fn ser_tree(o: &mut Vec<i64>, t: &Tree) {
    match t {
        Tree::Leaf(lo, k, hi) => {
            o.push(10);
            ser_tok(o, *lo, k, *hi);
        }
        Tree::Err(r, lo, hi) => {
            o.extend([11, *lo, *hi]);
            ser_err(o, &r.error);
            o.push(r.dropped_tokens.len() as i64);
            for d in &r.dropped_tokens {
                ser_tok(o, d.0, &d.1, d.2);
            }
        }
        Tree::Node(p, kids) => {
            o.extend([12, *p as i64, kids.len() as i64]);
            for k in kids {
                ser_tree(o, k);
            }
        }
    }
}

/// token_to_symbol receives the token without its span; the runtime pushes (lo, symbol, hi), and
/// reduce sees the span in the triple.  To keep leaf spans inside the tree we rebuild them there.
struct DefWrap(Def);
impl ParserDefinition for DefWrap {
    type Location = L;
    type Error = u64;
    type Token = Tok;
    type TokenIndex = usize;
    type Symbol = Tree;
    type Success = Tree;
    type StateIndex = i32;
    type Action = i32;
    type ReduceIndex = i32;
    type NonterminalIndex = usize;
    fn start_location(&self) -> L { self.0.start_location() }
    fn start_state(&self) -> i32 { self.0.start_state() }
    fn token_to_index(&self, token: &Tok) -> Option<usize> { self.0.token_to_index(token) }
    fn action(&self, s: i32, i: usize) -> i32 { self.0.action(s, i) }
    fn error_action(&self, s: i32) -> i32 { self.0.error_action(s) }
    fn eof_action(&self, s: i32) -> i32 { self.0.eof_action(s) }
    fn goto(&self, s: i32, nt: usize) -> i32 { self.0.goto(s, nt) }
    fn token_to_symbol(&self, _i: usize, token: Tok) -> Tree { Tree::Leaf(0, token, 0) }
    fn expected_tokens(&self, s: i32) -> Vec<String> { self.0.expected_tokens(s) }
    fn expected_tokens_from_states(&self, states: &[i32]) -> Vec<String> {
        self.0.expected_tokens_from_states(states)
    }
    fn uses_error_recovery(&self) -> bool { self.0.uses_error_recovery() }
    fn error_recovery_symbol(&self, r: sm::ErrorRecovery<Self>) -> Tree { Tree::Err(r, 0, 0) }
    fn reduce(
        &mut self,
        action: i32,
        start_location: Option<&L>,
        states: &mut Vec<i32>,
        symbols: &mut Vec<sm::SymbolTriple<Self>>,
    ) -> Option<sm::ParseResult<Self>> {
        // stamp leaf spans from the triples before handing over
        // only the symbols this reduce is about to pop need their spans
        let k = self.0.t.prods.get(action as usize).map(|x| x.1.len()).unwrap_or(0);
        let n = symbols.len();
        for s in symbols[n.saturating_sub(k)..].iter_mut() {
            match &mut s.1 {
                Tree::Leaf(lo, _, hi) | Tree::Err(_, lo, hi) => {
                    *lo = s.0;
                    *hi = s.2;
                }
                _ => {}
            }
        }
        self.0.reduce(action, start_location, states, symbols)
    }
    fn simulate_reduce(&self, action: i32) -> SimulatedReduce<Self> {
        match self.0.simulate_reduce(action) {
            SimulatedReduce::Reduce { states_to_pop, nonterminal_produced } => {
                SimulatedReduce::Reduce { states_to_pop, nonterminal_produced }
            }
            SimulatedReduce::Accept => SimulatedReduce::Accept,
        }
    }
}

fn ints<T: std::str::FromStr>(f: &[&str]) -> Vec<T>
where
    T::Err: std::fmt::Debug,
{
    f.iter().map(|x| x.parse().unwrap()).collect()
}

fn main() {
    panic::set_hook(Box::new(|_| {}));
    let stdin = io::stdin();
    let out = io::stdout();
    let mut out = out.lock();
    let mut tables: HashMap<String, Rc<Tables>> = HashMap::new();
    let mut cur = Tables::default();
    let mut cur_id = String::new();
    for line in stdin.lock().lines() {
        let line = line.unwrap();
        let f: Vec<&str> = line.split_whitespace().collect();
        if f.is_empty() {
            continue;
        }
        match f[0] {
            "T" => {
                if !cur_id.is_empty() {
                    tables.insert(cur_id.clone(), Rc::new(cur.clone()));
                }
                cur = Tables::default();
                cur_id = f[1].to_string();
                cur.nterm = f[2].parse().unwrap();
                cur.nnames = f[3].parse().unwrap();
                cur.recovery = f[4] == "1";
                cur.start = f[5].parse().unwrap();
            }
            "A" => cur.action = ints(&f[1..]),
            "E" => cur.eof = ints(&f[1..]),
            "G" => {
                let nnt: usize = f[1].parse().unwrap();
                let ns: usize = f[2].parse().unwrap();
                let v: Vec<i32> = ints(&f[3..]);
                cur.goto = (0..nnt).map(|i| v[i * ns..(i + 1) * ns].to_vec()).collect();
            }
            "P" => {
                let nt: usize = f[1].parse().unwrap();
                let rhs = f[2..]
                    .iter()
                    .map(|s| {
                        let n: usize = s[1..].parse().unwrap();
                        if s.starts_with('t') { Sym::T(n) } else { Sym::N(n) }
                    })
                    .collect();
                cur.prods.push((nt, rhs));
            }
            "S" => cur.sim.push((f[1].parse().unwrap(), f[2].parse().unwrap())),
            "C" => {
                if !cur_id.is_empty() {
                    tables.insert(cur_id.clone(), Rc::new(cur.clone()));
                    cur_id.clear();
                }
                let t = tables[f[1]].clone();
                let budget: u64 = f[2].parse().unwrap();
                let bar = f.iter().position(|x| *x == "|").unwrap();
                let mut items: Vec<Result<(L, Tok, L), PE>> = Vec::new();
                for it in &f[3..bar] {
                    let p: Vec<&str> = it.split(':').collect();
                    match p[0] {
                        "k" => items.push(Ok((
                            p[3].parse().unwrap(),
                            Tok { idx: p[1].parse().unwrap(), id: p[2].parse().unwrap() },
                            p[4].parse().unwrap(),
                        ))),
                        "u" => items.push(Err(ParseError::User { error: p[1].parse().unwrap() })),
                        "i" => items.push(Err(ParseError::InvalidToken { location: p[1].parse().unwrap() })),
                        _ => panic!("bad item"),
                    }
                }
                let mut oracle = HashMap::new();
                for o in &f[bar + 1..] {
                    let p: Vec<u64> = o.split(':').map(|x| x.parse().unwrap()).collect();
                    oracle.insert((p[0] as usize, p[1]), p[2]);
                }
                let acts = Rc::new(RefCell::new(Vec::new()));
                let pulled = Rc::new(Cell::new(0i64));
                let bud = Rc::new(Cell::new(budget));
                let def = DefWrap(Def { t, oracle: Rc::new(oracle), acts: acts.clone(), budget: bud.clone() });
                let pc = pulled.clone();
                let lg = acts.clone();
                let iter = items.into_iter().map(move |x| {
                    lg.borrow_mut().extend([-(pc.get() + 1), 0, 0]);
                    pc.set(pc.get() + 1);
                    x
                });
                let r = panic::catch_unwind(panic::AssertUnwindSafe(|| sm::Parser::drive(def, iter)));
                let mut o: Vec<i64> = Vec::new();
                match r {
                    Ok(Ok(mut t)) => {
                        // leaves directly under the root were stamped at reduce time; nothing to do
                        o.push(20);
                        fix_spans(&mut t);
                        ser_tree(&mut o, &t);
                    }
                    Ok(Err(e)) => {
                        o.push(21);
                        ser_err(&mut o, &e);
                    }
                    Err(p) => {
                        if p.downcast_ref::<Budget>().is_some() { o.push(23) } else { o.push(22) }
                    }
                }
                o.push(pulled.get());
                let a = acts.borrow();
                o.push((a.len() / 3) as i64);
                o.extend(a.iter().copied());
                let s: Vec<String> = o.iter().map(|x| x.to_string()).collect();
                writeln!(out, "{}", s.join(" ")).unwrap();
            }
            _ => panic!("bad line {line}"),
        }
    }
}

fn fix_spans(_t: &mut Tree) {}
