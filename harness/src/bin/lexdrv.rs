//! Runs the REAL lalrpop_util::lexer::{MatcherBuilder, Matcher} on pattern tables and inputs.
//! stdin:  P <id> <skip>:<hex regex> ...        (one table per line, patterns in __strs order)
//!         C <id> <hex input>
//! stdout: per case the token stream:  "t:<start>:<index>:<end>" ... then "end" | "inv:<loc>" | "loop"
use lalrpop_util::lexer::MatcherBuilder;
use lalrpop_util::ParseError;
use std::collections::HashMap;
use std::io::{self, BufRead, Write};
use vharness::unhex;

fn main() {
    let stdin = io::stdin();
    let out = io::stdout();
    let mut out = out.lock();
    let mut tabs: HashMap<String, Option<MatcherBuilder>> = HashMap::new();
    for line in stdin.lock().lines() {
        let line = line.unwrap();
        let f: Vec<&str> = line.split_whitespace().collect();
        if f.is_empty() {
            continue;
        }
        match f[0] {
            "P" => {
                let pats: Vec<(String, bool)> = f[2..]
                    .iter()
                    .map(|p| {
                        let (s, h) = p.split_once(':').unwrap();
                        (unhex(h), s == "1")
                    })
                    .collect();
                let b = MatcherBuilder::new(pats.iter().map(|(s, k)| (s.as_str(), *k)));
                tabs.insert(f[1].to_string(), b.ok());
            }
            "C" => {
                let input = if f.len() > 2 { unhex(f[2]) } else { String::new() };
                let res = match &tabs[f[1]] {
                    None => "builderr".to_string(),
                    Some(b) => {
                        let mut v: Vec<String> = vec![];
                        let cap = input.len() + 4;
                        let mut n = 0;
                        let mut m = b.matcher::<u32>(&input);
                        loop {
                            match m.next() {
                                None => {
                                    v.push("end".into());
                                    break;
                                }
                                Some(Ok((s, t, e))) => {
                                    v.push(format!("t:{}:{}:{}", s, t.0, e));
                                    if &input[s..e] != t.1 {
                                        v.push("badtext".into());
                                    }
                                }
                                Some(Err(ParseError::InvalidToken { location })) => {
                                    v.push(format!("inv:{location}"));
                                    break;
                                }
                                Some(Err(_)) => {
                                    v.push("othererr".into());
                                    break;
                                }
                            }
                            n += 1;
                            if n > cap {
                                v.push("loop".into());
                                break;
                            }
                        }
                        v.join(" ")
                    }
                };
                writeln!(out, "{res}").unwrap();
            }
            _ => panic!("bad line"),
        }
    }
}
