//! Shared helpers for the verification harness binaries (line protocol, hex strings).
pub fn hex(s: &str) -> String {
    let mut o = String::from("h");
    for b in s.as_bytes() {
        o.push_str(&format!("{:02x}", b));
    }
    o
}
pub fn unhex(s: &str) -> String {
    let s = &s[1..];
    let bytes: Vec<u8> = (0..s.len() / 2)
        .map(|i| u8::from_str_radix(&s[2 * i..2 * i + 2], 16).unwrap())
        .collect();
    String::from_utf8(bytes).unwrap()
}
