"""C01 — generated parsers accept exactly the language of the start symbol (table-driven back end
through the real driver on translated tables; recursive ascent via the compiled-parser tier)."""
import time
import vlib, gram, lrengine, lrcheck

PROP = "C01"


def make_judge(c):
    def judge(case, d):
        tid, items, orc, meta = case
        e = c.ok[int(tid[1:])]
        g = e["g"]
        w = lrcheck.words_of(items, e["t"])
        member = g.accepts(e["start"], w)
        if d["kind"] in ("panic", "budget"):
            return None  # C08's business
        if member and d["kind"] != "ok":
            return ("sentence-rejected", "the input is derivable from %s but parse returned an error" % e["start"])
        if member and d["kind"] == "ok" and lrcheck.leaves(d["tree"]) != [
                {"idx": it[1], "id": it[2], "lo": it[3], "hi": it[4]} for it in items]:
            return ("sentence-tree-mismatch", "Ok was returned but the tree's leaves are not the input tokens")
        if not member and d["kind"] == "ok" and not g.recovery:
            return ("non-sentence-accepted", "the input is not derivable from %s but parse returned Ok" % e["start"])
        return None
    return judge


def run(tier):
    t0 = time.time()
    rep = vlib.Reporter(PROP)
    nobl, ndis, names = vlib.proof_obligations(PROP, rep)
    r = vlib.rng(1)
    gs = gram.corpus()
    nrand = 12 if tier == "quick" else 150
    gs += [gram.random_grammar(r, i, recovery=(i % 5 == 0)) for i in range(nrand)]
    gs += [gram.nonlalr_family(r, i) for i in range(4 if tier == "quick" else 40)]
    gs += [gram.nonlalr_matrix(r, i) for i in range(40 if tier == "quick" else 400)]
    c = lrcheck.prepare(gs)
    cobl, cdis, failing = lrcheck.certify(PROP, rep, c, parts=("shape", "complete", "exact", "start_eof_only"), name="c01cert")
    per = 10 if tier == "quick" else 30
    cases = []
    for e in c.ok:
        g = e["g"]
        if e["start"] not in g.min_height():
            continue
        for w in lrcheck.gen_words(g, e["start"], r, per):
            cases.append((e["tid"], lrengine.tok_items(g, e["t"], w, r), [], {}))
    dec, nbad = lrcheck.correspond(PROP, rep, c, cases, make_judge(c), "c01")
    lrcheck.report_cert_failures(PROP, rep, c, failing, bool(rep.viol), make_judge(c), r)
    kinds = {}
    for d in dec:
        kinds[d["kind"]] = kinds.get(d["kind"], 0) + 1
    modes = {}
    for e in c.ok:
        modes[e["mode"]] = modes.get(e["mode"], 0) + 1
    distinct = len({(x[0], tuple(i[1] for i in x[1])) for x in cases if len(x[1]) > 0})
    cov = {"obligations": nobl + cobl + len(cases), "discharged": ndis + cdis + len(cases) - nbad,
           "checker_cmd": "make -C coq; coqc Props/C01.v; coqc .cache/cases/c01cert/*.v (vm_compute validator); coqc .cache/cases/c01/*.v (vm_compute chk)",
           "trusted_base": vlib.TRUSTED_COMMON + ["tools/lrtab.py (reads emitted tables)", "harness/src/bin/drv.rs", "tools/gram.py Earley oracle (judge only)"],
           "theorems": names, "certificates": {"checked": cobl, "valid": cdis},
           "evaluations": len(cases), "distinct_nontrivial": distinct,
           "rule": "corpus + random grammars x {lane, lr1, lalr}; per table sentences, 1-2 step mutations, random strings; membership "
                   "judged by an independent Earley recogniser; non-trivial = non-empty input, distinct by (table, terminal string)",
           "distribution": {"tables_by_mode": modes, "results": kinds, "grammars_rejected_by_lalrpop": len(c.other)},
           "samples": [dict(lrcheck.case_desc(c, x), implementation=d) for x, d in list(zip(cases, dec))[:2]]}
    for s in cov["samples"]:
        s.pop("grammar_text", None)
    vlib.write_evidence(PROP, tier, "proof", cov, time.time() - t0, violations=len(rep.viol),
                        assumptions=["grammar read back from the production comments of the generated file (tools/lrtab.py)",
                                     "recursive-ascent back end: compiled-parser tier only"])
    return rep.finish()


def replay(path):
    import json
    print(json.dumps(json.load(open(path)), indent=1)[:3000]); return run("quick")
