"""C28 — ParseError helpers: theorems (Props/C28.v) + correspondence of the Gallina model with the
real lalrpop_util::ParseError on exhaustive small domains and random values."""
import itertools, time
import vlib
from vlib import coq_string, coq_list

PROP = "C28"
HEADER = """From Coq Require Import List String ZArith Bool DecimalString.
From LV Require Import Rt.ParseError.
Import ListNotations.
Local Open Scope string_scope.
Definition bch (n : nat) : string := String (Ascii.ascii_of_nat n) EmptyString.
Definition showZ (z : Z) : string := NilZero.string_of_int (Z.to_int z).
Definition leqb {A} (eqb : A -> A -> bool) := fix go (a b : list A) : bool :=
  match a, b with [] , [] => true | x :: a', y :: b' => eqb x y && go a' b' | _, _ => false end.
Definition pe := perr Z string string.
Definition pe_eqb (a b : pe) : bool :=
  match a, b with
  | InvalidToken l, InvalidToken l' => Z.eqb l l'
  | UnrecognizedEof l e, UnrecognizedEof l' e' => Z.eqb l l' && leqb String.eqb e e'
  | UnrecognizedToken s t e x, UnrecognizedToken s' t' e' x' =>
      Z.eqb s s' && String.eqb t t' && Z.eqb e e' && leqb String.eqb x x'
  | ExtraToken s t e, ExtraToken s' t' e' => Z.eqb s s' && String.eqb t t' && Z.eqb e e'
  | User e, User e' => String.eqb e e'
  | _, _ => false
  end.
(* the harness closure: pure result 7*l+1, and it logs its argument (FnMut state) *)
Definition op (st : list Z) (l : Z) : Z * list Z := ((7 * l + 1)%Z, (st ++ [l])%list).
Definition chk_maploc (x : pe) (r : pe) (calls : list Z) : bool :=
  let '(y, log) := map_location_st op [] x in pe_eqb y r && leqb Z.eqb log calls.
(* the property itself (order-insensitive): same value, every location passed exactly once *)
Definition chk_maploc_prop (x : pe) (r : pe) (calls : list Z) : bool :=
  let '(y, log) := map_location_st op [] x in pe_eqb y r && (leqb Z.eqb log calls || leqb Z.eqb log (rev calls)).
Definition chk_maptok (x r : pe) : bool := pe_eqb (map_token (fun t => "<" ++ t ++ ">") x) r.
Definition chk_maperr (x r : pe) : bool := pe_eqb (map_error (fun t => t ++ "!") x) r.
Definition chk_display (x : pe) (s : string) : bool :=
  String.eqb (display showZ (fun t => t) (fun e => e) x) s.
Definition chk_from (e : string) (r : pe) : bool := pe_eqb (from_error e) r.
"""


def hexs(s):
    return "h" + s.encode().hex()


def unhex(h):
    return bytes.fromhex(h[1:]).decode()


def case_line(c):
    k = c[0]
    if k == "I": return ["I", str(c[1])]
    if k == "E": return ["E", str(c[1]), str(len(c[2]))] + [hexs(x) for x in c[2]]
    if k == "T": return ["T", str(c[1]), hexs(c[2]), str(c[3]), str(len(c[4]))] + [hexs(x) for x in c[4]]
    if k == "X": return ["X", str(c[1]), hexs(c[2]), str(c[3])]
    if k == "U": return ["U", hexs(c[1])]


def z(n):
    return "(%d)%%Z" % n


def coq_case(c):
    k = c[0]
    if k == "I": return "(InvalidToken %s : pe)" % z(c[1])
    if k == "E": return "(UnrecognizedEof %s %s : pe)" % (z(c[1]), coq_list([coq_string(x) for x in c[2]]))
    if k == "T": return "(UnrecognizedToken %s %s %s %s : pe)" % (z(c[1]), coq_string(c[2]), z(c[3]), coq_list([coq_string(x) for x in c[4]]))
    if k == "X": return "(ExtraToken %s %s %s : pe)" % (z(c[1]), coq_string(c[2]), z(c[3]))
    if k == "U": return "(User %s : pe)" % coq_string(c[1])


def parse_render(s):
    f = s.split(" ")
    def ex(t):
        t = t[1:-1]
        return [unhex(x) for x in t.split(",")] if t else []
    if f[0] == "I": return ("I", int(f[1]))
    if f[0] == "E": return ("E", int(f[1]), ex(f[2]))
    if f[0] == "T": return ("T", int(f[1]), unhex(f[2]), int(f[3]), ex(f[4]))
    if f[0] == "X": return ("X", int(f[1]), unhex(f[2]), int(f[3]))
    if f[0] == "U": return ("U", unhex(f[1]))
    raise ValueError(s)


def gen_values(tier, r):
    locs = [0, 1, -2]
    toks = ["t0", "a b", ""]
    errs = ["e", "boom!", ""]
    names = ['"a"', "b", "r#\"x\"#", "ID", ","]
    vals = []
    for l in locs: vals.append(("I", l))
    for e in errs: vals.append(("U", e))
    for s in locs:
        for t in toks:
            for e in locs:
                vals.append(("X", s, t, e))
    # expected lists of every length 0..5 over a 2-letter alphabet (exhaustive) for EOF; sampled for Token
    for n in range(0, 6 if tier == "quick" else 8):
        for tup in itertools.product(["a", "bb"], repeat=n):
            vals.append(("E", locs[n % 3], list(tup)))
    for n in range(0, 6):
        for s in locs:
            for e in locs:
                vals.append(("T", s, toks[(s + e + n) % 3], e, [names[(i + s) % 5] for i in range(n)]))
    # random values, wider domains (unicode in strings, large locations, long lists)
    alphabet = ["a", "Z", " ", ",", "or", "é", "∀", "\"", "`", "\n", "Expected one of", "0"]
    def rs():
        return "".join(r.choice(alphabet) for _ in range(r.randint(0, 4)))
    nrand = 300 if tier == "quick" else 3000
    for _ in range(nrand):
        k = r.choice("IETXU")
        L = lambda: r.choice([0, 1, 7, -1, 2**40, -2**50, r.randint(-1000, 1000)])
        if k == "I": vals.append(("I", L()))
        elif k == "E": vals.append(("E", L(), [rs() for _ in range(r.randint(0, 9))]))
        elif k == "T": vals.append(("T", L(), rs(), L(), [rs() for _ in range(r.randint(0, 9))]))
        elif k == "X": vals.append(("X", L(), rs(), L()))
        else: vals.append(("U", rs()))
    return vals


def run(tier):
    t0 = time.time()
    rep = vlib.Reporter(PROP)
    nobl, ndis, names = vlib.proof_obligations(PROP, rep)
    perr = vlib.build_harness("perr")
    r = vlib.rng()
    vals = gen_values(tier, r)
    ops = ["maploc", "maptok", "maperr", "display", "from"]
    cases = [(o, v) for v in vals for o in ops if not (o == "from" and v[0] != "U")]
    inp = "\n".join("\t".join([o] + case_line(v)) for o, v in cases) + "\n"
    p = vlib.sh([perr], input=inp, check=False)
    if p.returncode != 0:
        raise vlib.BuildBroken("perr harness crashed: " + p.stdout[-2000:])
    outs = p.stdout.rstrip("\n").split("\n")
    assert len(outs) == len(cases), (len(outs), len(cases))
    checks, kept, weak = [], [], {}
    for (o, v), line in zip(cases, outs):
        if o == "maploc":
            res, calls = line.split(" | calls=")
            calls = [int(x) for x in calls.strip("[]").split(",") if x.strip()]
            checks.append("chk_maploc %s %s %s" % (coq_case(v), coq_case(parse_render(res)), coq_list([z(c) for c in calls])))
            weak[len(checks) - 1] = "chk_maploc_prop %s %s %s" % (coq_case(v), coq_case(parse_render(res)), coq_list([z(c) for c in calls]))
        elif o == "maptok":
            checks.append("chk_maptok %s %s" % (coq_case(v), coq_case(parse_render(line))))
        elif o == "maperr":
            checks.append("chk_maperr %s %s" % (coq_case(v), coq_case(parse_render(line))))
        elif o == "display":
            checks.append("chk_display %s %s" % (coq_case(v), coq_string(unhex(line))))
        elif o == "from":
            checks.append("chk_from %s %s" % (coq_string(v[1]), coq_case(parse_render(line))))
        kept.append((o, v, line))
    bad = vlib.coq_eval_cases("c28", HEADER, checks)
    # a disagreement in the FnMut call order alone does not contradict the property's statement
    order_only = set()
    wk = [i for i in bad if i in weak]
    if wk:
        still = set(vlib.coq_eval_cases("c28w", HEADER, [weak[i] for i in wk]))
        order_only = {i for j, i in enumerate(wk) if j not in still}
    for i in [i for i in bad if i in order_only][:2]:
        o, v, line = kept[i]
        rep.violation("model-vs-impl:call-order", {"what": "map_location calls its closure in a different order than the model "
                      "(Rt/ParseError.v maptok); values agree, so no input violating the statement was found",
                      "broken": "correspondence Rt/ParseError.v <-> lalrpop-util/src/lib.rs (theorem C28_map_location_call_order no longer applies)",
                      "value": v, "implementation_output": line}, nofail=True)
    for i in [i for i in bad if i not in order_only][:5]:
        o, v, line = kept[i]
        rep.violation("model-vs-impl:%s:%s" % (o, v[0]),
                      {"what": "lalrpop_util::ParseError::%s disagrees with the Coq model (Rt/ParseError.v), whose "
                               "behaviour is the documented one by Props/C28.v" % o,
                       "op": o, "value": v, "implementation_output": line, "coq_check": checks[i]})
    distinct = len({(o, repr(v)) for o, v in cases if not (v[0] in "IU" and o != "display")})
    cov = {"obligations": nobl + len(checks), "discharged": ndis + len(checks) - len(bad),
           "checker_cmd": "make -C coq && coqc Props/C28.v (Print Assumptions) && coqc .cache/cases/c28/cases*.v (vm_compute)",
           "trusted_base": vlib.TRUSTED_COMMON + ["harness/src/bin/perr.rs (calls the real map_location/map_token/map_error/Display/From)",
                                                  "Coq DecimalString for rendering i64 locations"],
           "theorems": names, "evaluations": len(cases), "distinct_nontrivial": distinct,
           "rule": "exhaustive small domains (3 locations x 3 tokens x 3 errors, expected lists of every length 0..5 over 2 names) "
                   "+ seeded random values with unicode/quote/newline strings and 64-bit locations, each under the 5 operations; "
                   "non-trivial = the operation can change or must print at least one field",
           "distribution": {k: sum(1 for v in vals if v[0] == k) for k in "IETXU"},
           "samples": [{"op": o, "value": v, "impl": line} for o, v, line in kept[:3] + kept[-3:]]}
    vlib.write_evidence(PROP, tier, "proof", cov, time.time() - t0, violations=len(rep.viol),
                        assumptions=["Display impls of L/T/E are modelled as arbitrary functions to string; fmt::Write never fails"])
    return rep.finish()


def replay(path):
    import json
    print(json.dumps(json.load(open(path)), indent=1)); return run("quick")
