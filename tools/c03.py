"""C03 — a grammar is accepted exactly when it is deterministic for the chosen algorithm."""
import os, time, hashlib, copy
import vlib, gram, lrengine, lrcheck, lr1oracle

PROP = "C03"
FROZEN = os.path.join(vlib.ROOT, "corpus", "lane_accepts.txt")


def freeze():
    """(maintenance, run once on the pinned tree) record which watch-list grammars lane accepts"""
    import random as _random
    lal = vlib.build_lalrpop()
    fr = _random.Random(20260921)
    watch = [gram.nonlalr_family(fr, 1000 + i) for i in range(40)] + [gram.nonlalr_matrix(fr, 2000 + i) for i in range(60)]
    keep = []
    for g in watch:
        st = g.pubs[0]
        if lr1oracle.verdict_lr1(g, st) == "ok" and lr1oracle.verdict_lalr(g, st) == "conflict" and verdicts(lal, g)["lane"] == "ok":
            keep.append(canon(g))
    open(FROZEN, "w").write("\n".join(sorted(set(keep))) + "\n")
    print("frozen", len(set(keep)), "of", len(watch))


def canon(g):
    """canonical text of a grammar up to renaming of nonterminals/terminals (order of first use)"""
    ntmap, tmap = {}, {}
    def nm(s):
        if s == "!":
            return "!"
        if s in g.rules:
            return ntmap.setdefault(s, "N%d" % len(ntmap))
        return tmap.setdefault(s, "t%d" % len(tmap))
    parts = []
    todo = list(g.pubs)
    for s in todo:
        nm(s)
    seen = set()
    while todo:
        nt = todo.pop(0)
        if nt in seen:
            continue
        seen.add(nt)
        alts = []
        for a in g.rules[nt]:
            alts.append(" ".join(nm(s) for s in a))
            for s in a:
                if s in g.rules and s not in seen:
                    todo.append(s)
        parts.append("%s = %s" % (nm(nt), " | ".join(alts)))
    return "; ".join(parts)


def verdicts(lal, g):
    out = {}
    for m in ("lane", "lr1", "lalr"):
        st, rs, o = lrengine.generate(lal, g, m)
        out[m] = st
    return out


def shrink(lal, g, bad):
    """delta-debug: drop alternatives / nonterminals while `bad(g)` still holds"""
    cur = g
    changed = True
    while changed:
        changed = False
        for nt in list(cur.rules):
            for i in range(len(cur.rules[nt])):
                if len(cur.rules[nt]) == 1:
                    continue
                rules = {k: [list(a) for a in v] for k, v in cur.rules.items()}
                del rules[nt][i]
                # drop unreachable nonterminals
                cand = gram.G(cur.name, cur.terms, rules, pubs=cur.pubs)
                reach = set()
                for p in cand.pubs:
                    reach |= cand.reachable(p)
                rules = {k: v for k, v in rules.items() if k in reach}
                cand = gram.G(cur.name, cur.terms, rules, pubs=cur.pubs)
                try:
                    if bad(cand):
                        cur = cand; changed = True
                        break
                except Exception:
                    pass
            if changed:
                break
    return cur


def run(tier):
    t0 = time.time()
    rep = vlib.Reporter(PROP)
    nobl, ndis, names = vlib.proof_obligations(PROP, rep)
    r = vlib.rng(3)
    lal = vlib.build_lalrpop()
    gs = gram.corpus()
    n = 30 if tier == "quick" else 500
    gs += [gram.random_grammar(r, i) for i in range(n)]
    gs += [gram.nonlalr_family(r, i) for i in range(4 if tier == "quick" else 40)]
    gs += [gram.nonlalr_matrix(r, i) for i in range(14 if tier == "quick" else 150)]
    gs = [g for g in gs if not g.recovery]
    # frozen watch list: LR(1)-but-not-LALR(1) grammars (fixed generator seed, independent of VERIF_SEED)
    # that the lane-table construction accepts on the pinned tree; they must stay accepted
    import random as _random
    fr = _random.Random(20260921)
    watch = [gram.nonlalr_family(fr, 1000 + i) for i in range(40)] + [gram.nonlalr_matrix(fr, 2000 + i) for i in range(60)]
    listed = set(open(FROZEN).read().split("\n")) if os.path.exists(FROZEN) else set()
    frozen = set()
    for g in watch:
        if canon(g) in listed:
            frozen.add(canon(g)); gs.append(g)
    stats = {"ok": 0, "conflict": 0, "lr1_not_lalr": 0, "ambiguous_or_non_lr1": 0, "oracle_too_big": 0}
    cases, nbad = 0, 0
    seen_keys = set()
    for g in gs:
        st = g.pubs[0]
        want1 = lr1oracle.verdict_lr1(g, st)
        if want1 is None:
            stats["oracle_too_big"] += 1
            continue
        wantl = lr1oracle.verdict_lalr(g, st)
        got = verdicts(lal, g)
        cases += 1
        if want1 == "ok" and wantl == "conflict":
            stats["lr1_not_lalr"] += 1
        stats["ok" if want1 == "ok" else "ambiguous_or_non_lr1"] += 1
        for mode, want in (("lane", want1), ("lr1", want1), ("lalr", wantl)):
            if got[mode] in ("panic", "timeout", "error"):
                rep.violation("lalrpop-failed:" + got[mode], {"what": "lalrpop %s on a plain context-free grammar" % got[mode], "grammar_text": g.render(lalr=(mode == "lalr")), "mode": mode})
                nbad += 1
                continue
            if got[mode] != want and mode == "lane" and want == "ok" and wantl == "conflict" and got[mode] == "conflict" and canon(g) not in frozen:
                # the recorded incompleteness of the lane-table construction (known_findings.txt); the
                # frozen list below keeps every instance that the construction does handle under watch
                stats["lane_incomplete"] = stats.get("lane_incomplete", 0) + 1
                rep.violation("lane-conflict-on-lr1-grammar-that-is-not-lalr1", {"what": "lane-table construction reports a conflict on an LR(1) grammar", "grammar": canon(g)})
                if "lane-conflict-on-lr1-grammar-that-is-not-lalr1" not in rep.known:
                    nbad += 1
                continue
            if got[mode] != want:
                nbad += 1
                def bad(c, mode=mode):
                    w = lr1oracle.verdict_lalr(c, st) if mode == "lalr" else lr1oracle.verdict_lr1(c, st)
                    return w is not None and verdicts(lal, c)[mode] != w and verdicts(lal, c)[mode] in ("ok", "conflict")
                small = shrink(lal, g, bad)
                key = ("conflict-on-deterministic-grammar:" if want == "ok" else "accepted-nondeterministic-grammar:") + mode + ":" + hashlib.sha1(canon(small).encode()).hexdigest()[:10]
                if key in seen_keys:
                    continue
                seen_keys.add(key)
                rep.violation(key, {"what": "lalrpop (%s construction) %s, but the %s automaton of the grammar %s" % (
                    {"lane": "default lane-table", "lr1": "canonical LR(1)", "lalr": "LALR(1)"}[mode],
                    "reports a conflict" if got[mode] == "conflict" else "accepts the grammar",
                    "LALR(1)" if mode == "lalr" else "canonical LR(1)", "has no conflict" if want == "ok" else "has a conflict"),
                    "mode": mode, "minimised_grammar": canon(small), "grammar_text": small.render(lalr=(mode == "lalr")), "original_grammar": canon(g)})
    # accepted => the emitted tables validate (kernel check), which by Props/C03.v excludes ambiguity
    c = lrcheck.prepare([g for g in gs[:24 if tier == "quick" else 300]])
    cobl, cdis, failing = lrcheck.certify(PROP, rep, c, parts=("valid",), name="c03cert")
    lrcheck.report_cert_failures(PROP, rep, c, failing, bool(rep.viol))
    cov = {"obligations": nobl + cases * 3 + cobl, "discharged": ndis + cases * 3 - nbad + cdis,
           "checker_cmd": "make -C coq; coqc Props/C03.v; lalrpop verdicts in 3 modes vs tools/lr1oracle.py; coqc .cache/cases/c03cert/*.v",
           "trusted_base": vlib.TRUSTED_COMMON + ["tools/lr1oracle.py (textbook canonical LR(1) / LALR(1) constructions: the reference for the REJECT direction)"],
           "theorems": names, "certificates": {"checked": cobl, "valid": cdis}, "evaluations": cases * 3, "distinct_nontrivial": stats["lr1_not_lalr"] + stats["ambiguous_or_non_lr1"],
           "rule": "random grammars (empty productions, left/right recursion, useless symbols), LR(1)\\\\LALR families (chains and nested contexts-x-pairs) x {lane-table, canonical LR(1), LALR(1)}; "
                   "non-trivial = grammars that are not LALR(1) (LR(1)-only, non-LR(1) or ambiguous)",
           "distribution": stats, "samples": [{"grammar": canon(gs[0]), "verdicts": verdicts(lal, gs[0])}]}
    vlib.write_evidence(PROP, tier, "proof", cov, time.time() - t0, violations=len(rep.viol),
                        assumptions=["the reject direction (a reported conflict is real) rests on the python reference construction, not on a theorem"])
    return rep.finish()


def replay(path):
    import json
    print(json.dumps(json.load(open(path)), indent=1)[:3000]); return run("quick")
