"""C15 — conditional compilation equals deleting the inactive declarations.
For generated grammars and every feature subset: lalrpop(g, features) must produce byte-identical
output (after the hash line) to lalrpop(pruned g, no features), where the pruning is computed by the Coq
model Norm/Cfg.v (vm_compute).  Also through CARGO_FEATURE_* and process_dir."""
import os, re, time, itertools, hashlib
import vlib, fsrun
from vlib import coq_string

PROP = "C15"
FEATS = ["a", "b", "c-d"]


def gen_pred(r, depth=2):
    k = r.random()
    if depth == 0 or k < 0.45:
        return ("f", r.choice(FEATS + ["zz"]))
    if k < 0.65:
        return ("not", [gen_pred(r, depth - 1)])
    if k < 0.83:
        return ("all", [gen_pred(r, depth - 1) for _ in range(r.randint(1, 3))])
    return ("any", [gen_pred(r, depth - 1) for _ in range(r.randint(1, 3))])


def pred_text(p):
    if p[0] == "f":
        return 'feature = "%s"' % p[1]
    return "%s(%s)" % (p[0], ", ".join(pred_text(x) for x in p[1]))


def pred_coq(p):
    if p[0] == "f":
        return "PFeature %s" % coq_string(p[1])
    return "%s [%s]" % ({"not": "PNot", "all": "PAll", "any": "PAny"}[p[0]], "; ".join(pred_coq(x) for x in p[1]))


def gen_grammar(r):
    """nonterminals N0..; each with 0-2 cfg attributes; alternatives with 0-2 cfg attributes; every other
    grammar declares its terminals in an extern block whose conversions carry cfg attributes too (two
    conversions of one terminal under exclusive predicates, with different payload types)"""
    n = r.randint(2, 4)
    nts = []
    for i in range(n):
        alts = []
        for j in range(r.randint(1, 3)):
            sym = r.choice(['"x"', '"y"', '"(" N%d ")"' % r.randrange(n), 'N%d "z"' % r.randrange(n), '"w"'])
            alts.append({"cfg": [gen_pred(r) for _ in range(r.choice([0, 0, 1, 1, 2]))], "text": "%s => ()" % sym})
        nts.append({"cfg": [gen_pred(r) for _ in range(r.choice([0, 0, 0, 1, 2])) if i > 0], "alts": alts})
    if r.random() < 0.5:
        convs = []
        for k, t in enumerate(['"x"', '"y"', '"z"', '"w"', '"("', '")"']):
            z = r.random()
            if z < 0.45:
                p = gen_pred(r, 1)
                convs.append({"cfg": [p], "text": "%s => Tok::A%d(<i64>)" % (t, k)})
                convs.append({"cfg": [("not", [p])], "text": "%s => Tok::B%d(<i32>)" % (t, k)})
            elif z < 0.6:
                convs.append({"cfg": [gen_pred(r, 1)], "text": "%s => Tok::C%d" % (t, k)})
            else:
                convs.append({"cfg": [], "text": "%s => Tok::D%d" % (t, k)})
        nts.append({"cfg": [], "alts": convs, "extern": True})
    return nts


EXT_HEAD = "extern {\n    type Location = usize;\n    type Error = ();\n    enum Tok {"


def render(nts, keep=None):
    """keep: None = everything with attributes; else list of (nt index, [alt indices]) to print without attributes"""
    L = ["grammar;"]
    if keep is None:
        for i, n in enumerate(nts):
            if n.get("extern"):
                L.append(EXT_HEAD)
                for a in n["alts"]:
                    for c in a["cfg"]:
                        L.append("        #[cfg(%s)]" % pred_text(c))
                    L.append("        %s," % a["text"])
                L.append("    }\n}")
                continue
            for c in n["cfg"]:
                L.append("#[cfg(%s)]" % pred_text(c))
            L.append("%sN%d: () = {" % ("pub " if i == 0 else "", i))
            for a in n["alts"]:
                for c in a["cfg"]:
                    L.append("    #[cfg(%s)]" % pred_text(c))
                L.append("    %s," % a["text"])
            L.append("};")
    else:
        for i, alts in keep:
            if nts[i].get("extern"):
                L.append(EXT_HEAD)
                for j in alts:
                    L.append("        %s," % nts[i]["alts"][j]["text"])
                L.append("    }\n}")
                continue
            L.append("%sN%d: () = {" % ("pub " if i == 0 else "", i))
            for j in alts:
                L.append("    %s," % nts[i]["alts"][j]["text"])
            L.append("};")
    return "\n".join(L) + "\n"


def body(path):
    if not os.path.exists(path):
        return None
    return open(path, "rb").read().split(b"\n", 2)[2]


def run(tier):
    t0 = time.time()
    rep = vlib.Reporter(PROP)
    nobl, ndis, names = vlib.proof_obligations(PROP, rep)
    r = vlib.rng(15)
    lal = vlib.build_lalrpop()
    api = vlib.build_harness("apirun")
    ng = 6 if tier == "quick" else 120
    grammars = [gen_grammar(r) for _ in range(ng)]
    subsets = [list(s) for k in range(len(FEATS) + 1) for s in itertools.combinations(FEATS, k)]
    # the model decides what survives: one vm_compute for all (grammar, feature set) pairs
    terms = []
    for nts in grammars:
        g = "[" + "; ".join("{| n_cfg := [%s]; n_id := %d; n_alts := [%s] |}" % (
            "; ".join("[%s]" % pred_coq(c) for c in n["cfg"]), i,
            "; ".join("{| a_cfg := [%s]; a_id := %d |}" % ("; ".join("[%s]" % pred_coq(c) for c in a["cfg"]), j) for j, a in enumerate(n["alts"])))
            for i, n in enumerate(nts)) + "]"
        for fs in subsets:
            terms.append("survivors [%s] %s" % ("; ".join(coq_string(f) for f in fs), g))
    hdr = ("From Coq Require Import List String.\nFrom LV Require Import Norm.Cfg.\nImport ListNotations.\n"
           "Definition enc (l : list (nat * list nat)) : list nat := List.length l :: flat_map (fun p => fst p :: List.length (snd p) :: snd p) l.\n"
           "Local Open Scope string_scope.\n")
    out = vlib.coq_eval_value("c15", hdr, "flat_map enc [%s]" % "; ".join(terms), timeout=2400)
    nums = [int(x) for x in re.findall(r"\d+", out.split(":")[0])]
    survs, pos = [], 0
    while pos < len(nums) and len(survs) < len(terms):
        n = nums[pos]; pos += 1
        cur = []
        for _ in range(n):
            i, m = nums[pos], nums[pos + 1]; pos += 2
            cur.append((i, nums[pos:pos + m])); pos += m
        survs.append(cur)
    if len(survs) != len(terms):
        raise RuntimeError("cannot read the model's answer: %d lists for %d terms" % (len(survs), len(terms)))
    ncase = nbad = nerr = 0
    k = 0
    samples = []
    for gi, nts in enumerate(grammars):
        full = render(nts)
        for fs in subsets:
            keep = survs[k]; k += 1
            d1, d2 = fsrun.fresh_dir("cfg1"), fsrun.fresh_dir("cfg2")
            open(os.path.join(d1, "a.lalrpop"), "w").write(full)
            open(os.path.join(d2, "a.lalrpop"), "w").write(render(nts, keep))
            via_env = (k % 5 == 0)
            if via_env:
                os.makedirs(os.path.join(d1, "in")); os.rename(os.path.join(d1, "a.lalrpop"), os.path.join(d1, "in", "a.lalrpop"))
                env = {"CARGO_FEATURE_" + f.upper().replace("-", "_"): "1" for f in fs}
                p = vlib.sh([api, "process_dir:in", "out_dir=.", "force=1"], cwd=d1, env=env, check=False)
                c1, o1 = (0 if p.stdout.strip().endswith("OK") else 1), p.stdout
            else:
                c1, o1 = fsrun.run_lalrpop(lal, ["-f"] + (["--features", ",".join(fs)] if fs else []) + ["a.lalrpop"], d1)
            c2, o2 = fsrun.run_lalrpop(lal, ["-f", "a.lalrpop"], d2)
            ncase += 1
            if "panicked" in o1 + o2 or "PANIC" in o1:
                rep.violation("panicked", {"what": "lalrpop panicked", "grammar_text": full, "features": fs, "output": (o1 + o2)[-600:]}); nbad += 1
                continue
            b1, b2 = body(os.path.join(d1, "a.rs")), body(os.path.join(d2, "a.rs"))
            if b1 is None and b2 is None:
                nerr += 1
            if len(samples) < 2 and b1 is not None and len(keep) < len(nts):
                samples.append({"features": fs, "grammar_text": full, "pruned": render(nts, keep)})
            if b1 != b2:
                nbad += 1
                if nbad <= 3:
                    rep.violation("cfg-differs-from-deletion", {"what": "with features %r the generated parser differs from the one generated from the grammar with the inactive items deleted (%s)" %
                                  (fs, "one of them was rejected" if (b1 is None) != (b2 is None) else "bytes differ"), "features": fs, "via": "CARGO_FEATURE_* + process_dir" if via_env else "--features",
                                  "grammar_text": full, "pruned_grammar_text": render(nts, keep), "survivors_by_model": keep, "output_with_cfg": o1[-400:], "output_pruned": o2[-400:]})
    cov = {"obligations": nobl + ncase, "discharged": ndis + ncase - nbad,
           "checker_cmd": "make -C coq; coqc Props/C15.v; coqc .cache/cases/c15/val.v (vm_compute survivors); lalrpop on (g, features) vs (pruned g, none)",
           "trusted_base": vlib.TRUSTED_COMMON + ["tools/c15.py printer of grammars with/without attributes"],
           "theorems": names, "evaluations": ncase, "distinct_nontrivial": ncase - nerr,
           "rule": "random grammars with nested feature/not/all/any predicates (unknown features, several cfg attributes per item) on nonterminals and alternatives x all 8 subsets of 3 feature names, "
                   "every 5th case through CARGO_FEATURE_* and process_dir; non-trivial = both variants accepted",
           "distribution": {"grammars": ng, "feature_sets": len(subsets), "both_rejected": nerr}, "samples": samples or [{"note": "no pruned sample"}]}
    vlib.write_evidence(PROP, tier, "proof", cov, time.time() - t0, violations=len(rep.viol),
                        assumptions=["cfg on `use` items, match blocks and grammar parameters is not generated"])
    return rep.finish()


def replay(path):
    import json
    print(json.dumps(json.load(open(path)), indent=1)[:3000]); return run("quick")
