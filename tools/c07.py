"""C07 — table-driven and recursive-ascent parsers give identical results (compiled parsers)."""
import time
import vlib, gram, lrengine, lrcheck, cgb, cgcheck

PROP = "C07"


def c07_view(d):
    """what C07 compares: Ok value, or error variant + token + location + user error (no expected lists)"""
    if d["kind"] == "ok":
        return ("ok", repr(d["tree"]))
    if d["kind"] == "err":
        e = dict(d["err"]); e.pop("expected", None)
        return ("err", repr(sorted(e.items(), key=lambda kv: kv[0])))
    return (d["kind"],)


def run(tier):
    t0 = time.time()
    rep = vlib.Reporter(PROP)
    nobl, ndis, names = vlib.proof_obligations(PROP, rep)
    r = vlib.rng(7)
    lal = vlib.build_lalrpop()
    drv = vlib.build_harness("drv")
    gs = [g for g in gram.corpus() if not g.recovery]
    nrand = 14 if tier == "quick" else 120
    cand = [gram.random_grammar(r, i, fallible=(i % 3 == 0)) for i in range(nrand)] + [gram.nonlalr_family(r, i) for i in range(3)]
    gs += cand
    # production counts around the boundary at which the integer type of the tables changes (127/128/129)
    gs += [gram.size_boundary(t) for t in (125, 126, 127)]
    ok, out, binary, units = cgcheck.build_corpus(rep, lal, gs)
    if not ok:
        rep.violation("generated-code-does-not-compile", {"what": "rustc rejects a generated parser of the corpus", "rustc": out[-3000:]})
        vlib.write_evidence(PROP, tier, "other", {"explanation": "generated parsers do not compile", "evaluations": 1, "distinct_nontrivial": 0}, time.time() - t0, 1)
        return rep.finish()
    by = {}
    for u in units:
        by.setdefault(u["gi"], {})[u["variant"]] = u
    cases, meta = [], []
    per = 14 if tier == "quick" else 40
    for gi, vs in by.items():
        if "t" not in vs or "a" not in vs:
            continue
        g = vs["t"]["g"]
        for st in g.pubs:
            if st not in g.min_height() or st not in vs["t"]["tabs"]:
                continue
            t = vs["t"]["tabs"][st]
            labs = cgcheck.prod_labels(g, t)
            for n in range(per):
                w = g.random_sentence(r, st, depth=r.randint(1, 6))
                for _ in range(n % 3):
                    w = lrengine.mutate(g, w, r)
                items = lrengine.tok_items(g, t, w, r)
                orc = []
                if n % 5 == 4:
                    k = r.randint(0, len(items))
                    items = items[:k] + [("u", r.randint(1, 99))] + items[k:]
                if t["fallible"] and n % 4 == 1:
                    p = r.choice(t["fallible"])
                    orc = [(p, r.choice([it[2] for it in items if it[0] == "k"] + [0]), r.randint(100, 199))]
                lorc = [(labs[p], i, e) for (p, i, e) in orc if labs[p]]
                cases.append((vs["t"]["name"], st, items, t, lorc)); meta.append((gi, st, "t", orc))
                cases.append((vs["a"]["name"], st, items, t, lorc)); meta.append((gi, st, "a", orc))
    res = cgb.run(binary, cases)
    ndiff = nmodel = 0
    drv_cases, drv_idx, tabs = [], [], {}
    for i in range(0, len(cases), 2):
        a, b = res[i], res[i + 1]
        gi, st, _, orc = meta[i]
        g = by[gi]["t"]["g"]
        if c07_view(a) != c07_view(b):
            ndiff += 1
            if ndiff <= 3:
                rep.violation("table-vs-ascent", {"what": "the table-driven and the recursive-ascent parser generated from the same grammar return different results",
                              "grammar": g.name, "grammar_text": g.render(), "start": st, "items": [list(x) for x in cases[i][2]],
                              "oracle": [list(o) for o in orc], "table_driven": cgcheck.norm_cgb(a), "recursive_ascent": cgcheck.norm_cgb(b)})
        tid = "g%d_%s" % (gi, st)
        tabs[tid] = cases[i][3]
        drv_cases.append((tid, cases[i][2], orc)); drv_idx.append(i)
    # tie: compiled table-driven parser == real driver over the translated tables (validates translator + glue)
    outs = lrengine.run_drv(drv, tabs, drv_cases)
    # ... and the real driver == the Coq model (vm_compute)
    checks = [lrengine.coq_check(tid, items, orc, o) for (tid, items, orc), o in zip(drv_cases, outs)]
    badm = vlib.coq_eval_cases("c07", lrengine.coq_header(tabs), checks, shard_size=150)
    for i in badm[:2]:
        rep.violation("model-vs-impl", {"what": "real driver and Coq model disagree", "coq_check": checks[i],
                      "broken": "correspondence LR/Driver.v <-> state_machine.rs"}, nofail=True)
    for (tid, items, orc), o, i in zip(drv_cases, outs, drv_idx):
        gi, st, _, _ = meta[i]
        g = by[gi]["t"]["g"]
        want = cgcheck.drv_to_labeled(lrengine.decode(o), g, tabs[tid])
        got = cgcheck.norm_cgb(res[i])
        if want != got:
            nmodel += 1
            if nmodel <= 2 and ndiff == 0:
                rep.violation("compiled-vs-translated-tables", {"what": "the compiled table-driven parser and the real driver run over the tables read by tools/lrtab.py disagree: "
                              "the translator or the harness glue no longer reflects the generated code", "grammar": g.name, "start": st,
                              "items": [list(x) for x in items], "compiled": got, "driver_on_translated_tables": want,
                              "broken": "tie generated code <-> translated tables (tools/lrtab.py, harness/drv.rs)"}, nofail=True)
    npairs = len(cases) // 2
    kinds = {}
    for i in range(0, len(cases), 2):
        k = res[i]["kind"] + ":" + res[i].get("err", {}).get("e", "")
        kinds[k] = kinds.get(k, 0) + 1
    distinct = len({(cases[i][0], tuple(x[1] for x in cases[i][2])) for i in range(0, len(cases), 2) if len(cases[i][2]) >= 2})
    cov = {"obligations": nobl + 2 * npairs, "discharged": ndis + 2 * npairs - ndiff - nmodel,
           "checker_cmd": "make -C coq; coqc Props/C07.v; cargo build harness/cgb (rustc on generated parsers); compare",
           "trusted_base": vlib.TRUSTED_COMMON + ["rustc (compiles the generated parsers)", "harness/cgb/src/rt.rs", "tools/lrtab.py"],
           "theorems": names, "programs": len(by), "disagreements_checked": npairs,
           "evaluations": len(cases), "distinct_nontrivial": distinct,
           "rule": "grammars without `!` (corpus + random + LR(1)\\\\LALR family), each compiled twice (table-driven, #[recursive_ascent]); sentences, 1-2 step mutations, "
                   "injected stream errors, failing =>? actions; non-trivial = input of >= 2 tokens",
           "distribution": {"results": kinds, "grammar_pairs": len([1 for v in by.values() if 't' in v and 'a' in v]), "table_vs_ascent_differences": ndiff,
                            "compiled_vs_translated_differences": nmodel},
           "samples": [{"grammar": by[meta[0][0]]["t"]["g"].name, "items": [list(x) for x in cases[0][2]], "table_driven": cgcheck.norm_cgb(res[0]), "recursive_ascent": cgcheck.norm_cgb(res[1])}]}
    vlib.write_evidence(PROP, tier, "proof", cov, time.time() - t0, violations=len(rep.viol),
                        assumptions=["equivalence is decided by running both compiled parsers; the Coq part covers the table-driven side (Props/C01, C04) and the statement both must meet",
                                     "expected-token lists are excluded by the property's own statement"])
    return rep.finish()


def replay(path):
    import json
    print(json.dumps(json.load(open(path)), indent=1)[:3000]); return run("quick")
