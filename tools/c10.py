"""C10 — literal and regex terminals match exactly their own language, also after lalrpop
re-renders them for the generated lexer."""
import os, re, time, hashlib, subprocess
import vlib, rx, lexcheck, c09, c11

PROP = "C10"

LITS = ["a.b", "a*", "(x)", "[ab]", "a|b", "^$", "a\\b", "\"q\"", "a+b?", "{2}", "é(", "∀x.", "a b", "tab\there", "nl\nx", "\\d", "\\\\", "a-z",
        "#", "&&", "~", "x{1,2}", "(?i)a", ".*", "\\.", "É", "ß", "$1", "a\0b", "€", "-", "]", "[", "\\x41"]
REGEXES = [r"\d+", r"\w+", r"[[:alpha:]]+", r"(?i)begin", r"\p{Greek}+", r"x{2,3}", r"(a|b)*c", r"[^a-c]x", r"\.\*", r"\x41\x{3b1}", r"[a-c&&[^b]]+",
           r"a(?:bc)?d", r"\s\S", r"[\t ]+x", r"é+", r"(?i:é)x", r"[\d.]+", r"\u{1F600}", r"a{0}b", r"(ab|a)(c|bcd)", r"\\", r"[\]\[]", r"\-+", r"[a\-z]", r"#.*", r"(?s)a.c", r"a.c", r"[^x]x", r"\s+x", r"(?R)a.c"]
DOT = ("cls", [(10, 10)], True)          # rendered as `.` by rx.to_rust; [^\n] in the Coq model
DOT_ASTS = [("cat", [("lit", "#"), ("star", DOT)]), ("cat", [("lit", "'"), DOT, ("lit", "'")]), ("cat", [("lit", "a"), ("plus", DOT), ("lit", "c")]),
            ("cat", [DOT, ("lit", "y")]), ("plus", ("alt", [("cat", [("lit", "q"), DOT]), ("lit", "r")])), ("cat", [("lit", "<"), ("rep", DOT, 1, 3), ("lit", ">")])]
DOT_CANDS = ["#abc\r", "#abc", "#\r\r", "#a\nb", "#", "'\r'", "'x'", "'\n'", "a\rc", "a\r\nc", "a\nc", "abc", "a\x0b\x0cc", "\ry", "\ny", "xy", "q\rr", "q\n", "<\r>", "<\r\r\r>", "<\n>",
             "<\u0085>", "<\u2028>", "a\u2029c"]
CANDS = ["\r", "\n", "\r\n", " \r", "\rx", "a\rx", "x\r", "", "a", "ab", "abc", "a.b", "axb", "aa", "A", "É", "é", "éé", "Éx", "éx", "α", "αβγ", "xx", "xxx", "xxxx", "c", "abc", "ababc", "dx", "ax", ".*", "..",
         "Aα", "a\tx", " x", "12", "1.5", "abcd", "ad", "abcbcd", "abc", "\\", "]", "[", "--", "-", "z", "begin", "BEGIN", "Begin", "b", "a b", "  ", " a", "😀", "0"]


def lal_literal(s):
    out = []
    for c in s:
        if c == "\\": out.append("\\\\")
        elif c == '"': out.append('\\"')
        elif c == "\n": out.append("\\n")
        elif c == "\t": out.append("\\t")
        elif c == "\r": out.append("\\r")
        elif c == "\0": out.append("\\0")
        else: out.append(c)
    return '"' + "".join(out) + '"'


def emitted_for(lal, tag, term_text):
    text = 'grammar;\npub S: () = { %s => (), "zzzz" => () };\n' % term_text
    d = os.path.join(vlib.CACHE, "c10g", hashlib.sha1((tag + text).encode()).hexdigest()[:14])
    os.makedirs(d, exist_ok=True)
    if not os.path.exists(os.path.join(d, "out")):
        open(os.path.join(d, "g.lalrpop"), "w").write(text)
        p = subprocess.run([lal, "-f", "g.lalrpop"], cwd=d, stdout=subprocess.PIPE, stderr=subprocess.STDOUT, text=True, timeout=900, errors="replace")
        open(os.path.join(d, "out"), "w").write("%d\n%s" % (p.returncode, p.stdout[-2000:]))
    out = open(os.path.join(d, "out")).read()
    if not os.path.exists(os.path.join(d, "g.rs")):
        return None, out, text
    strs = c09.read_strs(open(os.path.join(d, "g.rs")).read())
    mine = [s for s, sk in strs if not sk and s not in ("zzzz", "(?:zzzz)")]
    return (mine[0] if len(mine) == 1 else None), out, text


def whole(toks, n):
    return toks == [("t", 0, 0, n), ("end",)]


def run(tier):
    t0 = time.time()
    rep = vlib.Reporter(PROP)
    nobl, ndis, names = vlib.proof_obligations(PROP, rep)
    r = vlib.rng(10)
    lal = vlib.build_lalrpop()
    lexdrv = vlib.build_harness("lexdrv")
    tag = c09.lrfile_hash(lal)
    lits = list(LITS)
    alphabet = "ab.*+?()[]{}|^$\\\"é∀ \t-#&~x1"
    for _ in range(20 if tier == "quick" else 300):
        lits.append("".join(r.choice(alphabet) for _ in range(r.randint(1, 5))))
    tables, cases, kind = {}, [], {}
    coq_checks, coq_meta = [], []
    nlit = nre = 0
    for i, s in enumerate(dict.fromkeys(lits)):
        em, out, text = emitted_for(lal, tag, lal_literal(s))
        if em is None:
            rep.violation("literal-rejected", {"what": "a quoted terminal was not turned into a lexer pattern", "literal": s, "grammar_text": text, "output": out[-800:]})
            continue
        nlit += 1
        tid = "l%d" % i
        tables[tid] = [(em, False)]
        cands = {s, s + "x", s[:-1], s.upper(), s.lower(), s.replace(".", "x"), s.replace("*", ""), s + s, "x" + s, s.replace("\\", "")} | {"".join(r.sample(list(s), len(s)))}
        for c in cands:
            cases.append((tid, c)); kind[len(cases) - 1] = ("lit", s, em)
    fragment = [rx.rand_regex(r, 2) for _ in range(15 if tier == "quick" else 200)]
    regexes = [(g, None) for g in REGEXES] + [(rx.to_rust(a), a) for a in DOT_ASTS] + [(rx.to_rust(a), a) for a in fragment if not rx.nullable(a)]
    for i, (g, ast) in enumerate(regexes):
        em, out, text = emitted_for(lal, tag, 'r#"%s"#' % g)
        if em is None:
            if "not supported" in out or "ambig" in out:
                continue
            rep.violation("regex-rejected", {"what": "a supported regex terminal was rejected", "regex": g, "output": out[-800:]})
            continue
        nre += 1
        tables["o%d" % i] = [(g, False)]
        tables["e%d" % i] = [(em, False)]
        cands = list(CANDS) + ([rx.sample(ast, r) for _ in range(6)] if ast else []) + (DOT_CANDS if ast in DOT_ASTS else [])
        for c in cands:
            cases.append(("o%d" % i, c)); kind[len(cases) - 1] = ("orig", g, em, ast)
            cases.append(("e%d" % i, c)); kind[len(cases) - 1] = ("emit", g, em, ast)
    streams = lexcheck.run_lexdrv(lexdrv, tables, cases)
    nbad = 0
    for i, ((tid, inp), toks) in enumerate(zip(cases, streams)):
        k = kind[i]
        n = len(inp.encode("utf-8"))
        if k[0] == "lit":
            got = whole(toks, n) if n > 0 else False
            want = (inp == k[1])
            coq_checks.append("Bool.eqb (matchb %s %s) %s" % (rx.to_coq(("lit", k[1])), lexcheck.coq_bytes(inp), "true" if got else "false"))
            coq_meta.append((k, inp, toks))
            if got != want and n > 0:
                nbad += 1
                if nbad <= 3:
                    rep.violation("literal-language", {"what": "the generated pattern for the quoted terminal %r %s the string %r" % (k[1], "matches" if got else "does not match", inp),
                                                       "literal": k[1], "emitted_pattern": k[2], "input": inp, "tokens": toks})
        elif k[0] == "emit":
            orig = streams[i - 1]
            if toks != orig:
                nbad += 1
                if nbad <= 3:
                    rep.violation("regex-rerendering", {"what": "the re-rendered regex behaves differently from the regex the user wrote", "regex": k[1], "emitted_pattern": k[2],
                                                        "input": inp, "tokens_original": orig, "tokens_emitted": toks})
            if k[3] is not None and n > 0:
                coq_checks.append("Bool.eqb (matchb %s %s) %s" % (rx.to_coq(k[3]), lexcheck.coq_bytes(inp), "true" if whole(toks, n) else "false"))
                coq_meta.append((k, inp, toks))
    hdr = "From Coq Require Import List NArith Bool.\nFrom LV Require Import Lex.Regex.\nImport ListNotations.\n"
    bad = vlib.coq_eval_cases("c10", hdr, coq_checks, shard_size=300)
    if bad and nbad == 0:
        for i in bad[:2]:
            k, inp, toks = coq_meta[i]
            rep.violation("model-vs-impl", {"what": "the Coq regex semantics and the real matcher disagree on whether the terminal matches the whole input",
                                            "terminal": k[1], "emitted_pattern": k[2], "input": inp, "tokens": toks, "coq_check": coq_checks[i],
                                            "broken": "correspondence Lex/Regex.v <-> regex engine on the emitted pattern"}, nofail=True)
    distinct = len({(k[1], inp) for i, ((tid, inp), toks) in enumerate(zip(cases, streams)) for k in [kind[i]] if k[0] in ("lit", "emit") and whole(toks, len(inp.encode()))})
    cov = {"obligations": nobl + len(coq_checks) + len(cases), "discharged": ndis + len(coq_checks) - len(bad) + len(cases) - nbad,
           "checker_cmd": "make -C coq; coqc Props/C10.v; coqc .cache/cases/c10/*.v (matchb)",
           "trusted_base": vlib.TRUSTED_COMMON + ["harness/src/bin/lexdrv.rs", "regex-automata as the reference semantics of a regex the user wrote (original text vs re-rendered text in the same engine)"],
           "theorems": names, "evaluations": len(cases), "distinct_nontrivial": distinct,
           "rule": "quoted terminals with metacharacters, escapes, quotes, control and non-ASCII characters (fixed pool + random) each through lalrpop, the emitted pattern run on the literal and on near misses; "
                   "regex terminals (fixed pool with classes, flags, Unicode classes, bounded repetition + random fragment ASTs) original vs re-rendered in the real engine on a string pool; "
                   "non-trivial = (terminal, string) pairs where the terminal matches the whole string",
           "distribution": {"literals": nlit, "regexes": nre, "cases": len(cases), "model_checked": len(coq_checks)},
           "samples": [{"terminal": kind[0][1], "emitted": kind[0][2], "input": cases[0][1], "tokens": streams[0]}]}
    vlib.write_evidence(PROP, tier, "proof", cov, time.time() - t0, violations=len(rep.viol),
                        assumptions=["regex-syntax/regex-automata internals are exercised, not verified; the reference meaning of a user regex is the same engine run on the original text"])
    return rep.finish()


def replay(path):
    import json
    print(json.dumps(json.load(open(path)), indent=1)[:3000]); return run("quick")
