"""String-input compiled-parser tier: builds parsers lalrpop generates for grammars with the built-in
lexer (or any grammar whose `parse` takes &str) into one crate with rustc and runs them; results are
printed with Debug.  Also runs one shared parser from several threads (C27)."""
import os, shutil
import vlib

SGB = os.path.join(vlib.ROOT, "harness", "sgb")


_LOCK = None


def _lock():
    """one check at a time may use this crate (its sources are rewritten per run): hold an exclusive lock
    until the process exits"""
    global _LOCK
    if _LOCK is None:
        import fcntl
        os.makedirs(vlib.CACHE, exist_ok=True)
        _LOCK = open(os.path.join(vlib.CACHE, "sgb.lock"), "w")
        fcntl.flock(_LOCK, fcntl.LOCK_EX)


def build(units, support=""):
    """units: list of dict(name, rs, parsers [names], args (extra arguments text for parse, default '')).
    support: Rust items visible to the grammars as crate::support::*.
    -> (ok, rustc output, binary path)"""
    _lock()
    gen = os.path.join(SGB, "src", "gen")
    shutil.rmtree(gen, ignore_errors=True)
    os.makedirs(gen)
    main = ["#![allow(warnings)]", "pub mod rt;", "pub mod support;", "use std::panic::AssertUnwindSafe;"]
    seq, mt = [], []
    for u in units:
        shutil.copy(u["rs"], os.path.join(gen, u["name"] + ".rs"))
        main.append('#[path = "gen/%s.rs"] mod %s;' % (u["name"], u["name"]))
        for pz in u["parsers"]:
            args = u.get("args", "")
            seq.append('        ("%s", "%s") => rt::guarded(AssertUnwindSafe(|| rt::show(%s::%sParser::new().parse(%sinput)))),' % (u["name"], pz, u["name"], pz, args))
            mt.append('        ("%s", "%s") => { let p = %s::%sParser::new(); rt::shared(&p, inputs, threads, rounds, |p, s| rt::guarded(AssertUnwindSafe(|| rt::show(p.parse(%ss))))) }'
                      % (u["name"], pz, u["name"], pz, args))
    main.append("""
fn run_seq(m: &str, p: &str, input: &str) -> String {
    match (m, p) {
%s
        _ => "NOPARSER".to_string(),
    }
}
fn run_mt(m: &str, p: &str, threads: usize, rounds: usize, inputs: &[String]) -> String {
    match (m, p) {
%s
        _ => "NOPARSER".to_string(),
    }
}
fn main() {
    use std::io::{BufRead, Write};
    std::panic::set_hook(Box::new(|_| {}));
    let stdin = std::io::stdin();
    let out = std::io::stdout();
    let mut out = out.lock();
    for line in stdin.lock().lines() {
        let line = line.unwrap();
        let f: Vec<&str> = line.split('\\t').collect();
        let r = if f[0] == "S" {
            let input = rt::unhex(f[3]);
            run_seq(f[1], f[2], &input)
        } else {
            let inputs: Vec<String> = f[5].split(',').map(rt::unhex).collect();
            run_mt(f[1], f[2], f[3].parse().unwrap(), f[4].parse().unwrap(), &inputs)
        };
        writeln!(out, "{}", r).unwrap();
    }
}
""" % ("\n".join(seq), "\n".join(mt)))
    with open(os.path.join(SGB, "src", "main.rs"), "w") as w:
        w.write("\n".join(main))
    with open(os.path.join(SGB, "src", "support.rs"), "w") as w:
        w.write("#![allow(warnings)]\n" + support)
    lock = os.path.join(SGB, "Cargo.lock")
    if not os.path.exists(lock):
        shutil.copy(os.path.join(vlib.REPO, "Cargo.lock"), lock)
    env = vlib.cargo_env()
    env["CARGO_TARGET_DIR"] = os.path.join(vlib.CACHE, "sgb-target" + ("" if vlib.REPO == "/repo" else "-" + os.path.basename(vlib.TARGET)))
    # the crate path-depends on /repo/lalrpop-util; a scratch tree given through VERIF_REPO (seeded-change
    # trials) is substituted for the duration of the build only
    toml_path = os.path.join(SGB, "Cargo.toml")
    toml = open(toml_path).read()
    try:
        if vlib.REPO != "/repo":
            open(toml_path, "w").write(toml.replace('"/repo/', '"%s/' % vlib.REPO))
        p = vlib.sh(["cargo", "build", "--offline"], cwd=SGB, env=env, check=False, timeout=3000)
    finally:
        open(toml_path, "w").write(toml)
    return p.returncode == 0, p.stdout, os.path.join(env["CARGO_TARGET_DIR"], "debug", "sgb")


def hx(s):
    return s.encode("utf-8").hex()


def run(binary, cases):
    """cases: list of (module, parser, input string) -> list of result strings"""
    inp = "".join("S\t%s\t%s\t%s\n" % (m, p, hx(s)) for (m, p, s) in cases)
    p = vlib.sh([binary], input=inp, check=False, timeout=1800)
    if p.returncode != 0:
        raise vlib.BuildBroken("sgb binary failed: " + p.stdout[-2000:])
    lines = p.stdout.rstrip("\n").split("\n") if cases else []
    if len(lines) != len(cases):
        raise vlib.BuildBroken("sgb returned %d lines for %d cases" % (len(lines), len(cases)))
    return lines


def run_shared(binary, module, parser, inputs, threads=8, rounds=3):
    """-> list (per thread) of (stable?, [results in input order])"""
    inp = "M\t%s\t%s\t%d\t%d\t%s\n" % (module, parser, threads, rounds, ",".join(hx(s) for s in inputs))
    p = vlib.sh([binary], input=inp, check=False, timeout=1800)
    if p.returncode != 0:
        raise vlib.BuildBroken("sgb binary failed: " + p.stdout[-2000:])
    out = []
    for th in p.stdout.rstrip("\n").split("\x03"):
        st, rs = th.split("\x01", 1)
        out.append((st == "stable", rs.split("\x02")))
    return out


def generate(lal, name, text, extra_args=()):
    """run lalrpop on a grammar text in a scratch dir -> (status, rs path, output)"""
    import fsrun
    d = os.path.join(vlib.CACHE, "sg", name)
    shutil.rmtree(d, ignore_errors=True)
    os.makedirs(d)
    open(os.path.join(d, "g.lalrpop"), "w").write(text)
    code, out = fsrun.run_lalrpop(lal, ["-f"] + list(extra_args) + ["g.lalrpop"], d)
    rs = os.path.join(d, "g.rs")
    if code == 0 and os.path.exists(rs):
        return "ok", rs, out
    if "panicked" in out or code not in (0, 1):
        return "panic", rs, out
    return "error", rs, out
