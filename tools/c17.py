"""C17 — action and lexer errors are returned verbatim and stop the parse."""
import time
import vlib, gram, lrengine, lrcheck

PROP = "C17"


def judge(case, d):
    tid, items, orc, meta = case
    k = meta.get("err_at")
    if k is not None and d["pulled"] > k:
        it = items[k]
        want = {"e": "User", "error": it[1]} if it[0] == "u" else {"e": "InvalidToken", "loc": it[1]}
        if d["kind"] != "err" or d["err"] != want:
            return ("stream-error-not-verbatim", "the token stream yields Err at item %d, the parser read it but returned something else" % k)
        if d["pulled"] != k + 1:
            return ("read-past-stream-error", "the parser pulled %d items although item %d is Err" % (d["pulled"], k))
        if d["log"][-1] != -(k + 1):
            return ("event-after-stream-error", "an action ran after the failing token was read")
    fails = [i for i, x in enumerate(d["log"]) if x >= 1000000]
    if fails:
        i = fails[0]
        p = d["log"][i] - 1000000
        es = {o[2] for o in orc if o[0] == p}
        if d["kind"] != "err" or d["err"].get("e") != "User" or d["err"]["error"] not in es:
            return ("action-error-not-verbatim", "action of production %d returned Err but parse returned something else" % p)
        if i != len(d["log"]) - 1:
            return ("event-after-action-error", "a token was read or an action ran after a failing action")
    return None


def run(tier):
    t0 = time.time()
    rep = vlib.Reporter(PROP)
    nobl, ndis, names = vlib.proof_obligations(PROP, rep)
    r = vlib.rng(17)
    gs = gram.corpus()
    nrand = 6 if tier == "quick" else 40
    gs += [gram.random_grammar(r, i, recovery=(i % 2 == 0), fallible=True) for i in range(nrand)]
    c = lrcheck.prepare(gs, modes=("lane", "lalr") if tier == "quick" else ("lane", "lr1", "lalr"))
    per = 10 if tier == "quick" else 40
    cases, dist = [], {"stream_err": 0, "action_err": 0, "both": 0, "sentence": 0, "mutated": 0}
    for e in c.ok:
        g, t = e["g"], e["t"]
        if not g.reduced(e["start"]):
            continue
        for n in range(per):
            w = g.random_sentence(r, e["start"], depth=r.randint(1, 6))
            if r.random() < 0.5:
                w = lrengine.mutate(g, w, r); dist["mutated"] += 1
            else:
                dist["sentence"] += 1
            items = lrengine.tok_items(g, t, w, r)
            meta, orc = {}, []
            kind = n % 3
            if kind in (0, 2) or not t["fallible"]:
                k = r.randint(0, len(items))
                items = items[:k] + [("u", r.randint(1, 99)) if r.random() < 0.7 else ("i", r.randint(0, 50))] + items[k:]
                meta["err_at"] = k
                dist["stream_err"] += 1
            if kind in (1, 2) and t["fallible"]:
                for _ in range(r.randint(1, 2)):
                    ids = [it[2] for it in items if it[0] == "k"] + [0]
                    orc.append((r.choice(t["fallible"]), r.choice(ids), r.randint(100, 199)))
                orc = list({(o[0], o[1]): o for o in orc}.values())
                dist["action_err"] += 1
            cases.append((e["tid"], items, orc, meta))
    # recovery grammars with fallible actions: every short token string x every single failing action instance
    # (a fallible action may run inside recovery's own reductions, with or without a pending lookahead)
    nexh = 0
    for e in c.ok:
        g, t = e["g"], e["t"]
        if g.name.startswith("rnd") or not (g.recovery and t["fallible"]) or not g.reduced(e["start"]):
            continue
        tn = {x: i for i, x in enumerate(t["tnames"])}
        for w in lrcheck.short_strings(g, 3 if tier == "quick" else 4, cap=(90 if tier == "quick" else 400)):
            items = [("k", tn['"%s"' % wd], i + 1, 2 * i + 1, 2 * i + 2) for i, wd in enumerate(w)]
            for p in t["fallible"]:
                for tid_ in [it[2] for it in items]:
                    cases.append((e["tid"], items, [(p, tid_, 100 + p)], {})); nexh += 1
    dist["exhaustive_recovery_action_errors"] = nexh
    dec, nbad = lrcheck.correspond(PROP, rep, c, cases, judge, "c17")
    reached = sum(1 for (tid, items, orc, meta), d in zip(cases, dec)
                  if (meta.get("err_at") is not None and d["pulled"] > meta["err_at"]) or any(x >= 1000000 for x in d["log"]))
    in_recovery = sum(1 for d in dec if any(x >= 1000000 for x in d["log"]) and d["kind"] == "err")
    distinct = len({(x[0], tuple(x[1]), tuple(x[2])) for x, d in zip(cases, dec)
                    if (x[3].get("err_at") is not None and d["pulled"] > x[3]["err_at"]) or any(v >= 1000000 for v in d["log"])})
    cov = {"obligations": nobl + len(cases), "discharged": ndis + len(cases) - nbad,
           "checker_cmd": "make -C coq; coqc Props/C17.v; coqc .cache/cases/c17/cases*.v (vm_compute of `chk`)",
           "trusted_base": vlib.TRUSTED_COMMON + ["tools/lrtab.py (reads the emitted tables)", "harness/src/bin/drv.rs (ParserDefinition glue mirroring parse_table.rs output; runs the real Parser::drive)"],
           "theorems": names, "evaluations": len(cases), "distinct_nontrivial": distinct,
           "rule": "corpus + random grammars (with `!` and `=>?`), x {lane, lalr[, lr1]} tables read from lalrpop's output; sentences and "
                   "1-step mutations with an Err item injected at a random position and/or an oracle making a fallible action fail at a chosen "
                   "token; non-trivial = the run actually reaches the injected error / failing action",
           "distribution": dict(dist, tables=len(c.ok), reached=reached, rejected_grammars=len(c.other)),
           "samples": [dict(lrcheck.case_desc(c, x), implementation=d) for x, d in list(zip(cases, dec))[:2]]}
    for s in cov["samples"]:
        s.pop("grammar_text", None)
    vlib.write_evidence(PROP, tier, "proof", cov, time.time() - t0, violations=len(rep.viol),
                        assumptions=["generated __reduce/__accepts glue as mirrored in harness/drv.rs (its text is pinned by tools/lrtab.py anchors; compiled parsers are exercised by the cgbatch tier)",
                                     "user actions are modelled by an oracle on (production, children)"])
    return rep.finish()


def replay(path):
    import json
    print(json.dumps(json.load(open(path)), indent=1)[:3000]); return run("quick")
