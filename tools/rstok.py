"""A small Rust lexer: source text -> list of tokens, with comments and whitespace dropped.
Handles line/block(nested) comments, string / raw string / byte string / char literals, lifetimes,
identifiers, numbers; every other character is a single-character punctuation token."""


def tokens(src):
    out, i, n = [], 0, len(src)
    while i < n:
        c = src[i]
        if c.isspace():
            i += 1
        elif src.startswith("//", i):
            j = src.find("\n", i)
            i = n if j < 0 else j
        elif src.startswith("/*", i):
            depth, i = 1, i + 2
            while i < n and depth:
                if src.startswith("/*", i):
                    depth += 1; i += 2
                elif src.startswith("*/", i):
                    depth -= 1; i += 2
                else:
                    i += 1
        elif c == '"' or (c in "b" and src.startswith('b"', i)):
            j = i + (2 if c == "b" else 1)
            while j < n and src[j] != '"':
                j += 2 if src[j] == "\\" else 1
            out.append(src[i:j + 1]); i = j + 1
        elif c == "r" and _raw_start(src, i) or (c == "b" and src.startswith("br", i) and _raw_start(src, i + 1)):
            k = i + (1 if c == "r" else 2)
            h = 0
            while src[k] == "#":
                h += 1; k += 1
            end = src.find('"' + "#" * h, k + 1)
            out.append(src[i:end + 1 + h]); i = end + 1 + h
        elif c == "'":
            # char literal or lifetime
            if i + 2 < n and src[i + 1] == "\\":
                j = src.find("'", i + 2)
                out.append(src[i:j + 1]); i = j + 1
            elif i + 2 < n and src[i + 2] == "'":
                out.append(src[i:i + 3]); i += 3
            else:
                j = i + 1
                while j < n and (src[j].isalnum() or src[j] == "_"):
                    j += 1
                out.append(src[i:j]); i = j
        elif c.isalpha() or c == "_":
            j = i
            while j < n and (src[j].isalnum() or src[j] == "_"):
                j += 1
            out.append(src[i:j]); i = j
        elif c.isdigit():
            j = i
            while j < n and (src[j].isalnum() or src[j] in "._"):
                if src[j] == "." and not (j + 1 < n and src[j + 1].isdigit()):
                    break
                j += 1
            out.append(src[i:j]); i = j
        else:
            out.append(c); i += 1
    return out


def _raw_start(src, i):
    k = i + 1
    while k < len(src) and src[k] == "#":
        k += 1
    return k < len(src) and src[k] == '"' and (k > i + 1 or True) and (src[i] == "r")
