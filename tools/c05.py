"""C05 — expected-token lists name only tokens that could actually continue the input."""
import time
import vlib, gram, lrengine, lrcheck, c04

PROP = "C05"


def make_judge(c):
    def judge(case, d):
        tid, items, orc, meta = case
        e = c.ok[int(tid[1:])]
        g = e["g"]
        if d["kind"] != "err" or d["err"]["e"] not in ("UnrecognizedToken", "UnrecognizedEof"):
            return None
        exp = d["err"]["expected"]
        w = lrcheck.words_of(items, e["t"])
        n = d["pulled"] - 1 if d["err"]["e"] == "UnrecognizedToken" else len(w)
        prefix = w[:n]
        if None in prefix:
            return None
        if len(set(exp)) != len(exp):
            return ("duplicate-expected", "the expected list contains duplicates: %r" % exp)
        if any(x >= len(e["t"]["terminals"]) for x in exp):
            return ("error-terminal-expected", "the expected list names the error pseudo-terminal")
        conts = g.continuations(e["start"], prefix)
        if conts is None:
            return None  # the consumed prefix itself is not viable: C04's business
        names = [e["t"]["tnames"][x].strip('"') for x in exp]
        extra = [x for x in names if x not in conts]
        if extra:
            return ("non-viable-expected", "expected lists %r but after the consumed prefix %r only %r can follow" % (extra, prefix, sorted(conts)))
        if e["mode"] == "lr1" and set(names) != conts:
            return ("incomplete-expected-lr1", "canonical LR(1): expected %r, valid continuations %r" % (names, sorted(conts)))
        return None
    return judge


def run(tier):
    t0 = time.time()
    rep = vlib.Reporter(PROP)
    nobl, ndis, names = vlib.proof_obligations(PROP, rep)
    r = vlib.rng(5)
    gs = [g for g in gram.corpus() if not g.recovery]
    nrand = 14 if tier == "quick" else 150
    gs += [gram.random_grammar(r, i) for i in range(nrand)]
    gs += [gram.nonlalr_family(r, i) for i in range(4 if tier == "quick" else 40)]
    gs += [gram.nonlalr_matrix(r, i) for i in range(10 if tier == "quick" else 120)]
    c = lrcheck.prepare(gs)
    cobl, cdis, failing = lrcheck.certify(PROP, rep, c, parts=("valid", "productive"), name="c05cert")
    cases = c04.gen_cases(c, r, 12 if tier == "quick" else 40)
    nbad = 0
    # recovery grammars: the lists reported inside ErrorRecovery values and when recovery fails (taken at the
    # stack where the token was rejected, before the reductions on `!`); decided by the model correspondence
    # and by the structural clauses, on all short token strings
    gr = [g for g in gram.corpus() if g.recovery]
    c2 = lrcheck.prepare(gr, modes=("lane", "lr1") if tier == "quick" else ("lane", "lr1", "lalr"))
    cobl2, cdis2, failing2 = lrcheck.certify(PROP, rep, c2, parts=("shape", "exact", "terminates"), name="c05rcert")
    cases2 = []
    for e in c2.ok:
        g = e["g"]
        if e["start"] not in g.min_height():
            continue
        tn = {x: i for i, x in enumerate(e["t"]["tnames"])}
        for w in lrcheck.short_strings(g, 3 if tier == "quick" else 5, cap=(160 if tier == "quick" else 4000)):
            items, pos = [], 1
            for i, wd in enumerate(w):
                items.append(("k", tn['"%s"' % wd], i + 1, pos, pos + 1)); pos += 2
            cases2.append((e["tid"], items, [], {}))

    def judge2(case, d):
        lists = []
        if d["kind"] == "err" and "expected" in d.get("err", {}):
            lists.append(d["err"]["expected"])

        def walk(t):
            if "err" in t and "expected" in t["err"]:
                lists.append(t["err"]["expected"])
            for k in t.get("kids", []):
                walk(k)
        if d["kind"] == "ok":
            walk(d["tree"])
        e = c2.ok[int(case[0][1:])]
        for exp in lists:
            if len(set(exp)) != len(exp):
                return ("duplicate-expected", "an expected list contains duplicates: %r" % exp)
            if any(x >= len(e["t"]["terminals"]) for x in exp):
                return ("error-terminal-expected", "an expected list names the error pseudo-terminal")
        return None
    dec2, nbad2 = lrcheck.correspond(PROP, rep, c2, cases2, judge2, "c05r")
    lrcheck.report_cert_failures(PROP, rep, c2, failing2, bool(rep.viol), judge2, r)
    cobl += cobl2; cdis += cdis2; nbad += nbad2
    dec, nbad0 = lrcheck.correspond(PROP, rep, c, cases, make_judge(c), "c05"); nbad += nbad0
    lrcheck.report_cert_failures(PROP, rep, c, failing, bool(rep.viol), make_judge(c), r)
    errs = [(x, d) for x, d in zip(cases, dec) if d["kind"] == "err" and "expected" in d["err"]]
    reduced_first = 0
    distinct = len({(x[0], tuple(i[1] for i in x[1])) for x, d in errs if len(d["err"]["expected"]) >= 1})
    cov = {"obligations": nobl + cobl + len(cases) + len(cases2), "discharged": ndis + cdis + len(cases) + len(cases2) - nbad,
           "checker_cmd": "make -C coq; coqc Props/C05.v; coqc .cache/cases/c05cert/*.v; coqc .cache/cases/c05/*.v",
           "trusted_base": vlib.TRUSTED_COMMON + ["tools/lrtab.py", "harness/src/bin/drv.rs", "tools/gram.py Earley oracle (judge only)"],
           "theorems": names, "certificates": {"checked": cobl, "valid": cdis},
           "evaluations": len(cases) + len(cases2), "distinct_nontrivial": distinct,
           "rule": "recovery corpus grammars x all token strings up to length 3 (quick) / 5 (thorough): every expected list in the result (final error, error nodes) vs the model, no duplicates, never the error terminal; and, without recovery, as C04 (rejected inputs incl. unknown tokens); non-trivial = an error with a non-empty expected list, distinct by (table, terminal string)",
           "distribution": {"errors_with_expected": len(errs), "tables": len(c.ok), "recovery_tables": len(c2.ok), "recovery_inputs": len(cases2),
                            "expected_sizes": {str(k): sum(1 for _, d in errs if len(d["err"]["expected"]) == k) for k in range(0, 8)}},
           "samples": [dict(lrcheck.case_desc(c, x), implementation=d) for x, d in errs[:2]]}
    for s in cov["samples"]:
        s.pop("grammar_text", None)
    vlib.write_evidence(PROP, tier, "proof", cov, time.time() - t0, violations=len(rep.viol),
                        assumptions=["recursive-ascent back end: compiled-parser tier only (known finding: ascent lists are over-broad)"])
    return rep.finish()


def replay(path):
    import json
    print(json.dumps(json.load(open(path)), indent=1)[:3000]); return run("quick")
