"""C05 — expected-token lists name only tokens that could actually continue the input."""
import time
import vlib, gram, lrengine, lrcheck, c04, cgb, cgcheck

PROP = "C05"


def make_judge(c):
    def judge(case, d):
        tid, items, orc, meta = case
        e = c.ok[int(tid[1:])]
        g = e["g"]
        if d["kind"] != "err" or d["err"]["e"] not in ("UnrecognizedToken", "UnrecognizedEof"):
            return None
        exp = d["err"]["expected"]
        w = lrcheck.words_of(items, e["t"])
        n = d["pulled"] - 1 if d["err"]["e"] == "UnrecognizedToken" else len(w)
        prefix = w[:n]
        if None in prefix:
            return None
        if len(set(exp)) != len(exp):
            return ("duplicate-expected", "the expected list contains duplicates: %r" % exp)
        if any(x >= len(e["t"]["terminals"]) for x in exp):
            return ("error-terminal-expected", "the expected list names the error pseudo-terminal")
        conts = g.continuations(e["start"], prefix)
        if conts is None:
            return None  # the consumed prefix itself is not viable: C04's business
        names = [e["t"]["tnames"][x].strip('"') for x in exp]
        extra = [x for x in names if x not in conts]
        if extra:
            return ("non-viable-expected", "expected lists %r but after the consumed prefix %r only %r can follow" % (extra, prefix, sorted(conts)))
        if e["mode"] == "lr1" and set(names) != conts:
            return ("incomplete-expected-lr1", "canonical LR(1): expected %r, valid continuations %r" % (names, sorted(conts)))
        return None
    return judge


def lalr_bin(c):
    return c.lalrpop


def run(tier):
    t0 = time.time()
    rep = vlib.Reporter(PROP)
    nobl, ndis, names = vlib.proof_obligations(PROP, rep)
    r = vlib.rng(5)
    gs = [g for g in gram.corpus() if not g.recovery]
    nrand = 14 if tier == "quick" else 150
    gs += [gram.random_grammar(r, i) for i in range(nrand)]
    gs += [gram.nonlalr_family(r, i) for i in range(4 if tier == "quick" else 40)]
    gs += [gram.nonlalr_matrix(r, i) for i in range(10 if tier == "quick" else 120)]
    c = lrcheck.prepare(gs)
    cobl, cdis, failing = lrcheck.certify(PROP, rep, c, parts=("valid", "productive"), name="c05cert")
    cases = c04.gen_cases(c, r, 12 if tier == "quick" else 40)
    nbad = 0
    # recovery grammars: the lists reported inside ErrorRecovery values and when recovery fails (taken at the
    # stack where the token was rejected, before the reductions on `!`); decided by the model correspondence
    # and by the structural clauses, on all short token strings
    gr = [g for g in gram.corpus() if g.recovery]
    c2 = lrcheck.prepare(gr, modes=("lane", "lr1") if tier == "quick" else ("lane", "lr1", "lalr"))
    cobl2, cdis2, failing2 = lrcheck.certify(PROP, rep, c2, parts=("shape", "exact", "terminates"), name="c05rcert")
    cases2 = []
    for e in c2.ok:
        g = e["g"]
        if e["start"] not in g.min_height():
            continue
        tn = {x: i for i, x in enumerate(e["t"]["tnames"])}
        for w in lrcheck.short_strings(g, 3 if tier == "quick" else 4, cap=(160 if tier == "quick" else 700)):
            items, pos = [], 1
            for i, wd in enumerate(w):
                items.append(("k", tn['"%s"' % wd], i + 1, pos, pos + 1)); pos += 2
            cases2.append((e["tid"], items, [], {}))

    def judge2(case, d):
        lists = []
        if d["kind"] == "err" and "expected" in d.get("err", {}):
            lists.append(d["err"]["expected"])

        def walk(t):
            if "err" in t and "expected" in t["err"]:
                lists.append(t["err"]["expected"])
            for k in t.get("kids", []):
                walk(k)
        if d["kind"] == "ok":
            walk(d["tree"])
        e = c2.ok[int(case[0][1:])]
        for exp in lists:
            if len(set(exp)) != len(exp):
                return ("duplicate-expected", "an expected list contains duplicates: %r" % exp)
            if any(x >= len(e["t"]["terminals"]) for x in exp):
                return ("error-terminal-expected", "an expected list names the error pseudo-terminal")
        return None
    dec2, nbad2 = lrcheck.correspond(PROP, rep, c2, cases2, judge2, "c05r")
    lrcheck.report_cert_failures(PROP, rep, c2, failing2, bool(rep.viol), judge2, r)
    cobl += cobl2; cdis += cdis2; nbad += nbad2
    dec, nbad0 = lrcheck.correspond(PROP, rep, c, cases, make_judge(c), "c05"); nbad += nbad0
    lrcheck.report_cert_failures(PROP, rep, c, failing, bool(rep.viol), make_judge(c), r)
    # recursive-ascent back end: the compiled parsers' lists judged directly (soundness clause)
    asc = {"grammars": 0, "errors": 0, "over_broad": 0}
    ga = [g for g in gram.corpus() if not g.recovery and g.name.startswith("nonlalr")][:3]
    # the shape on which the defect of the recursive-ascent generator shows (known_findings.txt): a state
    # shared by two contexts reports, at end of input, what either context would accept
    ga.append(gram.G("asc_shared", ["a", "b", "c", "d", "e", "f", "x"], {
        "S": [["a", "X", "d"], ["b", "X", "c"], ["a", "Y", "c"], ["b", "Y", "d"]],
        "X": [["e", "Z"]], "Y": [["f", "Z"]], "Z": [["x"]]}))
    ga += [gram.nonlalr_family(r, 900 + i) for i in range(2 if tier == "quick" else 12)]
    ga += [g for g in gram.corpus() if not g.recovery and len(g.nts) <= 4][:4]
    okb, outb, binary, units = cgcheck.build_corpus(rep, lalr_bin(c), ga, variants=("a",))
    if not okb:
        raise vlib.BuildBroken("compiled recursive-ascent parsers do not build: " + outb[-1500:])
    acases, ameta = [], []
    for u in units:
        g = u["g"]; asc["grammars"] += 1
        for st in g.pubs:
            if not g.reduced(st):
                continue
            for n, w in enumerate(lrcheck.gen_words(g, st, r, 8 if tier == "quick" else 30)):
                for cut in range(0, len(w) + 1):
                    pre = list(w[:cut])
                    items = lrengine.tok_items(g, {"tnames": ['"%s"' % t for t in g.terms]}, pre, r)
                    acases.append((u["name"], st, items, None, [])); ameta.append((g, st, pre))
    ares = cgb.run(binary, acases) if acases else []
    for (g, st, pre), d in zip(ameta, ares):
        if d["kind"] != "err" or d["err"]["e"] not in ("UnrecognizedToken", "UnrecognizedEof"):
            continue
        asc["errors"] += 1
        npre = len(pre) if d["err"]["e"] == "UnrecognizedEof" else None
        if npre is None:
            continue   # token errors: the position is C04's business; the list is judged at end-of-input errors
        conts = g.continuations(st, pre)
        if conts is None:
            continue
        names = [x.strip('"') for x in d["err"]["expected"]]
        extra = [x for x in names if x not in conts]
        if extra:
            asc["over_broad"] += 1
            rep.violation("ascent-expected-not-viable", {"what": "the recursive-ascent parser lists %r as expected after %r although only %r can follow" % (extra, pre, sorted(conts)),
                          "grammar_text": g.render(ascent=True), "tokens": pre, "expected": names, "valid_continuations": sorted(conts)})
    errs = [(x, d) for x, d in zip(cases, dec) if d["kind"] == "err" and "expected" in d["err"]]
    reduced_first = 0
    distinct = len({(x[0], tuple(i[1] for i in x[1])) for x, d in errs if len(d["err"]["expected"]) >= 1})
    cov = {"obligations": nobl + cobl + len(cases) + len(cases2), "discharged": ndis + cdis + len(cases) + len(cases2) - nbad,
           "checker_cmd": "make -C coq; coqc Props/C05.v; coqc .cache/cases/c05cert/*.v; coqc .cache/cases/c05/*.v",
           "trusted_base": vlib.TRUSTED_COMMON + ["tools/lrtab.py", "harness/src/bin/drv.rs", "tools/gram.py Earley oracle (judge only)"],
           "theorems": names, "certificates": {"checked": cobl, "valid": cdis},
           "evaluations": len(cases) + len(cases2), "distinct_nontrivial": distinct,
           "rule": "recovery corpus grammars x all token strings up to length 3 (quick) / 4 (thorough): every expected list in the result (final error, error nodes) vs the model, no duplicates, never the error terminal; and, without recovery, as C04 (rejected inputs incl. unknown tokens); non-trivial = an error with a non-empty expected list, distinct by (table, terminal string)",
           "distribution": {"errors_with_expected": len(errs), "tables": len(c.ok), "recovery_tables": len(c2.ok), "recovery_inputs": len(cases2), "recursive_ascent": asc,
                            "expected_sizes": {str(k): sum(1 for _, d in errs if len(d["err"]["expected"]) == k) for k in range(0, 8)}},
           "samples": [dict(lrcheck.case_desc(c, x), implementation=d) for x, d in errs[:2]]}
    for s in cov["samples"]:
        s.pop("grammar_text", None)
    vlib.write_evidence(PROP, tier, "proof", cov, time.time() - t0, violations=len(rep.viol),
                        assumptions=["recursive-ascent back end: compiled-parser tier only (known finding: ascent lists are over-broad)"])
    return rep.finish()


def replay(path):
    import json
    print(json.dumps(json.load(open(path)), indent=1)[:3000]); return run("quick")
