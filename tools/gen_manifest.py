#!/usr/bin/env python3
"""Writes MANIFEST.json from the table below (kept in one place so that it stays valid)."""
import json, os
ROOT = os.path.dirname(os.path.dirname(os.path.abspath(__file__)))
props = [json.loads(l) for l in open(os.path.join(ROOT, "properties.jsonl"))]

CLAIMED = {
 "C28": dict(cat="proof", technique="Coq theorems over a transliterated Gallina model + in-Coq (vm_compute) correspondence with the real lalrpop_util::ParseError",
   text="Full: the ParseError helper functions are transliterated to Gallina (Rt/ParseError.v); Props/C28.v proves for all values, all closures and expected lists of any length that map_location/map_token/map_error change exactly their own fields (incl. FnMut call count/order), the Display forms and the 'Expected one of a, b or c' list form, From<E>. The model is tied to lalrpop-util/src/lib.rs on every run by evaluating it inside Coq on exhaustive small domains plus random values against the outputs of the real functions.",
   ref="DESIGN.md §4 C28", note="Trusted: Coq kernel + vm_compute; harness perr.rs; Display impls of L/T/E abstracted as functions; fmt::Write assumed infallible. No axioms (Print Assumptions: closed)."),
 "C17": dict(cat="proof", technique="Coq invariant proof over a line-by-line Gallina model of state_machine.rs (any tables) + in-Coq correspondence with the real Parser::drive on tables read from lalrpop's output",
   text="Full for the table-driven back end: LR/Driver.v models Parser::{drive,parse,parse_eof,error_recovery,accepts,next_token} and the generated __reduce/__accepts; Props/C17.v proves for ALL tables, oracles, inputs and fuel that a stream Err(e) that is reached is returned verbatim, is the last item pulled and the last event, and that a failing =>? action (in ordinary reduces, at EOF, or inside error recovery's reductions) ends the run with exactly User{e} as the last event. Tie: the real Parser::drive is run over tables translated from freshly generated parsers (lane/LALR/LR1) with injected stream errors and failing-action oracles and compared inside Coq (vm_compute) with the model; the statement is also judged directly on every implementation output. Recursive-ascent back end and the Result->User conversion of __ToTriple are covered by the compiled-parser tier only.",
   ref="DESIGN.md §4 C17", note="Trusted: Coq kernel + vm_compute; tools/lrtab.py reading literals; harness/drv.rs glue mirroring generated __reduce; user actions abstracted as an oracle. No axioms."),
 "C01": dict(cat="proof", technique="verified validator (Coq: soundness + completeness of the LR driver for every table/certificate pair passing `valid`) + per-run kernel-checked certificates for the tables lalrpop generates + in-Coq correspondence of the driver model with the real Parser::drive",
   text="Table-driven back end, all three construction algorithms: Props/C01.v proves for ALL tables A and certificates C with `valid A C = true` (no recovery) and ALL token sequences that the driver model returns Ok exactly on the yields of derivation trees of the start symbol, returns that tree, and that such grammars are unambiguous (big-step completeness by induction on trees, soundness by a stack invariant; no bound on input length). Per run: lalrpop is rebuilt from /repo, run on corpus + random grammars in lane/LR1/LALR modes, the emitted tables are translated and `shape/complete/exact/start_eof_only` are checked by the kernel (vm_compute); the real Parser::drive is run over the same tables and compared inside Coq with the model; membership is judged independently by an Earley recogniser. Partial: grammars per run are a finite corpus (the lane-table/LALR constructions themselves are not verified for all grammars); the recursive-ascent generator is covered only through compiled parsers; recovery grammars only via C16.",
   ref="DESIGN.md §4 C01", note="Trusted: Coq kernel + vm_compute; tools/lrtab.py (reads literals + production comments); harness/drv.rs glue; certificate generator untrusted. No axioms."),
 "C02": dict(cat="proof", technique="Coq stack-invariant proof (trace of actions = post-order of the returned tree; tree = derivation of the input) on validated tables + in-Coq correspondence with the real driver",
   text="Props/C02.v: for all validated tables and all inputs, the user actions that ran, in order, are exactly the post-order traversal of the unique derivation tree (each node once), each action's children are its production's symbols left to right, and the leaves are the input tokens. Tied per run like C01; the statement is also judged directly on every implementation output. Partial: what a *missing* action denotes (default actions, <>, tuple patterns) lives in normalize/lower and is exercised by the compiled-parser tier, not by a theorem yet.",
   ref="DESIGN.md §4 C02", note="Trusted: as C01; user action code abstracted to tree construction. No axioms."),
 "C04": dict(cat="proof", technique="Coq invariant proofs on the driver model (error token = token reached, nothing read beyond it, EOF error position, no ExtraToken on validated tables) + kernel-checked validator certificates + in-Coq correspondence; first-non-viable-token clause decided per input by an Earley oracle",
   text="Partial, stated as such in Props/C04.v: proved for all tables/inputs (no recovery): UnrecognizedToken carries exactly the input token at the position reached with its own span and exactly the tokens up to it were pulled; UnrecognizedEof only after the whole input, at the end of the last token (0 for empty input); and for all validated tables ExtraToken is never returned. NOT yet a theorem: that the reported token is the FIRST one that cannot continue a sentence (viable-prefix invariant + completeness + locality); that clause is decided on every explored input by an independent Earley recogniser, on tables freshly generated in lane/LR1/LALR modes, and `valid`+`productive` are kernel-checked for those tables.",
   ref="DESIGN.md §4 C04", note="Trusted: as C01 + Earley oracle in tools/gram.py for the first-error clause. No axioms."),
 "C05": dict(cat="proof", technique="Coq proofs on the driver model (expected list = accepts-filter of the terminal table: no duplicates, never the error terminal) + kernel-checked certificates + in-Coq correspondence; viability of each listed terminal decided per input by an Earley oracle",
   text="Partial: Props/C05.v proves for all tables (no recovery) that every reported expected list is duplicate-free, names only terminals below |__TERMINAL| (never the error pseudo-terminal) and is exactly the set of terminals on which the accepts simulation succeeds on the current stack. NOT yet a theorem: that each listed terminal is a viable continuation, and completeness for canonical LR(1); both are decided per explored input by an Earley oracle (incl. unknown-token inputs). Known finding (recursive ascent over-broad lists) is outside this check until the compiled-parser tier lands.",
   ref="DESIGN.md §4 C05", note="Trusted: as C04. No axioms."),
 "C08": dict(cat="proof", technique="Coq proof that the driver model never reaches a panic site on validated tables (stack invariant + state-level walk for accepts) + kernel-checked `terminates` certificates (closed reduce sequences, replacement chains) + in-Coq correspondence incl. corrupted tables",
   text="Partial: Props/C08.v proves for all validated tables (no recovery), all inputs, oracles and budgets, that the parser and the accepts simulation never hit any of the panic sites (indexing, unwrap, underflow, symbol type mismatch, explicit panics). Termination: the validator's `terminates` condition (every closed reduce sequence ends within the certificate's fuel, replacement chains end) is kernel-checked for every generated table, and every run on generated tables must return within a step budget; the lemma lifting `terminates` to a step bound for the whole parse (DESIGN Appendix E) is not ported to this model yet. Recovery paths and corrupted tables are covered by the correspondence (model Panic/out-of-fuel <-> implementation panic/budget). The built-in lexer part of the property is not covered by this check yet.",
   ref="DESIGN.md §4 C08", note="Trusted: as C01; step budget of the harness (3e5 table lookups). No axioms."),
 "C16": dict(cat="proof", technique="Coq completeness theorem (sentences are parsed without recovery, tree has no error node) + line-by-line Gallina model of Parser::error_recovery compared inside Coq with the real runtime + direct judgement of every recovered tree",
   text="Partial: Props/C16.v proves for all validated tables (with or without `!`) that an input derivable without `!` is parsed to exactly its derivation tree, which has no error node (no recovery at all). The tree/coverage/ordering clauses for recovered parses are not theorems yet: they are decided on every explored input directly (tree is a derivation reading error nodes as `!`; leaves a subsequence; every other token inside exactly one error span; spans ordered/disjoint; dropped lists in order), on grammars with `!` at several depths incl. `!` followed by nullable symbols, and the model of error_recovery is tied to the real code by in-Coq evaluation.",
   ref="DESIGN.md §4 C16", note="Trusted: as C01. No axioms."),
}
NOT_YET = "check not built yet in this round (see DESIGN.md §9 staging); not claimed until its check runs clean"

checks, na = [], []
for p in props:
    i = p["id"]
    if i in CLAIMED:
        c = CLAIMED[i]
        checks.append({"property_id": i, "quick_cmd": "./check %s --tier quick" % i,
                       "thorough_cmd": "./check %s --tier thorough" % i,
                       "evidence_file": "evidence/%s.json" % i,
                       "replay_cmd_template": "./check %s --replay {path}" % i,
                       "engine": c.get("engine", "coq+harness"),
                       "level_claimed": {"category": c["cat"], "text": c["text"], "design_ref": c["ref"]},
                       "level_note": c["note"], "technique": c["technique"]})
    else:
        na.append({"property_id": i, "reason": NOT_YET})
m = {"version": 1, "setup_cmd": "./setup.sh",
     "hooks": {"guard": "lalrpop_verif", "enable": "RUSTFLAGS=\"--cfg lalrpop_verif\" (set by tools/vlib.py cargo_env for every build of /repo and the harness)",
               "baseline_off_cmd": "cd /repo && cargo test --workspace --no-fail-fast --offline",
               "source_commits": [], "add_only": True},
     "engines": [{"name": "coq+harness", "path": "coq/ tools/ harness/", "serves_properties": sorted(CLAIMED),
                  "kind_free_text": "Coq 8.16 development (models, theorems, validators) + Rust harness running the real code + Python drivers; model evaluated inside Coq by vm_compute for the correspondence"}],
     "checks": checks, "not_applicable": na,
     "notes": "Machine-checked proof in Coq; see DESIGN.md. Evidence is rewritten by every run of ./check <ID>."}
json.dump(m, open(os.path.join(ROOT, "MANIFEST.json"), "w"), indent=1)
print("claimed:", sorted(CLAIMED))
