"""C18 — lalrpop never panics: every grammar text yields a parser or a diagnostic.
Theorems (Props/C18.v): the contracts between validation and the passes that `expect` on it, on the
models that are tied to the code by other checks (precedence expansion: C12; inline order: C14).
Tie / search, on every run: the real CLI (and Configuration::process_file through the API harness) on
  * near-valid texts: token-level mutations of the repository's own grammars and of generated grammars
    (precedence layouts incl. invalid ones, cfg attributes, macros with conditions, inline cycles,
    match blocks and regex terminals),
  * arbitrary bytes (random, truncated files, invalid UTF-8, very long lines, deep nesting).
Every run must end within the time limit with exit status 0 (and an output file) or 1 (and no panic
message).  A panic is reported with the panic site as key."""
import os, re, time, json, glob, hashlib, subprocess, concurrent.futures as cf
import vlib, fsrun, c12

PROP = "C18"
TOK = re.compile(r'''r#*"(?:[^"\\]|\\.)*"#*|"(?:[^"\\]|\\.)*"|'(?:[^'\\]|\\.)'|=>\??|[A-Za-z_][A-Za-z0-9_]*|\d+|\s+|.''', re.S)

SNIPPETS = ['#[inline]', '#[precedence(level="1")]', '#[precedence(level="0")]', '#[assoc(side="left")]', '#[assoc(side="none")]', '#[assoc(side="bogus")]',
            '#[precedence(level="x")]', '#[precedence]', '#[assoc]', '#[cfg(feature = "a")]', '#[cfg(not(feature = "a"))]', '#[cfg()]', '#[LALR]', '#[recursive_ascent]',
            'pub', 'match', 'else', 'extern', 'enum', 'type', 'if', '==', '!=', '~~', '!~', '<>', '@L', '@R', '!', '?', '*', '+', '=>', '=>?', '=>@L', '=>@R',
            '<', '>', '(', ')', '{', '}', '[', ']', ',', ';', ':', '::', "'a", '&', 'dyn', 'r"a*"', 'r"("', 'r"\\p{Greek}"', 'r"(?=a)"', '"a"', '""', '_',
            '=>@L', '=>@R', '<(a, b):', '<((a, b), c):', '#[cfg(feature = "x")]', '#[cfg(not(feature = "x"))]', 'grammar;', 'grammar(x: u32);', 'grammar<T>;', 'use std::str::FromStr;', 'Vec<<>>', 'Comma<T>', 'Foo<"a", "b">', '"a" => "b"', 'r"[" => ID', '=> ();']

EXTRA = [
    'grammar;\n#[inline] A: () = B;\n#[inline] B: () = A;\npub S: () = A;\n',
    'grammar;\n#[inline] pub A: () = "a" A;\n',
    'grammar;\nM<X>: () = { X if X == "a" => (), X X if X != "a" => (), };\npub S: () = { M<"a">, M<"b"> };\n',
    'grammar;\nM<X>: () = { X if X ~~ "a" => () };\npub S: () = M<"b">;\n',
    'grammar;\nM<X>: () = M<M<X>>;\npub S: () = M<"a">;\n',
    'grammar;\nmatch { "a", r"[a-z]" } else { r"." , _ }\npub S: () = "a";\n',
    'grammar;\nextern { type Location = usize; enum Tok { "a" => Tok::A((<u32>, <u32>)), "b" => (a, b) } }\npub S: () = "a" "b";\n',
    'grammar;\npub S: (u32, u32) = { <a:"x"> <b:"y"> => (1, 2), ("x" "y") "z" => (3, 4) };\n',
    'grammar;\npub E: u32 = { #[precedence(level="1")] "x" => 1, #[assoc(side="left")] <l:E> "+" <r:E> => l + r };\n',
    'grammar;\npub E: u32 = { #[precedence(level="1")] #[precedence(level="2")] "x" => 1, #[precedence(level="2")] #[assoc(side="left")] #[assoc(side="right")] <l:E> "+" <r:E> => l + r };\n',
    'grammar;\npub S: &\'static str = { "a" => r"\\", "b" => r#"a"b"#, "c" => "\\"" , "d" => \'"\' .to_string().leak() };\n',
    'grammar;\npub S: () = { "a" => { let _ = \'{\'; let _ = "}"; /* } */ // }\n } };\n',
    'grammar;\npub S: () = <>;\n', 'grammar;\npub S = "a"+ "a"* "a"?;\n', 'grammar;\npub S: () = S;\n', 'grammar;\nS: () = "a";\n', 'grammar;\n', '', '\n\n',
    'grammar;\npub E: i32 = {\n    #[cfg(feature = "x")] #[precedence(level="0")] "n" => 0,\n    #[precedence(level="1")] #[assoc(side="left")] <l:E> "+" <r:E> => l + r,\n    #[precedence(level="2")] "m" => 1,\n};\n',
    'grammar;\npub F: (i32, i32) = { <(a, b): F> "x" => (a, b), "y" => (1, 2) };\n',
    'grammar;\nextern { enum Tok { "a" => Tok::A } }\npub E = { "a" =>@L };\n',
    'grammar;\nextern { type Location = usize; enum Tok { #[cfg(feature = "q")] "a" => Tok::A(<i64>), #[cfg(not(feature = "q"))] "a" => Tok::B(<i32>) } }\npub E: () = "a" => ();\n',
    'grammar;\npub G: ((i32, i32), i32) = { <((a, b), c): G> "x" => ((a, b), c), <(a, b): H> => ((a, b), 0) };\nH: (i32, i32) = "y" => (1, 2);\n',
    'grammar;\npub S: () = !;\n', 'grammar;\npub S: () = { ! => (), "a" ! "b" => () };\n',
    'grammar;\npub S: Vec<u32> = (<N> ",")* ;\nN: u32 = r"[0-9]+" => <>.parse().unwrap();\n',
]


def mutate(text, r):
    toks = TOK.findall(text)
    if not toks:
        return r.choice(SNIPPETS)
    n = r.choice([1, 1, 1, 2, 3])
    for _ in range(n):
        k = r.random()
        i = r.randrange(len(toks))
        if k < 0.2:
            del toks[i]
        elif k < 0.35:
            toks.insert(i, toks[r.randrange(len(toks))])
        elif k < 0.6:
            toks.insert(i, " " + r.choice(SNIPPETS) + " ")
        elif k < 0.7 and len(toks) > 1:
            j = r.randrange(len(toks)); toks[i], toks[j] = toks[j], toks[i]
        elif k < 0.8:
            toks[i] = r.choice(SNIPPETS)
        elif k < 0.86:
            toks = toks[:i]
        elif k < 0.92:
            toks[i] = toks[i][:max(0, len(toks[i]) - 1)]          # break a string/regex/identifier
        else:
            toks.insert(i, r.choice(["\x00", "\xff", "é", " ", "\t", "\r", "𝒳", "'", '"', "\\", "/*", "//", "r#\""]))
        if not toks:
            break
    return "".join(toks)


def raw_bytes(r):
    k = r.random()
    if k < 0.3:
        return bytes(r.randrange(256) for _ in range(r.randint(0, 200)))
    if k < 0.5:
        return ("grammar;\npub S: () = " + "(" * r.randint(50, 3000) + '"a"' + ")" * r.randint(0, 3000) + ";\n").encode()
    if k < 0.65:
        return b"grammar;\npub S: () = \"" + b"a" * r.randint(1000, 100000) + b"\";\n"
    if k < 0.8:
        return ("grammar;\n" + "".join("N%d: () = N%d;\n" % (i, i + 1) for i in range(r.randint(10, 400))) + "pub S: () = N0;\n").encode()
    return b"grammar;\npub S: () = \xff\xfe \"a\";\n"


def sites(out):
    m = re.findall(r"panicked at ([^\n:]+:\d+)", out)
    return m or ["unknown-site"]


def one(args):
    lal, d, idx, data = args
    dd = os.path.join(d, "c%d" % idx)
    os.makedirs(dd, exist_ok=True)
    with open(os.path.join(dd, "a.lalrpop"), "wb") as w:
        w.write(data)
    t0 = time.time()
    try:
        # 120 s of CPU time (not wall time: the machine may be loaded); the wall limit is only a backstop
        p = subprocess.run(["bash", "-c", 'ulimit -t 120; exec "$0" -f a.lalrpop', lal], cwd=dd, stdout=subprocess.PIPE, stderr=subprocess.STDOUT, timeout=3000)
        code, out = p.returncode, p.stdout.decode("utf-8", "replace")
        if code in (-24, -9, 128 + 24):
            code, out = "timeout", ""
    except subprocess.TimeoutExpired:
        code, out = "timeout", ""
    has_rs = os.path.exists(os.path.join(dd, "a.rs"))
    for f in os.listdir(dd):
        os.remove(os.path.join(dd, f))
    os.rmdir(dd)
    return code, out[-1500:], has_rs, time.time() - t0


def run(tier):
    t0 = time.time()
    rep = vlib.Reporter(PROP)
    nobl, ndis, names = vlib.proof_obligations(PROP, rep)
    r = vlib.rng(18)
    lal = vlib.build_lalrpop()
    api = vlib.build_harness("apirun")
    seeds = []
    for f in sorted(glob.glob(os.path.join(vlib.REPO, "lalrpop-test/src/*.lalrpop")) + glob.glob(os.path.join(vlib.REPO, "doc/*/src/*.lalrpop")) +
                    glob.glob(os.path.join(vlib.REPO, "doc/*/*/src/*.lalrpop")) + [os.path.join(vlib.REPO, "lalrpop/src/parser/lrgrammar.lalrpop")]):
        try:
            t = open(f, encoding="utf-8").read()
        except Exception:
            continue
        if len(t) < 6000:
            seeds.append(t)
    seeds += EXTRA
    seeds += [c12.gen_layout(r, i, invalid=(i % 3 == 0)).render() for i in range(12)]
    n_mut = 300 if tier == "quick" else 12000
    n_raw = 40 if tier == "quick" else 600
    inputs = [(s.encode("utf-8", "surrogatepass"), "seed") for s in EXTRA]
    for i in range(n_mut):
        s = mutate(r.choice(seeds), r)
        inputs.append((s.encode("utf-8", "replace"), "mutant"))
    for i in range(n_raw):
        inputs.append((raw_bytes(r), "raw"))
    d = fsrun.fresh_dir("c18")
    with cf.ThreadPoolExecutor(max_workers=vlib.NPROC) as ex:
        res = list(ex.map(one, [(lal, d, i, data) for i, (data, kind) in enumerate(inputs)]))
    dist = {"accepted": 0, "diagnosed": 0, "panicked": 0, "timeout": 0, "other_exit": 0, "seed": 0, "mutant": 0, "raw": 0}
    nbad = 0
    seen = set()
    slow = 0.0
    for (data, kind), (code, out, has_rs, dt) in zip(inputs, res):
        dist[kind] += 1
        slow = max(slow, dt)
        text = data.decode("utf-8", "replace")
        if code == "timeout":
            dist["timeout"] += 1; key = "hang"
            what = "lalrpop did not finish within 120 s of CPU time"
        elif "panicked at" in out or code == 101 or (isinstance(code, int) and code < 0):
            dist["panicked"] += 1
            key = "panic:" + sites(out)[0].replace(vlib.REPO + "/", "")
            what = "lalrpop panicked (exit %s): %s" % (code, out[-400:])
        elif code == 0 and has_rs:
            dist["accepted"] += 1; continue
        elif code == 1 and not has_rs:
            dist["diagnosed"] += 1; continue
        else:
            dist["other_exit"] += 1
            key = "exit-%s-output-%s" % (code, has_rs)
            what = "lalrpop ended with exit status %s and %s output file: neither a parser nor a diagnostic" % (code, "an" if has_rs else "no")
        nbad += 0 if key in rep.known else 1
        if key in seen:
            continue
        seen.add(key)
        rep.violation(key, {"what": what, "kind": kind, "grammar_text": text[:6000], "grammar_hex": data[:3000].hex() if kind == "raw" else None,
                            "replay": "write grammar_text to a.lalrpop; lalrpop -f a.lalrpop"})
    # the library entry point: Err, never a panic
    napi = 0
    for (data, kind) in inputs[: (60 if tier == "quick" else 600)]:
        dd = fsrun.fresh_dir("c18api")
        open(os.path.join(dd, "a.lalrpop"), "wb").write(data)
        p = vlib.sh([api, "process_file:a.lalrpop", "force=1"], cwd=dd, check=False, timeout=1800)
        napi += 1
        if "PANIC" in p.stdout or p.returncode not in (0, 1):
            key = "api-panic"
            nbad += 0 if key in rep.known else 1
            if key not in seen:
                seen.add(key)
                rep.violation(key, {"what": "Configuration::process_file panicked instead of returning Err", "grammar_text": data.decode("utf-8", "replace")[:6000], "output": p.stdout[-600:]})
    ncase = len(inputs) + napi
    cov = {"obligations": nobl + ncase, "discharged": ndis + ncase - nbad,
           "checker_cmd": "make -C coq; coqc Props/C18.v; lalrpop -f on mutated/raw grammar texts (16 parallel); harness apirun process_file",
           "trusted_base": vlib.TRUSTED_COMMON + ["exit status and panic message of the real binary", "120 s of CPU time (RLIMIT_CPU) as the meaning of `hangs`"],
           "theorems": names, "evaluations": ncase, "distinct_nontrivial": len({hashlib.sha1(d_).hexdigest() for d_, _ in inputs}),
           "rule": "token-level mutations (delete/duplicate/insert snippet/swap/replace/truncate/break a literal/insert odd characters; 1-3 per text) of %d seed grammars "
                   "(repository test and doc grammars, generated precedence layouts, hand-written edge cases: inline cycles, macro conditions, match blocks, tuple patterns, raw strings), "
                   "plus raw byte strings (random, invalid UTF-8, deep nesting, long literals, long chains)" % len(seeds),
           "distribution": dict(dist, slowest_s=round(slow, 2), api_runs=napi), "samples": [{"mutant": inputs[len(EXTRA)][0].decode("utf-8", "replace")[:400]}]}
    vlib.write_evidence(PROP, tier, "proof", cov, time.time() - t0, violations=len(rep.viol),
                        assumptions=["absence of panics on ALL texts is not a theorem: the theorems cover the validation/expansion contracts of the modelled passes; the rest is search",
                                     "stack overflow on deeply nested input counts as a crash (negative exit status)"])
    return rep.finish()


def replay(path):
    print(json.dumps(json.load(open(path)), indent=1)[:4000])
    return run("quick")
