"""C26 — grammar layout is insignificant and embedded Rust is transferred verbatim.
Theorems (Props/C26.v): on the model of the action-code scanner (Tok/CodeScan.v) -- string literals,
raw strings, nested block comments are skipped exactly; balanced plain code ends at the first top-level
terminator.
Tie, on every run:
  A. layout: generated grammars (precedence layouts, macro grammars, lexer grammars with action code)
     are re-laid-out (whitespace, line and nested block comments inserted between tokens, removable
     whitespace removed): lalrpop's verdict and the Rust token stream of the output must not change;
  B. code: action snippets built from nested delimiters, string / raw string / char / byte literals
     holding delimiters and quotes, lifetimes, raw identifiers and comments: (1) the scanner model
     (vm_compute) must stop exactly at the end of the snippet, (2) lalrpop must copy the snippet into
     the generated module unchanged, (3) the compiled parser must return the value the snippet denotes."""
import os, re, time, json, hashlib
import vlib, sgb, rstok, c12, c13

PROP = "C26"

TOK = re.compile(r'''r#*"(?:[^"\\]|\\.)*?"#*|"(?:[^"\\]|\\.)*"|'(?:[^'\\]|\\.)'|=>\??|::|->|==|!=|~~|!~|\.\.|[A-Za-z_][A-Za-z0-9_]*|'[a-z]+\b|\d+|@[LR]|\s+|.''', re.S)
FILL = [" ", "\n", "\t", "   ", " // note ,;}\n", " /* c */ ", " /* a /* nested } */ b */ ", "\n\n", " //\n"]


def relayout(text, r):
    toks = [t for t in TOK.findall(text)]
    out = []
    for i, t in enumerate(toks):
        if t.isspace():
            prev = out[-1] if out else ""
            nxt = toks[i + 1] if i + 1 < len(toks) else ""
            removable = prev[-1:] in ",;(){}[]<>" or nxt[:1] in ",;(){}[]"
            k = r.random()
            if removable and k < 0.3 and "\n" not in t:
                continue                      # remove the whitespace
            out.append(t if k < 0.6 else r.choice(FILL))
        else:
            out.append(t)
            if r.random() < 0.12 and t not in ("#", "!", "=", "<", ">", "-", "&", "'", ".", ":", "|", "~", "r") and not (i + 1 < len(toks) and toks[i + 1] in ("<", "!", "(")  and re.match(r"\w", t)):
                out.append(r.choice(FILL))
    return "".join(out)


def rust_tokens_of(path):
    src = open(path).read().split("\n", 2)[2]
    return rstok.tokens(src)


# ---------------------------------------------------------------- B: code snippets

def gen_piece(r, depth=2):
    """-> (rust expression text of type String, python value)"""
    k = r.random()
    if k < 0.2:
        body = "".join(r.choice(["a", " ", "}", "{", ",", ";", "(", ")", "[", "]", "'", "/*", "//", "*/", "é", "r#", "=>"]) for _ in range(r.randint(0, 5)))
        esc = body.replace("\\", "\\\\").replace('"', '\\"')
        extra = r.choice(["", '\\"', "\\\\", "\\n", "\\u{7d}", "\\'"])
        val = body + {"": "", '\\"': '"', "\\\\": "\\", "\\n": "\n", "\\u{7d}": "}", "\\'": "'"}[extra]
        return '"%s%s".to_string()' % (esc, extra), val
    if k < 0.38:
        n = r.randint(0, 3)
        body = "".join(r.choice(["a", "}", "{", ",", ";", "\\", "'", "/*", "(", "#"] + (['"'] if n > 0 else []) + (['"#'] if n > 1 else [])) for _ in range(r.randint(0, 5)))
        # a raw string ends at the first quote followed by n hashes: keep that out of the body
        while ('"' + "#" * n) in body + ("" if n else ""):
            body = body.replace('"' + "#" * n, "q")
        if body.endswith('"'):
            body += "z"
        return 'r%s"%s"%s.to_string()' % ("#" * n, body, "#" * n), body
    if k < 0.55:
        c, v = r.choice([("'}'", "}"), ("'{'", "{"), ("','", ","), ("';'", ";"), ("'\\''", "'"), ("'\"'", '"'), ("'\\\\'", "\\"), ("'('", "("), ("'\\u{7d}'", "}"), ("'é'", "é"), ("'\\n'", "\n"), ("(b'}' as char)", "}"), ("'r'", "r"), ("'/'", "/")])
        return "%s.to_string()" % c, v
    if k < 0.63:
        return "{ fn f<'a>(x: &'a str) -> &'a str { x } f(\"q\").to_string() }", "q"
    if k < 0.7:
        return "{ let r#type = [1, 2, 3]; r#type[(0 + 1)].to_string() }", "2"
    if k < 0.78:
        return "{ /* } , ; */ let v = vec![(1, 2), (3, 4)]; // }\n v[1].0.to_string() }", "3"
    if k < 0.84:
        return "{ let r = 7; let t = (r, 1); /* /* nested , */ ; */ (t.0 / t.1).to_string() }", "7"
    if depth > 0:
        a, va = gen_piece(r, depth - 1)
        b, vb = gen_piece(r, depth - 1)
        form = r.choice(["format!(\"{}{}\", %s, %s)", "[%s, %s].concat()", "{ let (x, y) = (%s, %s); x + &y }", "match (%s, %s) { (a, b) => { let mut s = a; s.push_str(&b); s } }"])
        return form % (a, b), va + vb
    return '"k".to_string()', "k"


def coq_text(s):
    return "[%s]%%N" % "; ".join(str(ord(c)) for c in s)


def run(tier):
    t0 = time.time()
    rep = vlib.Reporter(PROP)
    nobl, ndis, names = vlib.proof_obligations(PROP, rep)
    r = vlib.rng(26)
    lal = vlib.build_lalrpop()
    ncase = nbad = 0
    dist = {"layout_pairs": 0, "layout_both_ok": 0, "snippets": 0, "model_checks": 0, "values_checked": 0}

    def bad(key, obj):
        nonlocal nbad
        nbad += 1
        if nbad <= 3:
            rep.violation(key, obj)
    # ---------------- A: layout
    texts = [c12.gen_layout(r, 900 + i).render() for i in range(4 if tier == "quick" else 40)]
    texts += [c13.gen_grammar(r, 900 + i).render() for i in range(4 if tier == "quick" else 40)]
    texts += ['grammar;\npub P: Vec<&\'input str> = { <mut v:P> <w:W> => { v.push(w); v }, => Vec::new() };\nW: &\'input str = { r"[a-z]+", r"[0-9]+(\\.[0-9]+)?", "if", "else" };\n',
              'grammar;\nmatch { "let", "=" , ";" } else { r"[a-z]+" => ID, r"[0-9]+" => NUM } else { r"\\s+" => { }, r"#[^\\n]*" => { } , _ }\npub P: Vec<(String, String)> = { <mut v:P> "let" <i:ID> "=" <e:E> ";" => { v.push((i.to_string(), e)); v }, => vec![] };\nE: String = { ID => <>.to_string(), NUM => <>.to_string() };\n']
    for i, text in enumerate(texts):
        for k in range(2 if tier == "quick" else 4):
            alt = relayout(text, r)
            if alt == text:
                continue
            ncase += 1
            dist["layout_pairs"] += 1
            s1, rs1, o1 = sgb.generate(lal, "c26_l%d_a" % i, text)
            s2, rs2, o2 = sgb.generate(lal, "c26_l%d_b" % i, alt)
            if s1 == "panic" or s2 == "panic":
                bad("panicked", {"what": "lalrpop panicked", "grammar_text": alt if s2 == "panic" else text, "output": (o2 if s2 == "panic" else o1)[-600:]}); continue
            if s1 != s2:
                bad("layout-changes-verdict", {"what": "lalrpop says %s for the grammar and %s after inserting/removing whitespace and comments between tokens" % (s1, s2),
                                               "grammar_text": text, "relaid_grammar_text": alt, "output": o2[-800:]}); continue
            if s1 != "ok":
                continue
            dist["layout_both_ok"] += 1
            if rust_tokens_of(rs1) != rust_tokens_of(rs2):
                bad("layout-changes-output", {"what": "the generated parser (as a Rust token stream) changes when whitespace and comments are inserted/removed between the tokens of the grammar",
                                              "grammar_text": text, "relaid_grammar_text": alt})
    # ---------------- B: code
    nsn = 40 if tier == "quick" else 400
    pieces = [gen_piece(r) for _ in range(nsn)]
    # (1) model: the scanner must stop exactly at the terminator that follows the snippet
    checks = []
    for code, val in pieces:
        term = r.choice([",", ";", "}", ")", "]"])
        tail = term + r.choice(["", " x", "\n};"])
        checks.append("match scan %s with Stop n => Nat.eqb n %d | _ => false end" % (coq_text(code + tail), len(code)))
    hdr = "From Coq Require Import List NArith Arith.\nFrom LV Require Import Tok.CodeScan.\nImport ListNotations.\nDefinition chk (b : bool) : bool := b.\n"
    badm = vlib.coq_eval_cases("c26", hdr, ["chk (%s)" % c for c in checks], shard_size=200)
    dist["model_checks"] = len(checks)
    ncase += len(checks)
    for i in badm[:2]:
        bad("model-scanner-stops-elsewhere", {"what": "the scanner model does not stop at the end of this snippet", "snippet": pieces[i][0], "coq_check": checks[i]})
    nbad += max(0, len(badm) - 2)
    # (2)+(3) real lalrpop + rustc: batches of snippets as alternatives of one grammar
    units, gmeta = [], []
    per = 8
    for b in range(0, len(pieces), per):
        chunk = pieces[b:b + per]
        alts = []
        for j, (code, val) in enumerate(chunk):
            alts.append('    "k%d" => %s,' % (j, code))
        text = "grammar;\npub S: String = {\n%s\n};\n" % "\n".join(alts)
        name = "c26_s%d" % (b // per)
        st, rs, out = sgb.generate(lal, name, text)
        ncase += 1
        if st != "ok":
            bad("snippet-grammar-rejected", {"what": "lalrpop rejects a grammar whose action code is valid Rust (%s)" % st, "grammar_text": text, "output": out[-800:]}); continue
        gen = open(rs).read()
        for j, (code, val) in enumerate(chunk):
            ncase += 1
            dist["snippets"] += 1
            if code not in gen:
                bad("code-not-transferred-verbatim", {"what": "the action code does not appear unchanged in the generated module", "snippet": code, "grammar_text": text})
        units.append({"name": name, "rs": rs, "parsers": ["S"]}); gmeta.append(chunk)
    if units:
        ok, out, binary = sgb.build(units)
        if not ok:
            bad("generated-code-does-not-compile", {"what": "rustc rejects a module generated from valid action code (the code was cut at the wrong place?)", "rustc": "\n".join(l for l in out.split("\n") if "error" in l or "-->" in l)[:2500]})
        else:
            cases = [(u["name"], "S", "k%d" % j) for u, chunk in zip(units, gmeta) for j in range(len(chunk))]
            res = sgb.run(binary, cases)
            vals = [v for chunk in gmeta for (_, v) in chunk]
            codes = [c for chunk in gmeta for (c, _) in chunk]
            for (m, p, s), o, v, c in zip(cases, res, vals, codes):
                ncase += 1
                dist["values_checked"] += 1
                want = "OK " + json.dumps(v, ensure_ascii=False)
                # Rust Debug of String vs JSON: compare after decoding both
                got = o
                if o.startswith("OK "):
                    try:
                        got = "OK " + json.dumps(eval_rust_debug(o[3:]), ensure_ascii=False)
                    except Exception:
                        pass
                if got != want:
                    bad("wrong-value-from-action-code", {"what": "the action code evaluates to %s, the snippet denotes %s" % (got[:200], want[:200]), "snippet": c})
    cov = {"obligations": nobl + ncase, "discharged": ndis + ncase - nbad,
           "checker_cmd": "make -C coq; coqc Props/C26.v; coqc .cache/cases/c26/*.v (vm_compute scan); lalrpop on re-laid-out grammars; lalrpop + rustc + run on action snippets",
           "trusted_base": vlib.TRUSTED_COMMON + ["tools/rstok.py Rust lexer (token streams)", "tools/c26.py re-layout at token boundaries and snippet values", "rustc; harness/sgb"],
           "theorems": names, "evaluations": ncase, "distinct_nontrivial": dist["layout_both_ok"] + dist["snippets"],
           "rule": "A: precedence layouts, macro grammars and lexer grammars re-laid-out (spaces, newlines, tabs, //-comments with terminators inside, nested block comments inserted; removable whitespace removed); "
                   "B: snippets composed of string literals with escapes and delimiters, raw strings with 0-3 hashes holding quotes/hashes/delimiters, char and byte literals of delimiters and quotes, lifetimes, raw identifiers, comments with terminators, nested delimiters, 1-2 levels of composition",
           "distribution": dist, "samples": [{"snippet": pieces[0][0], "value": pieces[0][1]}]}
    vlib.write_evidence(PROP, tier, "proof", cov, time.time() - t0, violations=len(rep.viol),
                        assumptions=["`use` items, type annotations and #![..] attributes are covered only through the corpus grammars' headers", "positions are counted in characters in the model, bytes in the implementation (irrelevant for where the scan stops)"])
    return rep.finish()


def eval_rust_debug(s):
    """Rust {:?} of a String -> python str"""
    assert s[0] == '"' and s[-1] == '"'
    out, i, body = [], 0, s[1:-1]
    while i < len(body):
        c = body[i]
        if c == "\\":
            n = body[i + 1]
            if n == "u":
                j = body.index("}", i)
                out.append(chr(int(body[i + 3:j], 16))); i = j + 1; continue
            out.append({"n": "\n", "t": "\t", "r": "\r", "\\": "\\", '"': '"', "'": "'", "0": "\0"}[n]); i += 2; continue
        out.append(c); i += 1
    return "".join(out)


def replay(path):
    print(json.dumps(json.load(open(path)), indent=1)[:4000])
    return run("quick")
