"""Regular-expression ASTs for the lexer checks: random generation, rendering to Rust regex syntax,
to python `re` (independent oracle for judgements), and to the Coq `re` over UTF-8 bytes."""
import re as pyre

WS = [(0x09, 0x0D), (0x20, 0x20), (0x85, 0x85), (0xA0, 0xA0), (0x1680, 0x1680), (0x2000, 0x200A),
      (0x2028, 0x2029), (0x202F, 0x202F), (0x205F, 0x205F), (0x3000, 0x3000)]

# AST: ("lit", str) ("cls", [(lo,hi)], neg) ("cat", [..]) ("alt", [..]) ("star", x) ("plus", x) ("opt", x) ("rep", x, m, n)


def esc_char(c, in_class=False):
    o = ord(c)
    if c in "\\^$.|?*+()[]{}-&~#" or (c == " " ) or o < 0x20 or o == 0x7f:
        if o < 0x80:
            return "\\x%02X" % o if (o < 0x20 or o == 0x7f or c == " " or c == "#") else "\\" + c
    return c


def to_rust(a):
    k = a[0]
    if k == "lit":
        return "".join(esc_char(c) for c in a[1])
    if k == "cls" and a[2] and list(a[1]) == [(10, 10)]:
        return "."                      # DOT: any character except line feed
    if k == "cls":
        body = "".join((cp_esc(lo) if lo == hi else cp_esc(lo) + "-" + cp_esc(hi)) for lo, hi in a[1])
        return "[" + ("^" if a[2] else "") + body + "]"
    if k == "cat":
        return "".join(grp(x) if x[0] == "alt" else to_rust(x) for x in a[1])
    if k == "alt":
        return "|".join(to_rust(x) for x in a[1])
    if k in ("star", "plus", "opt"):
        return atom(a[1]) + {"star": "*", "plus": "+", "opt": "?"}[k]
    if k == "rep":
        return atom(a[1]) + "{%d,%d}" % (a[2], a[3])
    raise ValueError(a)


def cp_esc(cp):
    return "\\x{%X}" % cp


def grp(x):
    return "(?:" + to_rust(x) + ")"


def atom(x):
    if x[0] == "cls" or (x[0] == "lit" and len(x[1]) == 1):
        return to_rust(x)
    return grp(x)


def to_py(a):
    """python re pattern (str, matched against str); same language on valid UTF-8 text"""
    k = a[0]
    if k == "lit":
        return pyre.escape(a[1])
    if k == "cls":
        body = "".join((pcp(lo) if lo == hi else pcp(lo) + "-" + pcp(hi)) for lo, hi in a[1])
        return "[" + ("^" if a[2] else "") + body + "]"
    if k == "cat":
        return "".join("(?:" + to_py(x) + ")" for x in a[1])
    if k == "alt":
        return "|".join("(?:" + to_py(x) + ")" for x in a[1])
    if k in ("star", "plus", "opt"):
        return "(?:" + to_py(a[1]) + ")" + {"star": "*", "plus": "+", "opt": "?"}[k]
    if k == "rep":
        return "(?:" + to_py(a[1]) + "){%d,%d}" % (a[2], a[3])


def pcp(cp):
    return "\\U%08X" % cp


# ---------------------------------------------------------------- UTF-8 byte-level expansion

def enc(cp):
    return list(chr(cp).encode("utf-8"))


def utf8_seqs(lo, hi):
    """code point range -> list of sequences of byte ranges (surrogates removed)"""
    out = []
    for a, b in [(lo, min(hi, 0xD7FF)), (max(lo, 0xE000), hi)]:
        if a > b:
            continue
        for (l2, h2) in [(0, 0x7F), (0x80, 0x7FF), (0x800, 0xFFFF), (0x10000, 0x10FFFF)]:
            x, y = max(a, l2), min(b, h2)
            if x <= y:
                out += _split(x, y)
    return out


def _split(lo, hi):
    n = len(enc(lo))
    for i in range(1, n):
        m = (1 << (6 * i)) - 1
        if (lo & ~m) != (hi & ~m):
            if (lo & m) != 0:
                return _split(lo, lo | m) + _split((lo | m) + 1, hi)
            if (hi & m) != m:
                return _split(lo, (hi & ~m) - 1) + _split(hi & ~m, hi)
    return [list(zip(enc(lo), enc(hi)))]


def norm_ranges(rs, neg):
    rs = sorted(rs)
    if not neg:
        return rs
    out, cur = [], 0
    for lo, hi in rs:
        if lo > cur:
            out.append((cur, lo - 1))
        cur = max(cur, hi + 1)
    if cur <= 0x10FFFF:
        out.append((cur, 0x10FFFF))
    return out


def to_coq(a):
    k = a[0]
    if k == "lit":
        bs = list(a[1].encode("utf-8"))
        return "(RLit [%s]%%N)" % "; ".join(map(str, bs))
    if k == "cls":
        alts = []
        for lo, hi in norm_ranges(a[1], a[2]):
            for seq in utf8_seqs(lo, hi):
                alts.append("(RSeq [%s])" % "; ".join("RRange %d %d" % (x, y) for x, y in seq))
        return "(RAny [%s])" % "; ".join(alts)
    if k == "cat":
        return "(RSeq [%s])" % "; ".join(to_coq(x) for x in a[1])
    if k == "alt":
        return "(RAny [%s])" % "; ".join(to_coq(x) for x in a[1])
    if k == "star":
        return "(RStar %s)" % to_coq(a[1])
    if k == "plus":
        return "(RPlus %s)" % to_coq(a[1])
    if k == "opt":
        return "(ROpt %s)" % to_coq(a[1])
    if k == "rep":
        x = to_coq(a[1])
        return "(RCat (RRep %d %s) (RRep %d (ROpt %s)))" % (a[2], x, a[3] - a[2], x)


WS_AST = ("plus", ("cls", WS, False))

# ---------------------------------------------------------------- generation

ALPHA = "abcxyz01+-=<>(){};, _é√"


def rand_regex(r, depth=2):
    k = r.random()
    if depth == 0 or k < 0.3:
        return ("lit", "".join(r.choice(ALPHA) for _ in range(r.randint(1, 3))))
    if k < 0.5:
        rs = []
        for _ in range(r.randint(1, 3)):
            lo = r.choice([ord("a"), ord("0"), ord("x"), ord("A"), 0xE0, 0x3B1, ord(" "), 0x2200])
            rs.append((lo, lo + r.choice([0, 2, 5, 25])))
        return ("cls", rs, r.random() < 0.1)
    if k < 0.65:
        return ("cat", [rand_regex(r, depth - 1) for _ in range(r.randint(2, 3))])
    if k < 0.75:
        return ("alt", [rand_regex(r, depth - 1) for _ in range(2)])
    if k < 0.95:
        return (r.choice(["star", "plus", "plus", "opt"]), rand_regex(r, depth - 1))
    m = r.randint(0, 2)
    return ("rep", rand_regex(r, depth - 1), m, m + r.randint(0, 2))


def nullable(a):
    k = a[0]
    if k == "lit":
        return a[1] == ""
    if k == "cls":
        return False
    if k == "cat":
        return all(nullable(x) for x in a[1])
    if k == "alt":
        return any(nullable(x) for x in a[1])
    if k in ("star", "opt"):
        return True
    if k == "plus":
        return nullable(a[1])
    if k == "rep":
        return a[2] == 0 or nullable(a[1])


def sample(a, r, depth=3):
    """a random string of the language"""
    k = a[0]
    if k == "lit":
        return a[1]
    if k == "cls":
        rs = norm_ranges(a[1], a[2])
        lo, hi = r.choice(rs)
        cp = r.randint(lo, min(hi, lo + 40))
        if 0xD800 <= cp <= 0xDFFF:
            cp = 0xE000
        return chr(cp)
    if k == "cat":
        return "".join(sample(x, r, depth) for x in a[1])
    if k == "alt":
        return sample(r.choice(a[1]), r, depth)
    if k == "star":
        return "".join(sample(a[1], r, depth - 1) for _ in range(r.randint(0, 2 if depth > 0 else 0)))
    if k == "plus":
        return "".join(sample(a[1], r, depth - 1) for _ in range(r.randint(1, 2 if depth > 0 else 1)))
    if k == "opt":
        return sample(a[1], r, depth) if r.random() < 0.5 else ""
    if k == "rep":
        return "".join(sample(a[1], r, depth - 1) for _ in range(r.randint(a[2], a[3])))


# ---------------------------------------------------------------- overlap oracle (python side)
# Brzozowski derivatives over code points with ACI-normalised smart constructors; untrusted: a
# witness it finds is re-checked inside Coq with matchb.

def _norm(a):
    k = a[0]
    if k == "lit":
        return ("E",) if a[1] == "" else _cat([("C", ((ord(c), ord(c)),)) for c in a[1]])
    if k == "cls":
        rs = tuple(norm_ranges(a[1], a[2]))
        return ("C", rs) if rs else ("0",)
    if k == "cat":
        return _cat([_norm(x) for x in a[1]])
    if k == "alt":
        return _alt([_norm(x) for x in a[1]])
    if k == "star":
        return _star(_norm(a[1]))
    if k == "plus":
        x = _norm(a[1]); return _cat([x, _star(x)])
    if k == "opt":
        return _alt([("E",), _norm(a[1])])
    if k == "rep":
        x = _norm(a[1])
        return _cat([x] * a[2] + [_alt([("E",), x])] * (a[3] - a[2]))


def _cat(xs):
    out = []
    for x in xs:
        if x == ("0",):
            return ("0",)
        if x == ("E",):
            continue
        if x[0] == "cat":
            out += list(x[1])
        else:
            out.append(x)
    if not out:
        return ("E",)
    return out[0] if len(out) == 1 else ("cat", tuple(out))


def _alt(xs):
    s = set()
    for x in xs:
        if x == ("0",):
            continue
        if x[0] == "alt":
            s |= set(x[1])
        else:
            s.add(x)
    if not s:
        return ("0",)
    l = sorted(s, key=repr)
    return l[0] if len(l) == 1 else ("alt", tuple(l))


def _star(x):
    if x in (("0",), ("E",)):
        return ("E",)
    return x if x[0] == "star" else ("star", x)


def _nullable(x):
    k = x[0]
    if k == "E" or k == "star":
        return True
    if k in ("0", "C"):
        return False
    if k == "cat":
        return all(_nullable(y) for y in x[1])
    return any(_nullable(y) for y in x[1])


def _deriv(c, x):
    k = x[0]
    if k in ("0", "E"):
        return ("0",)
    if k == "C":
        return ("E",) if any(lo <= c <= hi for lo, hi in x[1]) else ("0",)
    if k == "cat":
        head, tail = x[1][0], _cat(list(x[1][1:]))
        d = _cat([_deriv(c, head), tail])
        return _alt([d, _deriv(c, tail)]) if _nullable(head) else d
    if k == "alt":
        return _alt([_deriv(c, y) for y in x[1]])
    return _cat([_deriv(c, x[1]), x])


def _points(x, acc):
    k = x[0]
    if k == "C":
        for lo, hi in x[1]:
            acc.add(lo); acc.add(hi + 1)
    elif k in ("cat", "alt"):
        for y in x[1]:
            _points(y, acc)
    elif k == "star":
        _points(x[1], acc)


def overlap_witness(a, b, limit=4000, excl=()):
    """a shortest string matched by both ASTs (and by none of `excl`), or None if there is none;
    ('limit',) if undecided"""
    x, y = _norm(a), _norm(b)
    h = _alt([_norm(e) for e in excl]) if excl else ("0",)
    pts = set([0])
    _points(x, pts); _points(y, pts); _points(h, pts)
    x = (x, h)
    reps = sorted(p for p in pts if p <= 0x10FFFF and not (0xD800 <= p <= 0xDFFF))
    seen = {(x, y)}
    todo = [((x, y), "")]
    while todo:
        nxt = []
        for ((p, hh), q), w in todo:
            if _nullable(p) and _nullable(q) and not _nullable(hh):
                return w
            for c in reps:
                d = ((_deriv(c, p), _deriv(c, hh)), _deriv(c, q))
                if d[0][0] == ("0",) or d[1] == ("0",) or d in seen:
                    continue
                seen.add(d)
                if len(seen) > limit:
                    return ("limit",)
                nxt.append((d, w + chr(c)))
        todo = nxt
    return None
