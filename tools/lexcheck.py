"""Shared pieces of the lexer checks: run the real matcher (harness lexdrv), evaluate the Coq lexer
model on the same tables, judge a token stream against the property with python `re` as oracle."""
import re as pyre
import vlib, rx

COQ_HEADER = """From Coq Require Import List NArith Bool Arith.
From LV Require Import Lex.Regex Lex.LexModel.
Import ListNotations.
Fixpoint lr_eqb (a b : list lexres) : bool :=
  match a, b with
  | [], [] => true
  | LTok s i l :: a', LTok s' i' l' :: b' => Nat.eqb s s' && Nat.eqb i i' && Nat.eqb l l' && lr_eqb a' b'
  | LInvalid x :: a', LInvalid y :: b' => Nat.eqb x y && lr_eqb a' b'
  | LFuel :: a', LFuel :: b' => lr_eqb a' b'
  | _, _ => false
  end.
Definition chk (pats : list (re * bool)) (text : list N) (impl : list lexres) : bool :=
  lr_eqb (tokens pats (S (length text)) text 0) impl.
"""


def hexs(s):
    return "h" + s.encode("utf-8").hex()


def run_lexdrv(binary, tables, cases):
    """tables: {id: [(regex_string, skip)]}; cases: [(id, input str)] -> list of token lists"""
    L = []
    for tid, pats in tables.items():
        L.append("P %s %s\n" % (tid, " ".join("%d:%s" % (1 if sk else 0, hexs(s)) for s, sk in pats)))
    for tid, inp in cases:
        L.append("C %s %s\n" % (tid, hexs(inp)))
    p = vlib.sh([binary], input="".join(L), check=False, timeout=2400)
    if p.returncode != 0:
        raise vlib.BuildBroken("lexdrv failed: " + p.stdout[-1500:])
    out = p.stdout.rstrip("\n").split("\n") if cases else []
    if len(out) != len(cases):
        raise vlib.BuildBroken("lexdrv returned %d lines for %d cases" % (len(out), len(cases)))
    return [parse_stream(l) for l in out]


def parse_stream(line):
    toks = []
    for w in line.split():
        f = w.split(":")
        if f[0] == "t":
            toks.append(("t", int(f[1]), int(f[2]), int(f[3])))
        elif f[0] == "inv":
            toks.append(("inv", int(f[1])))
        else:
            toks.append((f[0],))
    return toks


def coq_stream(toks):
    out = []
    for t in toks:
        if t[0] == "t":
            out.append("LTok %d %d %d" % (t[1], t[2], t[3] - t[1]))
        elif t[0] == "inv":
            out.append("LInvalid %d" % t[1])
        elif t[0] == "loop":
            out.append("LFuel")
    return "[" + "; ".join(out) + "]"


def coq_pats(asts):
    return "[" + "; ".join("(%s, %s)" % (rx.to_coq(a), "true" if sk else "false") for a, sk in asts) + "]"


def coq_bytes(s):
    return "[" + "; ".join(str(b) for b in s.encode("utf-8")) + "]%N"


def judge(asts, inp, toks):
    """the property, with python re.fullmatch as the pattern oracle: longest match, largest index
    among equal-length matches (callers pass tables sorted by precedence), skip, byte spans, InvalidToken"""
    b = inp.encode("utf-8")
    comp = [pyre.compile(rx.to_py(a)) for a, _ in asts]
    pos, i = 0, 0
    steps = 0
    while True:
        steps += 1
        if steps > len(b) + 5:
            return ("lexer-does-not-progress", "the lexer keeps yielding tokens without consuming input")
        if pos == len(b):
            want = ("end",)
        else:
            best = None
            # candidate prefix ends on char boundaries
            rest = b[pos:].decode("utf-8")
            for L in range(len(rest), -1, -1):
                pre = rest[:L]
                ms = [j for j, c in enumerate(comp) if c.fullmatch(pre)]
                if ms:
                    best = (len(pre.encode("utf-8")), max(ms))
                    break
            if best is None:
                want = ("inv", pos)
            else:
                ln, idx = best
                if ln == 0:
                    # only the empty string matches here: the lexer must not yield empty tokens
                    # forever (C08), so this position is invalid
                    want = ("inv", pos)
                elif asts[idx][1]:
                    pos += ln
                    continue
                else:
                    want = ("t", pos, idx, pos + ln)
        if i >= len(toks):
            return ("stream-too-short", "expected %r at token %d but the stream ended" % (want, i))
        got = toks[i]
        if got != want:
            return ("wrong-token", "token %d is %r, expected %r (longest match / precedence / span / first invalid position)" % (i, got, want))
        if want[0] in ("end", "inv"):
            return None
        if want[3] == want[1]:
            return ("empty-token", "a zero-length token %r was yielded: the stream can never advance past it" % (want,))
        pos = want[3]
        i += 1
