"""Canonical LR(1) and LALR(1) constructions (textbook) used as the reference verdict for C03 and for
the failing-input search.  Untrusted python; when lalrpop ACCEPTS, correctness of what it emitted is
established by the Coq validator, not by this file."""

EOF_ = "$"


def analyse(g, start):
    rules = {nt: [a for a in alts if "!" not in a or True] for nt, alts in g.rules.items()}
    terms = set(g.terms) | {"!"}
    nullable, first = set(), {nt: set() for nt in rules}
    ch = True
    while ch:
        ch = False
        for nt, alts in rules.items():
            for a in alts:
                alln = True
                for s in a:
                    if s in terms:
                        if s not in first[nt]:
                            first[nt].add(s); ch = True
                        alln = False
                        break
                    new = first[s] - first[nt]
                    if new:
                        first[nt] |= new; ch = True
                    if s not in nullable:
                        alln = False
                        break
                if alln and nt not in nullable:
                    nullable.add(nt); ch = True

    def first_seq(seq, la):
        out = set()
        for s in seq:
            if s in terms:
                out.add(s); return out
            out |= first[s]
            if s not in nullable:
                return out
        out.add(la)
        return out
    return rules, terms, first_seq


def closure(items, rules, terms, first_seq):
    items = dict(items)
    todo = list(items.items())
    while todo:
        (nt, ai, d), las = todo.pop()
        a = rules[nt][ai] if nt != "__S" else None
        rhs = a if a is not None else None
        if nt == "__S":
            rhs = [ai]
            key_rules = None
        if d < len(rhs):
            s = rhs[d]
            if s in rules:
                for la in las:
                    for la2 in first_seq(rhs[d + 1:], la):
                        for j in range(len(rules[s])):
                            k = (s, j, 0)
                            cur = items.setdefault(k, set())
                            if la2 not in cur:
                                cur.add(la2); todo.append((k, {la2}))
    return items


def lr1_states(g, start):
    rules, terms, first_seq = analyse(g, start)
    # augmented item: ("__S", start, dot)
    def rhs_of(it):
        return [it[1]] if it[0] == "__S" else rules[it[0]][it[1]]
    init = closure({("__S", start, 0): {EOF_}}, rules, terms, first_seq)
    def freeze(items):
        return frozenset((k, frozenset(v)) for k, v in items.items())
    states = {freeze(init): 0}
    order = [init]
    trans = {}
    i = 0
    while i < len(order):
        st = order[i]
        by_sym = {}
        for it, las in st.items():
            r = rhs_of(it)
            if it[2] < len(r):
                by_sym.setdefault(r[it[2]], {})[(it[0], it[1], it[2] + 1)] = set(las)
        for s, kern in by_sym.items():
            nst = closure(kern, rules, terms, first_seq)
            f = freeze(nst)
            if f not in states:
                states[f] = len(order); order.append(nst)
                if len(order) > 4000:
                    return None, None, None
            trans[(i, s)] = states[f]
        i += 1
    return order, trans, (rules, terms, rhs_of)


def conflicts(states, rhs_of, terms):
    """list of (state index, lookahead, kinds)"""
    out = []
    for i, st in enumerate(states):
        acts = {}
        for it, las in st.items():
            r = rhs_of(it)
            if it[2] == len(r):
                for la in las:
                    acts.setdefault(la, set()).add(("r", it[0], it[1]))
            elif r[it[2]] in terms:
                acts.setdefault(r[it[2]], set()).add(("s",))
        for la, a in acts.items():
            if len(a) > 1:
                out.append((i, la, a))
    return out


def verdict_lr1(g, start):
    states, trans, aux = lr1_states(g, start)
    if states is None:
        return None
    rules, terms, rhs_of = aux
    return "conflict" if conflicts(states, rhs_of, terms) else "ok"


def verdict_lalr(g, start):
    states, trans, aux = lr1_states(g, start)
    if states is None:
        return None
    rules, terms, rhs_of = aux
    merged = {}
    for st in states:
        core = frozenset(st.keys())
        m = merged.setdefault(core, {})
        for it, las in st.items():
            m.setdefault(it, set()).update(las)
    return "conflict" if conflicts(list(merged.values()), rhs_of, terms) else "ok"
