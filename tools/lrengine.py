"""Engine A pipeline: grammars -> lalrpop (built from /repo's working tree) -> generated .rs ->
translated tables -> inputs -> real driver (harness drv) -> Coq correspondence terms."""
import hashlib, os, shutil, subprocess, concurrent.futures as cf
import vlib, lrtab, gram

MODES = {"lane": ({}, False), "lr1": ({"LALRPOP_LANE_TABLE": "disabled"}, False),
         "lalr": ({"LALRPOP_LANE_TABLE": "disabled"}, True)}


def file_hash(path):
    h = hashlib.sha1()
    h.update(open(path, "rb").read())
    return h.hexdigest()[:12]


def generate(lalrpop_bin, g, mode, ascent=False, workdir=None, extra_args=(), probes=0):
    """Run lalrpop on grammar g in the given construction mode; returns (status, rs_path, output).
    status: 'ok' | 'conflict' | 'error' | 'panic' | 'timeout'"""
    env, lalr = MODES[mode]
    text = g.render(lalr=lalr, ascent=ascent, probes=probes)
    key = hashlib.sha1((file_hash(lalrpop_bin) + mode + str(ascent) + text).encode()).hexdigest()[:16]
    d = workdir or os.path.join(vlib.CACHE, "lr", key)
    rs = os.path.join(d, "g.rs")
    st = os.path.join(d, "status")
    if os.path.exists(st):
        s = open(st).read().split("\n", 1)
        if s[0] not in ("error", "timeout"):      # those two are never trusted from the cache
            return s[0], rs, s[1] if len(s) > 1 else ""
    os.makedirs(d, exist_ok=True)
    with open(os.path.join(d, "g.lalrpop"), "w") as w:
        w.write(text)
    e = dict(os.environ)
    e.pop("LALRPOP_LANE_TABLE", None)
    e.update(env)
    try:
        p = subprocess.run([lalrpop_bin, "-f"] + list(extra_args) + ["g.lalrpop"], cwd=d, env=e, stdout=subprocess.PIPE,
                           stderr=subprocess.STDOUT, text=True, timeout=1200, errors="replace")
        out = p.stdout
        if p.returncode == 0 and os.path.exists(rs):
            status = "ok"
        elif "panicked" in out or p.returncode not in (0, 1):
            status = "panic"
        elif "onflict" in out or "mbiguous" in out or "ambiguity" in out or "Multiple productions for the same reduction" in out:
            status = "conflict"
        else:
            status = "error"
    except subprocess.TimeoutExpired:
        status, out = "timeout", ""
    with open(st, "w") as w:
        w.write(status + "\n" + out[-4000:])
    return status, rs, out


def tables_for(lalrpop_bin, grammars, modes=("lane", "lr1", "lalr")):
    """-> list of dict(g, mode, start, t) for every (grammar, mode, pub start) that lalrpop accepts,
    plus list of (g, mode, status, output) for the others."""
    jobs = [(g, m) for g in grammars for m in modes]
    ok, other = [], []
    with cf.ThreadPoolExecutor(max_workers=vlib.NPROC) as ex:
        res = list(ex.map(lambda gm: generate(lalrpop_bin, gm[0], gm[1]), jobs))
    for (g, m), (status, rs, out) in zip(jobs, res):
        if status != "ok":
            other.append((g, m, status, out))
            continue
        ts = lrtab.parse_rs(rs)
        for start, t in ts.items():
            ok.append({"g": g, "mode": m, "start": start, "t": t, "rs": rs})
    return ok, other


# ---------------------------------------------------------------- inputs

def tok_items(g, t, words, r, gaps=True, unknown_at=None):
    """words: list of terminal names -> list of item tuples ('k', idx, id, lo, hi) with gapped,
    strictly increasing locations."""
    tn = {n: i for i, n in enumerate(t["tnames"])}
    items, pos = [], r.randint(0, 3) if gaps else 0
    for i, wd in enumerate(words):
        lo = pos
        hi = lo + r.randint(0, 3) if gaps else lo + 1
        idx = tn['"%s"' % wd] if wd is not None else -1
        items.append(("k", idx, i + 1, lo, hi))
        pos = hi + (r.randint(0, 2) if gaps else 0)
    return items


def item_txt(it):
    if it[0] == "k":
        return "k:%d:%d:%d:%d" % it[1:]
    return "%s:%d" % (it[0], it[1])


def item_coq(it):
    if it[0] == "k":
        return "IOk (mk_tok (%d) %d (%d) (%d))" % it[1:]
    if it[0] == "u":
        return "IErr (PUser %d)" % it[1]
    return "IErr (PInvalid (%d))" % it[1]


def mutate(g, w, r):
    w = list(w)
    k = r.choice(["del", "ins", "sub", "swap", "trunc", "dup"])
    if k == "del" and w:
        del w[r.randrange(len(w))]
    elif k == "ins":
        w.insert(r.randint(0, len(w)), r.choice(g.terms))
    elif k == "sub" and w:
        w[r.randrange(len(w))] = r.choice(g.terms)
    elif k == "swap" and len(w) > 1:
        i = r.randrange(len(w) - 1); w[i], w[i + 1] = w[i + 1], w[i]
    elif k == "trunc" and w:
        w = w[:r.randrange(len(w))]
    elif k == "dup" and w:
        i = r.randrange(len(w)); w.insert(i, w[i])
    return w


def run_drv(drv_bin, tabs, cases, budget=2000000):
    """tabs: dict tid -> table; cases: list of (tid, items, oracle triples) -> list of output int lists"""
    L = [lrtab.to_drv(tid, t) for tid, t in tabs.items()]
    for tid, items, orc in cases:
        L.append("C %s %d %s | %s\n" % (tid, budget, " ".join(item_txt(i) for i in items),
                                       " ".join("%d:%d:%d" % o for o in orc)))
    p = vlib.sh([drv_bin], input="".join(L), check=False, timeout=1200)
    if p.returncode != 0:
        raise vlib.BuildBroken("drv harness failed: " + p.stdout[-2000:])
    outs = [[int(x) for x in l.split()] for l in p.stdout.strip().split("\n")] if cases else []
    if len(outs) != len(cases):
        raise vlib.BuildBroken("drv harness returned %d lines for %d cases" % (len(outs), len(cases)))
    return outs


COQ_HEADER = """From Coq Require Import List ZArith Bool NArith.
From LV Require Import LR.Driver LR.Serialize.
Import ListNotations.
Definition FUEL : nat := Z.to_nat 4000.
"""


def coq_header(tabs):
    h = COQ_HEADER
    for tid, t in tabs.items():
        h += "Definition T_%s : tables := %s.\n" % (tid, lrtab.to_coq(t))
    return h


def coq_check(tid, items, orc, out):
    return "chk T_%s FUEL [%s] [%s] [%s]%%Z" % (
        tid, "; ".join(item_coq(i) for i in items),
        "; ".join("(%d, %d%%N, %d%%N)" % o for o in orc),
        "; ".join(str(x) if x >= 0 else "(%d)" % x for x in out))


# ---------------------------------------------------------------- decoding outputs (python side)

def decode(out):
    """serialised outcome -> dict(kind, ...), pulled, acts"""
    pos = [0]

    def nxt():
        v = out[pos[0]]; pos[0] += 1; return v

    def tok():
        return {"idx": nxt() - 1, "id": nxt(), "lo": nxt(), "hi": nxt()}

    def exp():
        return [nxt() for _ in range(nxt())]

    def err():
        k = nxt()
        if k == 0:
            t = tok(); return {"e": "UnrecognizedToken", "token": t, "expected": exp()}
        if k == 1:
            l = nxt(); return {"e": "UnrecognizedEof", "loc": l, "expected": exp()}
        if k == 2:
            return {"e": "ExtraToken", "token": tok()}
        if k == 3:
            return {"e": "User", "error": nxt()}
        return {"e": "InvalidToken", "loc": nxt()}

    def tree():
        k = nxt()
        if k == 10:
            return {"leaf": tok()}
        if k == 11:
            lo = nxt(); hi = nxt()
            e = err(); n = nxt()
            return {"err": e, "dropped": [tok() for _ in range(n)], "lo": lo, "hi": hi}
        p = nxt(); n = nxt()
        return {"p": p, "kids": [tree() for _ in range(n)]}
    k = nxt()
    if k == 20:
        res = {"kind": "ok", "tree": tree()}
    elif k == 21:
        res = {"kind": "err", "err": err()}
    elif k == 22:
        res = {"kind": "panic"}
    else:
        res = {"kind": "budget"}
    res["pulled"] = nxt()
    n = nxt()
    ev = [(nxt(), nxt(), nxt()) for _ in range(n)]
    res["log"] = [e[0] for e in ev]   # pulls as -(i+1), actions as production index (+1000000 when failing)
    res["acts"] = [e[0] % 1000000 for e in ev if e[0] >= 0]
    res["spans"] = [(e[0], e[1], e[2]) for e in ev if 0 <= e[0] < 1000000]
    return res
